package props

import (
	"bytes"
	"crypto"
	stded "crypto/ed25519"
	"crypto/elliptic"
	"crypto/rand"
	"crypto/rsa"
	"fmt"
	"math/big"
	"runtime"
	"strings"
	"sync"
	"sync/atomic"
	"time"

	"github.com/cloudflare/circl/oprf"

	"github.com/cloudflare/pat-go/ecdsa"
	"github.com/cloudflare/pat-go/ed25519"
	"github.com/cloudflare/pat-go/tokens"
	"github.com/cloudflare/pat-go/tokens/batched"
	"github.com/cloudflare/pat-go/tokens/type1"
	"github.com/cloudflare/pat-go/tokens/type2"
	"github.com/cloudflare/pat-go/tokens/type3"
	"github.com/cloudflare/pat-go/tokens/type5"
	"github.com/cloudflare/pat-go/util"

	"verifharness/internal/core"
	"verifharness/internal/ref"
)

func init() {
	core.Register(&core.Prop{
		ID:    "C17",
		Level: "exploration",
		Rule: "built with -race. For each shared-object kind (type-1, type-2, type-3, type-5 issuer, generic batch issuer, *ecdsa.PrivateKey/PublicKey, ed25519.PrivateKey) a FRESH object (fresh VOPRF key object, so lazily initialised state is untouched) is used by G goroutines released from a barrier, each running a seeded mix of Evaluate/EvaluateBatch/Verify/TokenKeyID/TokenKey/Sign/Verify/Blind* with its own arguments (the ECDSA kinds use keys on two to four different curves at the same moment, the burst kind signs 150 digests back to back per goroutine on three curves); repeated R times per kind, kinds rotated over worker processes so that package-level sync.Once state is first touched concurrently. " +
			"Oracle: zero race-detector reports (GORACE log, de-duplicated by the outermost pat-go frames of both stacks) and every call's result satisfies its sequential oracle (responses finalize under the caller's own request state to a token valid under the reference verifier, Verify verdicts as expected for valid and bit-flipped tokens, key ids equal the value computed on a second object, signatures verify under the standard library, blinded keys equal the sequential result). " +
			"distinct_nontrivial = fresh objects on which at least two goroutines were observed inside pat-go at the same time (atomic in-flight counter)",
		Floors:      []string{"token_key_codec_results_ok", "unsupported_curve_errors_independent", "objects_with_overlap", "evaluate_results_ok", "verify_results_ok", "keyid_results_ok", "sign_results_ok", "blind_results_ok", "batch_results_ok", "kind_type1", "kind_type2", "kind_type3", "kind_type5", "kind_batch", "kind_ecdsa", "kind_ecdsa-burst", "kind_ed25519", "tampered_twin_refused", "wide_repetitions_96_goroutines"},
		Assumptions: []string{"the race detector reports conflicting accesses it observes; schedules that did not run are not judged", "each call has its own per-call arguments, as the statement requires"},
		Race:        true,
		Run:         runC17,
	})
}

// ownPublicKey returns a private copy of a VOPRF public key (circl's P-384
// elements normalise themselves in place when marshalled, so the monitor's own
// oracle code must not share one between goroutines).
func ownPublicKey(suite oprf.Suite, enc []byte) *oprf.PublicKey {
	pk := new(oprf.PublicKey)
	must(pk.UnmarshalBinary(suite, enc))
	return pk
}

type c17Run struct {
	c        *core.Ctx
	inflight atomic.Int32
	maxSeen  atomic.Int32
	mu       sync.Mutex
	failures []string
}

func (r *c17Run) enter() {
	n := r.inflight.Add(1)
	for {
		m := r.maxSeen.Load()
		if n <= m || r.maxSeen.CompareAndSwap(m, n) {
			break
		}
	}
}

func (r *c17Run) leave() { r.inflight.Add(-1) }

func (r *c17Run) fail(what string) {
	r.mu.Lock()
	if len(r.failures) < 5 {
		r.failures = append(r.failures, what)
	}
	r.mu.Unlock()
}

// conc releases g goroutines from a barrier; each runs body(goroutine index).
func (r *c17Run) conc(g int, body func(gi int)) {
	var wg sync.WaitGroup
	start := make(chan struct{})
	for i := 0; i < g; i++ {
		wg.Add(1)
		go func(gi int) {
			defer wg.Done()
			defer func() {
				if p := recover(); p != nil {
					r.fail(fmt.Sprintf("goroutine %d panicked: %v", gi, p))
				}
			}()
			<-start
			body(gi)
		}(i)
	}
	close(start)
	wg.Wait()
}

func (r *c17Run) finish(kind string, rep int) {
	c := r.c
	c.Class("kind_" + kind)
	// how many goroutines were inside pat-go at the same moment on this object (the interleaving actually seen)
	c.Class(fmt.Sprintf("objects_with_max_%02d_calls_in_flight", r.maxSeen.Load()))
	if r.maxSeen.Load() >= 2 {
		c.Class("objects_with_overlap")
		c.Distinctf("%s:%d", kind, rep)
	}
	for _, f := range r.failures {
		c.Violation("concurrent-result:"+kind, "a concurrent call on a shared "+kind+" object produced a result no sequential call could: "+f, map[string]any{"kind": kind, "repetition": rep, "max_in_flight": r.maxSeen.Load()})
	}
}

func runC17(c *core.Ctx) {
	G := c.Pick(16, 32)
	R := c.Pick(30, 800)
	kinds := []string{"type1", "ed25519", "type5", "ecdsa", "type2", "batch", "type3", "ecdsa-burst"}
	setup := c.Rng("setup")
	k1seed, k5seed := setup.Bytes(32), setup.Bytes(32)
	rk := RSAKeys()
	// schedule diversity: the number of OS threads running goroutines changes per repetition (16 worker processes on
	// this machine already oversubscribe the cores, so preemption falls at arbitrary points inside the calls)
	procs := []int{runtime.GOMAXPROCS(0), 2, 4, 8, 3}
	defer runtime.GOMAXPROCS(procs[0])
	for rep := 0; rep < R; rep++ {
		runtime.GOMAXPROCS(procs[rep%len(procs)])
		c.Class(fmt.Sprintf("gomaxprocs_%02d", procs[rep%len(procs)]))
		for ki, kind := range kinds {
			_ = ki
			if !c.Next() {
				continue
			}
			r := c.CaseRng()
			run := &c17Run{c: c}
			G := G
			if rep%10 == 7 && kind != "ecdsa-burst" {
				// a wide repetition: more callers in flight than any plausible internal limit on concurrent work (a limiter
				// that is taken twice per call, or not given back on some path, blocks for good only beyond its capacity)
				G = 96
				c.Class("wide_repetitions_96_goroutines")
			}
			c.Eval(int64(G))
			c.Note(fmt.Sprintf("concurrent %s rep %d", kind, rep))
			seeds := make([][]byte, G)
			for i := range seeds {
				seeds[i] = r.Bytes(32)
			}
			switch kind {
			case "type1":
				c17Type1(run, G, seeds, VOPRFKey(oprf.SuiteP384, k1seed), rep)
			case "type5":
				c17Type5(run, G, seeds, VOPRFKey(oprf.SuiteRistretto255, k5seed), rep)
			case "type2":
				c17Type2(run, G, seeds, rk[rep%len(rk)])
			case "type3":
				c17Type3(run, G, seeds, rk[rep%len(rk)])
			case "batch":
				c17Batch(run, G, seeds, VOPRFKey(oprf.SuiteP384, k1seed), rk[rep%len(rk)])
			case "ecdsa":
				c17ECDSA(run, G, seeds, rep)
			case "ed25519":
				c17Ed25519(run, G, seeds)
			case "ecdsa-burst":
				c17ECDSABurst(run, seeds, rep)
			}
			run.finish(kind, rep)
			if rep == 0 {
				c.Sample("concurrent workload", map[string]any{"kind": kind, "goroutines": G, "max_in_flight_observed": run.maxSeen.Load()})
			}
		}
	}
}

func c17Type1(run *c17Run, G int, seeds [][]byte, keyVal *oprf.PrivateKey, rep int) {
	c := run.c
	// expected values from a second object built from the same key bytes
	other := type1.NewBasicPrivateIssuer(FreshVOPRFKey(oprf.SuiteP384, keyVal))
	wantID := other.TokenKeyID()
	pkEnc, _ := other.TokenKey().MarshalBinary()
	// per-goroutine requests and tokens prepared with the other object
	type prep struct {
		st         type1.BasicPrivateTokenRequestState
		nonce, ch  []byte
		valid, bad tokens.Token
		want       []byte
	}
	ps := make([]prep, G)
	for i := range ps {
		r := core.NewRand(int64(i), string(seeds[i]))
		p := &ps[i]
		p.nonce, p.ch = r.Bytes(32), r.Bytes(10)
		st, err := type1.NewBasicPrivateClient().CreateTokenRequest(p.ch, p.nonce, wantID, ownPublicKey(oprf.SuiteP384, pkEnc))
		must(err)
		p.st = st
		st2, _ := type1.NewBasicPrivateClient().CreateTokenRequest(p.ch, p.nonce, wantID, ownPublicKey(oprf.SuiteP384, pkEnc))
		resp, err := other.Evaluate(st2.Request())
		must(err)
		p.valid, err = st2.FinalizeToken(resp)
		must(err)
		p.bad = cloneToken(p.valid)
		p.bad.Authenticator[3] ^= 4
		p.want = RefVOPRF(oprf.SuiteP384, keyVal, ref.TokenBytes(1, p.nonce, p.ch, wantID, nil))
	}
	// the object under test: fresh key object, never used
	fresh := FreshVOPRFKey(oprf.SuiteP384, keyVal)
	iss := type1.NewBasicPrivateIssuer(fresh)
	tokenKeys := make([]*oprf.PublicKey, G)
	defer func() {
		// the keys handed out are compared after the goroutines have joined
		for _, k := range tokenKeys {
			if k == nil {
				continue
			}
			kb, _ := k.MarshalBinary()
			if !bytes.Equal(kb, pkEnc) {
				run.fail("TokenKey differs from the sequential value")
			} else {
				c.Class("keyid_results_ok")
			}
		}
	}()
	run.conc(G, func(gi int) {
		p := &ps[gi]
		order := []int{0, 1, 2, 3, 4}
		for k := range order {
			switch (order[k] + gi) % 5 {
			case 0:
				run.enter()
				id := iss.TokenKeyID()
				run.leave()
				if !bytes.Equal(id, wantID) {
					run.fail("TokenKeyID differs from the sequential value")
				} else {
					c.Class("keyid_results_ok")
				}
			case 1:
				run.enter()
				resp, err := iss.Evaluate(p.st.Request())
				run.leave()
				if err != nil {
					run.fail("Evaluate failed: " + err.Error())
					break
				}
				tok, err := p.st.FinalizeToken(resp)
				if err != nil || !bytes.Equal(tok.Authenticator, p.want) {
					run.fail(fmt.Sprintf("response does not finalize to a valid token: %v", err))
				} else {
					c.Class("evaluate_results_ok")
				}
			case 2:
				run.enter()
				e1 := iss.Verify(p.valid)
				e2 := iss.Verify(p.bad)
				run.leave()
				if e1 != nil || e2 == nil {
					run.fail(fmt.Sprintf("Verify verdicts wrong: valid->%v corrupted->%v", e1, e2))
				} else {
					c.Class("verify_results_ok")
				}
			case 3:
				run.enter()
				k := iss.TokenKey()
				run.leave()
				tokenKeys[gi] = k
			case 4:
				run.enter()
				t := iss.Type()
				run.leave()
				if t != 1 {
					run.fail("Type differs")
				}
			}
		}
	})
}

func c17Type5(run *c17Run, G int, seeds [][]byte, keyVal *oprf.PrivateKey, rep int) {
	c := run.c
	other := type5.NewBatchedPrivateIssuer(FreshVOPRFKey(oprf.SuiteRistretto255, keyVal))
	wantID := other.TokenKeyID()
	pkEnc, _ := other.TokenKey().MarshalBinary()
	type prep struct {
		st         type5.BatchedPrivateTokenRequestState
		nonces     [][]byte
		ch         []byte
		valid, bad tokens.Token
		want       []byte
	}
	ps := make([]prep, G)
	for i := range ps {
		r := core.NewRand(int64(i), string(seeds[i]))
		p := &ps[i]
		p.nonces, p.ch = [][]byte{r.Bytes(32), r.Bytes(32)}, r.Bytes(10)
		st, err := type5.NewBatchedPrivateClient().CreateTokenRequest(p.ch, p.nonces, wantID, ownPublicKey(oprf.SuiteRistretto255, pkEnc))
		must(err)
		p.st = st
		st2, _ := type5.NewBatchedPrivateClient().CreateTokenRequest(p.ch, p.nonces, wantID, ownPublicKey(oprf.SuiteRistretto255, pkEnc))
		resp, err := other.Evaluate(st2.Request())
		must(err)
		ts, err := st2.FinalizeTokens(resp)
		must(err)
		p.valid = ts[0]
		p.bad = cloneToken(p.valid)
		p.bad.Nonce[0] ^= 1
		p.want = RefVOPRF(oprf.SuiteRistretto255, keyVal, ref.TokenBytes(5, p.nonces[1], p.ch, wantID, nil))
	}
	iss := type5.NewBatchedPrivateIssuer(FreshVOPRFKey(oprf.SuiteRistretto255, keyVal))
	tokenKeys := make([]*oprf.PublicKey, G)
	run.conc(G, func(gi int) {
		p := &ps[gi]
		for k := 0; k < 4; k++ {
			switch (k + gi) % 4 {
			case 0:
				run.enter()
				id := iss.TokenKeyID()
				run.leave()
				if !bytes.Equal(id, wantID) {
					run.fail("TokenKeyID differs from the sequential value")
				} else {
					c.Class("keyid_results_ok")
				}
			case 1:
				run.enter()
				resp, err := iss.Evaluate(p.st.Request())
				run.leave()
				if err != nil {
					run.fail("Evaluate failed: " + err.Error())
					break
				}
				ts, err := p.st.FinalizeTokens(resp)
				if err != nil || len(ts) != 2 || !bytes.Equal(ts[1].Authenticator, p.want) {
					run.fail(fmt.Sprintf("response does not finalize to valid tokens: %v", err))
				} else {
					c.Class("evaluate_results_ok")
				}
			case 2:
				run.enter()
				e1 := iss.Verify(p.valid)
				e2 := iss.Verify(p.bad)
				run.leave()
				if e1 != nil || e2 == nil {
					run.fail(fmt.Sprintf("Verify verdicts wrong: valid->%v corrupted->%v", e1, e2))
				} else {
					c.Class("verify_results_ok")
				}
			case 3:
				run.enter()
				k := iss.TokenKey()
				run.leave()
				tokenKeys[gi] = k
			}
		}
	})
	for _, k := range tokenKeys {
		if k == nil {
			continue
		}
		kb, _ := k.MarshalBinary()
		if !bytes.Equal(kb, pkEnc) {
			run.fail("TokenKey differs from the sequential value")
		} else {
			c.Class("keyid_results_ok")
		}
	}
}

func c17Type2(run *c17Run, G int, seeds [][]byte, key interface{}) {
	c := run.c
	rk := keyRSA(key)
	wantID := type2.NewBasicPublicIssuer(rk).TokenKeyID()
	iss := type2.NewBasicPublicIssuer(rk)
	run.conc(G, func(gi int) {
		r := core.NewRand(int64(gi), string(seeds[gi]))
		nonce, ch := r.Bytes(32), r.Bytes(10)
		st, err := type2.NewBasicPublicClient().CreateTokenRequest(ch, nonce, wantID, &rk.PublicKey)
		if err != nil {
			run.fail(err.Error())
			return
		}
		// the package-level token-key codecs, with this goroutine's OWN small key (moduli of 64..448 bits: encodings short
		// enough to fit whatever scratch space a shared template might have), both forms, checked again at the end
		small := new(big.Int).SetBytes(r.Bytes(8 + (gi*4)%49))
		small.SetBit(small, 0, 1)
		small.SetBit(small, small.BitLen()|7, 1)
		smallKey := &rsa.PublicKey{N: small, E: []int{3, 65537}[gi%2]}
		run.enter()
		encP, errP := util.MarshalTokenKey(smallKey, false)
		encL, errL := util.MarshalTokenKey(smallKey, true)
		run.leave()
		wantP, wantL := ref.SPKIRSAPSS(small, smallKey.E), ref.SPKIRSAEncryption(small, smallKey.E)
		checkSmall := func(when string) {
			if errP != nil || errL != nil || !bytes.Equal(encP, wantP) || !bytes.Equal(encL, wantL) {
				run.fail("MarshalTokenKey of a goroutine's own small key differs from the reference encoding " + when)
			} else {
				c.Class("token_key_codec_results_ok")
			}
		}
		checkSmall("right after the call")
		defer checkSmall("at the end of the goroutine")
		for k := 0; k < 3; k++ {
			switch (k + gi) % 3 {
			case 0:
				run.enter()
				id := iss.TokenKeyID()
				pub := iss.TokenKey()
				run.leave()
				if !bytes.Equal(id, wantID) || pub.N.Cmp(rk.N) != 0 {
					run.fail("TokenKeyID/TokenKey differ from the sequential value")
				} else {
					c.Class("keyid_results_ok")
				}
			default:
				run.enter()
				resp, err := iss.Evaluate(st.Request())
				run.leave()
				if err != nil {
					run.fail("Evaluate failed: " + err.Error())
					break
				}
				tok, err := st.FinalizeToken(resp)
				if err != nil || ref.VerifyRSAToken(&rk.PublicKey, ref.TokenBytes(2, nonce, ch, wantID, nil), tok.Authenticator) != nil {
					run.fail(fmt.Sprintf("response does not finalize to a valid token: %v", err))
				} else {
					c.Class("evaluate_results_ok")
				}
			}
		}
	})
}

func c17Type3(run *c17Run, G int, seeds [][]byte, key interface{}) {
	c := run.c
	rk := keyRSA(key)
	curve := elliptic.P384()
	iss := type3.NewRateLimitedIssuer(rk)
	iss.AddOrigin("origin.example")
	iss.AddOrigin("other.example")
	wantID := type2.NewBasicPublicIssuer(rk).TokenKeyID()
	indexD := map[string]*big.Int{}
	for _, o := range []string{"origin.example", "other.example"} {
		indexD[o] = new(big.Int).Set(iss.OriginIndexKey(o).D)
	}
	nameKey := iss.NameKey()
	wantNK := nameKey.Marshal()
	// twins: goroutines 2p and 2p+1 work on the SAME request at the same moment - one submits it as it is, the other
	// submits tampered copies (same request key, one bit changed elsewhere). The honest one is served, no tampered
	// copy ever is, whatever the issuer shares between calls that are in flight together.
	type twin struct {
		st        type3.RateLimitedTokenRequestState
		enc       []byte
		nonce, ch []byte
	}
	twins := make([]*twin, G/2)
	for p := range twins {
		r := core.NewRand(int64(p), "twin"+string(seeds[p]))
		t := &twin{nonce: r.Bytes(32), ch: r.Bytes(12)}
		var err error
		t.st, err = type3.NewRateLimitedClientFromSecret(ScalarBytes(r, curve.Params().N, 48)).CreateTokenRequest(t.ch, t.nonce, ScalarBytes(r, curve.Params().N, 48), wantID, &rk.PublicKey, "origin.example", nameKey)
		must(err)
		t.enc = clone(t.st.Request().Marshal())
		twins[p] = t
	}
	run.conc(G, func(gi int) {
		if t := twins[(gi/2)%len(twins)]; gi/2 < len(twins) {
			for k := 0; k < 4; k++ {
				if gi%2 == 0 {
					run.enter()
					resp, _, err := iss.Evaluate(clone(t.enc))
					run.leave()
					if err != nil {
						run.fail("an authentic request was refused while a tampered copy of it was being evaluated: " + err.Error())
						break
					}
					tok, err := t.st.FinalizeToken(resp)
					if err != nil || ref.VerifyRSAToken(&rk.PublicKey, ref.TokenBytes(3, t.nonce, t.ch, wantID, nil), tok.Authenticator) != nil {
						run.fail(fmt.Sprintf("the response to an authentic request does not finalize to a valid token while a tampered copy was in flight: %v", err))
						break
					}
					c.Class("evaluate_results_ok")
				} else {
					// bit positions outside the request key (bytes 2..50): name key id, ciphertext, signature
					bit := []int{8*60 + 1, 8*100 + 3, 8*(len(t.enc)-1) + 7, 8*(len(t.enc)-50) + 2}[k%4]
					run.enter()
					resp, _, err := iss.Evaluate(flipBit(t.enc, bit))
					run.leave()
					if err == nil || resp != nil {
						run.fail("a tampered copy of a request was served while the authentic request was being evaluated")
						break
					}
					c.Class("tampered_twin_refused")
				}
			}
		}
		r := core.NewRand(int64(gi), string(seeds[gi]))
		nonce, ch := r.Bytes(32), r.Bytes(10)
		origin := []string{"origin.example", "other.example"}[gi%2]
		cl := type3.NewRateLimitedClientFromSecret(ScalarBytes(r, curve.Params().N, 48))
		st, err := cl.CreateTokenRequest(ch, nonce, ScalarBytes(r, curve.Params().N, 48), wantID, &rk.PublicKey, origin, nameKey)
		if err != nil {
			run.fail(err.Error())
			return
		}
		enc := st.Request().Marshal()
		for k := 0; k < 3; k++ {
			switch (k + gi) % 3 {
			case 0:
				run.enter()
				id := iss.TokenKeyID()
				nk := iss.NameKey().Marshal()
				ik := iss.OriginIndexKey(origin)
				run.leave()
				if !bytes.Equal(id, wantID) || !bytes.Equal(nk, wantNK) || ik == nil {
					run.fail("TokenKeyID/NameKey/OriginIndexKey differ from the sequential value")
				} else {
					c.Class("keyid_results_ok")
				}
			case 1:
				run.enter()
				resp, brk, err := iss.Evaluate(enc)
				run.leave()
				if err != nil {
					run.fail("Evaluate failed: " + err.Error())
					break
				}
				tok, err := st.FinalizeToken(resp)
				// the second return value must be this request's key blinded with THIS origin's index key
				qx, qy, okq := ref.ECDecompress(curve, st.Request().RequestKey)
				var wantBrk []byte
				if okq {
					ko := ref.ECDSABlindScalar(curve, indexD[origin], t3Ctx("IssuerBlind"))
					bx, by := ref.ECMul(curve, qx, qy, ko)
					wantBrk = ref.ECCompress(curve, bx, by)
				}
				if err != nil || ref.VerifyRSAToken(&rk.PublicKey, ref.TokenBytes(3, nonce, ch, wantID, nil), tok.Authenticator) != nil {
					run.fail(fmt.Sprintf("response does not finalize to a valid token: %v", err))
				} else if !bytes.Equal(brk, wantBrk) {
					run.fail("Evaluate returned a blinded request key computed with another origin's index key (or otherwise wrong) under concurrent use")
				} else {
					c.Class("evaluate_results_ok")
				}
			case 2:
				bad := flipBit(enc, 8*100+3)
				run.enter()
				resp, _, err := iss.Evaluate(bad)
				run.leave()
				if err == nil || resp != nil {
					run.fail("a corrupted request was served during concurrent use")
				} else {
					c.Class("verify_results_ok")
				}
			}
		}
	})
}

func c17Batch(run *c17Run, G int, seeds [][]byte, keyVal *oprf.PrivateKey, key interface{}) {
	c := run.c
	rk := keyRSA(key)
	// two type-1 issuers with different truncated key ids and one type-2 issuer behind one batch issuer;
	// concurrent batches address different keys of the same type
	var keyVal2 *oprf.PrivateKey
	for j := 0; ; j++ {
		keyVal2 = VOPRFKey(oprf.SuiteP384, append([]byte{byte(j)}, seeds[0]...))
		if lastByte(RefVOPRFKeyID(keyVal2)) != lastByte(RefVOPRFKeyID(keyVal)) {
			break
		}
	}
	vals := []*oprf.PrivateKey{keyVal, keyVal2}
	i1 := type1.NewBasicPrivateIssuer(FreshVOPRFKey(oprf.SuiteP384, keyVal))
	i1b := type1.NewBasicPrivateIssuer(FreshVOPRFKey(oprf.SuiteP384, keyVal2))
	i2 := type2.NewBasicPublicIssuer(rk)
	ids := [][]byte{RefVOPRFKeyID(keyVal), RefVOPRFKeyID(keyVal2)}
	id2 := type2.NewBasicPublicIssuer(rk).TokenKeyID()
	pkEncs := make([][]byte, 2)
	for j, v := range vals {
		pkEncs[j], _ = v.Public().MarshalBinary()
	}
	bi := batched.NewBasicBatchedIssuer(batchIssuer1{i1}, batchIssuer1{i1b}, batchIssuer2{i2})
	if G >= 64 {
		// wide repetition: the configured issuers are wrapped so that callers MEET inside the batch issuer - the first
		// TokenKeyID call of each goroutine's first batch waits until most of the others have arrived (or 400 ms have
		// passed: the wait only shapes the schedule, no verdict depends on it). Whatever the batch issuer holds while it
		// consults its issuers is then held by all of them at once.
		m := &meeting{want: G * 3 / 4}
		bi = batched.NewBasicBatchedIssuer(meetIssuer{batchIssuer1{i1}, m}, meetIssuer{batchIssuer1{i1b}, m}, meetIssuer{batchIssuer2{i2}, m})
		c.Class("batch_callers_meet_inside_the_issuer")
	}
	wants := make([][]byte, G)
	for gi := 0; gi < G; gi++ {
		r := core.NewRand(int64(gi), string(seeds[gi]))
		n1, c1 := r.Bytes(32), r.Bytes(10)
		wants[gi] = RefVOPRF(oprf.SuiteP384, vals[gi%2], ref.TokenBytes(1, n1, c1, ids[gi%2], nil))
	}
	run.conc(G, func(gi int) {
		r := core.NewRand(int64(gi), string(seeds[gi]))
		n1, c1, n2, c2 := r.Bytes(32), r.Bytes(10), r.Bytes(32), r.Bytes(10)
		which := gi % 2
		s1, err := type1.NewBasicPrivateClient().CreateTokenRequest(c1, n1, ids[which], ownPublicKey(oprf.SuiteP384, pkEncs[which]))
		if err != nil {
			run.fail(err.Error())
			return
		}
		s2, err := type2.NewBasicPublicClient().CreateTokenRequest(c2, n2, id2, &rk.PublicKey)
		if err != nil {
			run.fail(err.Error())
			return
		}
		bad := &type1.BasicPrivateTokenRequest{TokenKeyID: s1.Request().TokenKeyID, BlindedReq: bytes.Repeat([]byte{0xff}, 49)}
		// a request of a supported type whose truncated key id no configured issuer serves (a different one per goroutine)
		unknown := &type1.BasicPrivateTokenRequest{TokenKeyID: unknownID(byte(gi), ids[0], ids[1]), BlindedReq: clone(s1.Request().BlindedReq)}
		br, err := batched.NewBasicClient().CreateTokenRequest([]tokens.TokenRequestWithDetails{s1.Request(), bad, s2.Request(), unknown})
		if err != nil {
			run.fail(err.Error())
			return
		}
		for k := 0; k < 2; k++ {
			run.enter()
			out, err := bi.EvaluateBatch(br)
			run.leave()
			if err != nil {
				run.fail("EvaluateBatch failed: " + err.Error())
				continue
			}
			es, err := batched.UnmarshalBatchedTokenResponses(out)
			if err != nil || len(es) != 4 || len(es[1]) != 0 || len(es[3]) != 0 || len(es[0]) == 0 || len(es[2]) == 0 {
				run.fail(fmt.Sprintf("batch response wrong (entry lengths %v): %v", entryLens(es), err))
				continue
			}
			t1, e1 := s1.FinalizeToken(es[0])
			t2, e2 := s2.FinalizeToken(es[2])
			if e1 != nil || e2 != nil || !bytes.Equal(t1.Authenticator, wants[gi]) || ref.VerifyRSAToken(&rk.PublicKey, ref.TokenBytes(2, n2, c2, id2, nil), t2.Authenticator) != nil {
				run.fail(fmt.Sprintf("batch entries do not finalize to valid tokens: %v %v", e1, e2))
			} else {
				c.Class("batch_results_ok")
				c.Class("evaluate_results_ok")
			}
		}
	})
}

// unknownID returns a truncated key id different from the last bytes of the two configured ids.
func unknownID(start byte, a, b []byte) byte {
	x := start
	for x == a[len(a)-1] || x == b[len(b)-1] {
		x++
	}
	return x
}

func entryLens(es [][]byte) []int {
	var out []int
	for _, e := range es {
		out = append(out, len(e))
	}
	return out
}

func c17ECDSA(run *c17Run, G int, seeds [][]byte, rep int) {
	c := run.c
	// two signing keys on two different curves, each shared by half of the goroutines: package-level state
	// keyed by curve is exercised from both sides at once
	type ck struct {
		curve          elliptic.Curve
		key, bk        *ecdsa.PrivateKey
		px, py, bx, by *big.Int
	}
	ctx := []byte("ctx")
	mk := func(ci int) *ck {
		curve := c12Curves()[ci%4]
		N := curve.Params().N
		w := (N.BitLen() + 7) / 8
		kr := core.NewRand(int64(rep*7+ci), "c17ecdsa")
		d := ScalarBytes(kr, N, w)
		key, err := ecdsa.CreateKey(curve, d)
		must(err)
		bk, err := ecdsa.CreateKey(curve, ScalarBytes(kr, N, w))
		must(err)
		px, py := ref.ECBaseMul(curve, new(big.Int).SetBytes(d))
		k := ref.ECDSABlindScalar(curve, bk.D, ctx)
		bx, by := ref.ECMul(curve, px, py, k)
		return &ck{curve, key, bk, px, py, bx, by}
	}
	pair := []*ck{mk(rep), mk(rep + 1 + rep%3)}
	run.conc(G, func(gi int) {
		r := core.NewRand(int64(gi), string(seeds[gi]))
		digest := r.Bytes(32)
		k := pair[gi%2]
		curve, key, bk, px, py, bx, by := k.curve, k.key, k.bk, k.px, k.py, k.bx, k.by
		for j := 0; j < 5; j++ {
			switch (j + gi) % 5 {
			case 0:
				run.enter()
				rr, ss, err := ecdsa.Sign(rand.Reader, key, digest)
				run.leave()
				if err != nil || !stdECDSAVerify(curve, px, py, digest, rr, ss) {
					run.fail("Sign produced an invalid signature on " + curve.Params().Name)
				} else {
					c.Class("sign_results_ok")
				}
			case 1:
				run.enter()
				sig, err := key.Sign(rand.Reader, digest, crypto.SHA256)
				ok := err == nil && ecdsa.VerifyASN1(&key.PublicKey, digest, sig)
				run.leave()
				if !ok {
					run.fail("PrivateKey.Sign/VerifyASN1 failed on " + curve.Params().Name)
				} else {
					c.Class("sign_results_ok")
				}
			case 2:
				run.enter()
				rr, ss, err := ecdsa.BlindKeySignWithContext(rand.Reader, key, bk, digest, ctx)
				run.leave()
				if err != nil || !stdECDSAVerify(curve, bx, by, digest, rr, ss) {
					run.fail("BlindKeySignWithContext produced an invalid signature on " + curve.Params().Name)
				} else {
					c.Class("sign_results_ok")
				}
			case 3:
				run.enter()
				bp, err := ecdsa.BlindPublicKeyWithContext(curve, &key.PublicKey, bk, ctx)
				var up *ecdsa.PublicKey
				if err == nil {
					up, err = ecdsa.UnblindPublicKeyWithContext(curve, bp, bk, ctx)
				}
				run.leave()
				if err != nil || bp.X.Cmp(bx) != 0 || bp.Y.Cmp(by) != 0 || up.X.Cmp(px) != 0 {
					run.fail("Blind/Unblind differ from the sequential result on " + curve.Params().Name)
				} else {
					c.Class("blind_results_ok")
				}
			case 4:
				rr, ss, _ := ecdsa.Sign(rand.Reader, key, digest)
				bad := new(big.Int).Add(ss, big.NewInt(1))
				run.enter()
				ok1 := ecdsa.Verify(&key.PublicKey, digest, rr, ss)
				ok2 := ecdsa.Verify(&key.PublicKey, digest, rr, bad)
				run.leave()
				if !ok1 || ok2 {
					run.fail("Verify verdicts wrong under concurrency on " + curve.Params().Name)
				} else {
					c.Class("verify_results_ok")
				}
			}
		}
	})
}

// c17ECDSABurst: three curves (the cheaper ones, for density), four goroutines per curve sharing that curve's key, each signing a burst of
// digests back to back; every signature must verify under crypto/ecdsa. Dense signing on several curves at
// once is what exposes unsynchronised or check-then-act package-level state keyed by curve.
func c17ECDSABurst(run *c17Run, seeds [][]byte, rep int) {
	c := run.c
	const perCurve, burst = 4, 150
	type ck struct {
		curve  elliptic.Curve
		key    *ecdsa.PrivateKey
		px, py *big.Int
	}
	var keys []*ck
	for ci, curve := range []elliptic.Curve{elliptic.P224(), elliptic.P256(), elliptic.P384()} {
		N := curve.Params().N
		kr := core.NewRand(int64(rep*11+ci), "c17burst")
		d := ScalarBytes(kr, N, (N.BitLen()+7)/8)
		key, err := ecdsa.CreateKey(curve, d)
		must(err)
		px, py := ref.ECBaseMul(curve, new(big.Int).SetBytes(d))
		keys = append(keys, &ck{curve, key, px, py})
	}
	c.Eval(int64(len(keys) * perCurve * burst))
	// next to them, callers that ask for key blinding on curves the package has no suite for (two differently named
	// copies of the P-256 parameters): each gets an error of its own, naming nothing of the other call
	unsupported := []*elliptic.CurveParams{}
	for _, nm := range []string{"P-256-copy", "another-curve"} {
		cp := *elliptic.P256().Params()
		cp.Name = nm
		unsupported = append(unsupported, &cp)
	}
	nU := 4
	run.conc(len(keys)*perCurve+nU, func(gi int) {
		if gi >= len(keys)*perCurve {
			cv := unsupported[gi%2]
			k256 := keys[1]
			for i := 0; i < burst; i++ {
				run.enter()
				_, err := ecdsa.BlindPublicKeyWithContext(cv, &k256.key.PublicKey, k256.key, []byte("ctx"))
				var msg string
				if err != nil {
					msg = err.Error()
				}
				run.leave()
				if err == nil {
					run.fail("BlindPublicKeyWithContext on a curve without a suite returned no error")
					return
				}
				if other := unsupported[1-gi%2].Name; strings.Contains(msg, other) {
					run.fail(fmt.Sprintf("the error returned for curve %q names the curve of another goroutine's call: %s", cv.Name, msg))
					return
				}
			}
			c.Class("unsupported_curve_errors_independent")
			return
		}
		k := keys[gi%len(keys)]
		r := core.NewRand(int64(gi), string(seeds[gi%len(seeds)]))
		okAll := true
		for i := 0; i < burst; i++ {
			digest := r.Bytes(32)
			run.enter()
			rr, ss, err := ecdsa.Sign(rand.Reader, k.key, digest)
			run.leave()
			if err != nil || !stdECDSAVerify(k.curve, k.px, k.py, digest, rr, ss) {
				run.fail(fmt.Sprintf("Sign on %s while other goroutines sign on other curves produced a signature crypto/ecdsa rejects (err=%v)", k.curve.Params().Name, err))
				okAll = false
				break
			}
		}
		if okAll {
			c.Class("sign_results_ok")
			c.Class("burst_signatures_ok")
		}
	})
}

func c17Ed25519(run *c17Run, G int, seeds [][]byte) {
	c := run.c
	// two key pairs used at the same moment (goroutine parity); keys come from the standard library (same bytes): the
	// fork's own first operation - and with it the first touch of its lazily built tables - happens inside the goroutines
	type kp struct {
		spriv stded.PrivateKey
		priv  ed25519.PrivateKey
		pub   []byte
		wantB []byte
	}
	blind := seeds[1%len(seeds)]
	ctx := []byte("ctx")
	var keys []*kp
	for ki := 0; ki < 2; ki++ {
		spriv := stded.NewKeyFromSeed(seeds[(2*ki)%len(seeds)])
		k := &kp{spriv: spriv, priv: ed25519.PrivateKey(append([]byte{}, spriv...)), pub: []byte(spriv[32:])}
		A, _ := ref.EdDecode(k.pub)
		k.wantB = ref.EdEncode(ref.EdMul(c15Scalar(blind, ctx), A))
		keys = append(keys, k)
	}
	// blinded-key signatures made concurrently, re-made sequentially after the join and compared byte for byte
	type made struct {
		ki  int
		msg []byte
		sig []byte
		ctx []byte
	}
	var mu sync.Mutex
	var blindSigs []made
	run.conc(G, func(gi int) {
		r := core.NewRand(int64(gi), string(seeds[gi]))
		msg := r.Bytes(r.IntN(60))
		ki := gi % 2
		k := keys[ki]
		// half of the goroutines blind with a context of their own, 128..330 bytes long (blind || 0 || context then no
		// longer fits whatever fixed-size scratch space an implementation might share)
		ctx, wantB := ctx, k.wantB
		if gi%4 >= 2 {
			ctx = r.Bytes(128 + r.IntN(200))
			A, _ := ref.EdDecode(k.pub)
			wantB = ref.EdEncode(ref.EdMul(c15Scalar(blind, ctx), A))
			c.Class("blinding_with_long_per_goroutine_contexts")
		}
		for j := 0; j < 4; j++ {
			switch (j + gi/2) % 4 {
			case 0:
				run.enter()
				sig := ed25519.Sign(k.priv, msg)
				run.leave()
				if !bytes.Equal(sig, stded.Sign(k.spriv, msg)) {
					run.fail("Sign differs from crypto/ed25519 while another key signs at the same moment")
				} else {
					c.Class("sign_results_ok")
				}
			case 1:
				sig := stded.Sign(k.spriv, msg)
				bad := flipBit(sig, 9)
				other := keys[1-ki]
				run.enter()
				ok1 := ed25519.Verify(k.pub, msg, sig)
				ok2 := ed25519.Verify(k.pub, msg, bad)
				ok3 := ed25519.Verify(other.pub, msg, sig)
				run.leave()
				if !ok1 || ok2 || ok3 {
					run.fail("Verify verdicts wrong under concurrency")
				} else {
					c.Class("verify_results_ok")
				}
			case 2:
				run.enter()
				bp, err := ed25519.BlindPublicKeyWithContext(k.pub, blind, ctx)
				var up ed25519.PublicKey
				if err == nil {
					up, err = ed25519.UnblindPublicKeyWithContext(bp, blind, ctx)
				}
				run.leave()
				if err != nil || !bytes.Equal(bp, wantB) || !bytes.Equal(up, k.pub) {
					run.fail("Blind/Unblind differ from the sequential result")
				} else {
					c.Class("blind_results_ok")
				}
			case 3:
				run.enter()
				sig := ed25519.BlindKeySignWithContext(k.priv, msg, blind, ctx)
				run.leave()
				if !stded.Verify(stded.PublicKey(wantB), msg, sig) {
					run.fail("BlindKeySignWithContext produced an invalid signature")
				} else {
					c.Class("sign_results_ok")
					mu.Lock()
					blindSigs = append(blindSigs, made{ki, msg, sig, ctx})
					mu.Unlock()
				}
			}
		}
	})
	for _, m := range blindSigs {
		if !bytes.Equal(ed25519.BlindKeySignWithContext(keys[m.ki].priv, m.msg, blind, m.ctx), m.sig) {
			run.fail("a blinded-key signature made while other goroutines were signing differs from the one a sequential call with the same arguments makes")
			break
		}
	}
}

// keyRSA returns a NEW private key object with the same value and no precomputed CRT values, as a key
// assembled by a caller from its components would be (the fixtures are precomputed at load time).
func keyRSA(k interface{}) *rsa.PrivateKey {
	o := k.(*rsa.PrivateKey)
	primes := make([]*big.Int, len(o.Primes))
	for i, p := range o.Primes {
		primes[i] = new(big.Int).Set(p)
	}
	return &rsa.PrivateKey{PublicKey: rsa.PublicKey{N: new(big.Int).Set(o.N), E: o.E}, D: new(big.Int).Set(o.D), Primes: primes}
}

// meeting lets callers wait for each other inside a callback (bounded wait).
type meeting struct {
	mu      sync.Mutex
	arrived int
	want    int
	open    chan struct{}
	once    sync.Once
}

func (m *meeting) wait() {
	m.once.Do(func() { m.open = make(chan struct{}) })
	m.mu.Lock()
	m.arrived++
	n := m.arrived
	m.mu.Unlock()
	if n == m.want {
		close(m.open)
		return
	}
	if n > m.want {
		return
	}
	select {
	case <-m.open:
	case <-time.After(400 * time.Millisecond):
	}
}

// meetIssuer makes the first TokenKeyID call of every goroutine-batch wait at the meeting.
type meetIssuer struct {
	batched.Issuer
	m *meeting
}

func (i meetIssuer) TokenKeyID() []byte {
	i.m.wait()
	return i.Issuer.TokenKeyID()
}
