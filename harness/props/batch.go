package props

import (
	"crypto/rsa"
	"crypto/x509"
	"encoding/hex"
	"encoding/pem"
	"errors"
	"fmt"

	"github.com/cloudflare/circl/oprf"

	"github.com/cloudflare/pat-go/tokens"
	"github.com/cloudflare/pat-go/tokens/batched"
	"github.com/cloudflare/pat-go/tokens/type1"
	"github.com/cloudflare/pat-go/tokens/type2"
)

// Adapters from the concrete issuers to batched.Issuer (the repository's own
// adapter lives in a test file).

type batchIssuer1 struct{ inner *type1.BasicPrivateIssuer }

func (i batchIssuer1) Evaluate(req tokens.TokenRequest) ([]byte, error) {
	r, ok := req.(*type1.BasicPrivateTokenRequest)
	if !ok {
		return nil, errors.New("TokenRequest does not match issuer type")
	}
	return i.inner.Evaluate(r)
}
func (i batchIssuer1) TokenKeyID() []byte { return i.inner.TokenKeyID() }
func (i batchIssuer1) Type() uint16       { return i.inner.Type() }

type batchIssuer2 struct{ inner *type2.BasicPublicIssuer }

func (i batchIssuer2) Evaluate(req tokens.TokenRequest) ([]byte, error) {
	r, ok := req.(*type2.BasicPublicTokenRequest)
	if !ok {
		return nil, errors.New("TokenRequest does not match issuer type")
	}
	return i.inner.Evaluate(r)
}
func (i batchIssuer2) TokenKeyID() []byte { return i.inner.TokenKeyID() }
func (i batchIssuer2) Type() uint16       { return i.inner.Type() }

var _ batched.Issuer = batchIssuer1{}
var _ batched.Issuer = batchIssuer2{}

// RustIssuance is one issuance of an interop vector.
type RustIssuance struct {
	Type      uint16
	SkS       []byte
	PkS       []byte
	Challenge []byte
	Nonce     []byte
	Blind     []byte
	Salt      []byte
	Token     []byte

	Key1 *oprf.PrivateKey
	Key2 *rsa.PrivateKey
}

// RustVector is one batched-issuance vector produced by the Rust implementation.
type RustVector struct {
	Issuance      []RustIssuance
	TokenRequest  []byte
	TokenResponse []byte
}

func unhex(s string) []byte {
	b, err := hex.DecodeString(s)
	if err != nil {
		panic(err)
	}
	return b
}

// LoadRustVectors reads tokens/batched/batched-issuance-test-vectors-rust.json.
func LoadRustVectors() ([]RustVector, error) {
	var raw []struct {
		Issuance []struct {
			Type      string `json:"type"`
			SkS       string `json:"skS"`
			PkS       string `json:"pkS"`
			Challenge string `json:"token_challenge"`
			Nonce     string `json:"nonce"`
			Blind     string `json:"blind"`
			Salt      string `json:"salt"`
			Token     string `json:"token"`
		} `json:"issuance"`
		TokenRequest  string `json:"token_request"`
		TokenResponse string `json:"token_response"`
	}
	if err := loadJSON("tokens/batched/batched-issuance-test-vectors-rust.json", &raw); err != nil {
		return nil, err
	}
	var out []RustVector
	for _, v := range raw {
		rv := RustVector{TokenRequest: unhex(v.TokenRequest), TokenResponse: unhex(v.TokenResponse)}
		for _, is := range v.Issuance {
			t := unhex(is.Type)
			ri := RustIssuance{Type: uint16(t[0])<<8 | uint16(t[1]), SkS: unhex(is.SkS), PkS: unhex(is.PkS), Challenge: unhex(is.Challenge), Nonce: unhex(is.Nonce), Blind: unhex(is.Blind), Salt: unhex(is.Salt), Token: unhex(is.Token)}
			switch ri.Type {
			case 1:
				k := new(oprf.PrivateKey)
				if err := k.UnmarshalBinary(oprf.SuiteP384, ri.SkS); err != nil {
					return nil, err
				}
				ri.Key1 = k
			case 2:
				blk, _ := pem.Decode(ri.SkS)
				if blk == nil {
					return nil, fmt.Errorf("rust vector: bad PEM")
				}
				k, err := x509.ParsePKCS8PrivateKey(blk.Bytes)
				if err != nil {
					return nil, err
				}
				ri.Key2 = k.(*rsa.PrivateKey)
			default:
				return nil, fmt.Errorf("rust vector: unexpected type %d", ri.Type)
			}
			rv.Issuance = append(rv.Issuance, ri)
		}
		out = append(out, rv)
	}
	return out, nil
}
