package props

import (
	"bytes"
	"crypto/rsa"
	"fmt"
	"math/big"

	"github.com/cloudflare/circl/group"
	"github.com/cloudflare/circl/oprf"

	"github.com/cloudflare/pat-go/tokens"
	"github.com/cloudflare/pat-go/tokens/batched"
	"github.com/cloudflare/pat-go/tokens/type1"
	"github.com/cloudflare/pat-go/tokens/type2"
	"github.com/cloudflare/pat-go/tokens/type5"

	"verifharness/internal/core"
	"verifharness/internal/ref"
)

func init() {
	core.Register(&core.Prop{
		ID:    "C11",
		Level: "exploration",
		Rule: "fixed-blind issuance of types 1, 2, 5: per (key, challenge, nonce[, salt]) a set of blinds incl. 1, 2, order-1 (N-1), leading-zero and seeded ones. Purity: CreateTokenRequestWithBlind(s) twice, the second time with every argument copied into fresh buffers, gives byte-identical requests (or the same error). " +
			"Blind independence: after honest evaluation and finalization the token bytes are identical for every blind of the set and on a repeated run, and equal the reference authenticator (circl FullEvaluate / deterministic PSS verified by crypto/rsa). " +
			"Interop: for each issuance of the shipped Rust vectors the request equals the slice of the vector's token_request cut by the harness's parser, the token from pat-go's issuer equals the vector's token, and the vector's token_response entry finalizes to the same token. " +
			"distinct_nontrivial = distinct (type, key, input, blind class) cases",
		Floors:      []string{"pure_requests_for_other_salt_shapes", "pure_requests", "blind_independent_token_sets", "rust_request_bytes_equal", "rust_token_equal", "rust_response_finalizes", "type1_cases", "type2_cases", "type5_cases", "invalid_blind_is_error", "argument_buffers_reused_after_creation"},
		Assumptions: []string{"the Rust vectors shipped in the repository are the independent implementation's output"},
		Run:         runC11,
	})
}

func c11ScalarSet(r *core.Rand, g group.Group, n int) [][]byte {
	var out [][]byte
	for j := 0; j < n; j++ {
		out = append(out, c01EdgeScalar(r, j, g))
	}
	return out
}

func runC11(c *core.Ctx) {
	setup := c.Rng("setup")
	K := c.Pick(3, 4)
	M := c.Pick(8, 120)
	B := c.Pick(8, 24)
	rk := RSAKeys()
	var k1, k5 []*oprf.PrivateKey
	for i := 0; i < K; i++ {
		k1 = append(k1, VOPRFKey(oprf.SuiteP384, setup.Bytes(32)))
		k5 = append(k5, VOPRFKey(oprf.SuiteRistretto255, setup.Bytes(32)))
	}
	bad := func(key, what string, d map[string]any) { c.Violation(key, what, d) }

	for ki := 0; ki < K; ki++ {
		for mi := 0; mi < M; mi++ {
			// ---------------- type 1
			if c.Next() {
				r := c.CaseRng()
				key := k1[ki]
				iss := type1.NewBasicPrivateIssuer(key)
				chal, nonce := GenChallenge(r, mi), GenNonce(r, mi)
				kid := iss.TokenKeyID()
				var tokensSeen [][]byte
				d := map[string]any{"type": 1, "key": ki, "challenge": core.Hex(chal), "nonce": core.Hex(nonce)}
				pan, pv, where := core.Guard(func() {
					for bi, blind := range c11ScalarSet(r, group.P384, B) {
						c.Eval(1)
						d["blind"] = core.Hex(blind)
						st, err := type1.NewBasicPrivateClient().CreateTokenRequestWithBlind(chal, nonce, kid, iss.TokenKey(), blind)
						a1, a2, a3, a4 := clone(chal), clone(nonce), clone(kid), clone(blind)
						st2, err2 := type1.NewBasicPrivateClient().CreateTokenRequestWithBlind(a1, a2, a3, iss.TokenKey(), a4)
						if (err == nil) != (err2 == nil) {
							bad("type1:impure-error", "the same arguments gave an error once and a request once", d)
							return
						}
						if err != nil {
							continue
						}
						a, b := st.Request().Marshal(), st2.Request().Marshal()
						if !bytes.Equal(a, b) {
							d["first"], d["second"] = core.Hex(a), core.Hex(b)
							bad("type1:impure-request", "CreateTokenRequestWithBlind is not a pure function of its arguments", d)
							return
						}
						c.Class("pure_requests")
						resp, err := iss.Evaluate(st.Request())
						if err != nil {
							bad("type1:evaluate-error", err.Error(), d)
							return
						}
						tok, err := st.FinalizeToken(resp)
						if err != nil {
							bad("type1:finalize-error", err.Error(), d)
							return
						}
						// the caller reuses its argument buffers once the request exists: the request state must not depend on them
						for _, b := range [][]byte{a1, a2, a3, a4} {
							for k := range b {
								b[k] ^= 0xa5
							}
						}
						c.Class("argument_buffers_reused_after_creation")
						// a second, independent evaluation (fresh proof randomness) must give the same token
						resp2, _ := iss.Evaluate(st2.Request())
						tok2, err := st2.FinalizeToken(resp2)
						if err != nil || !bytes.Equal(tok.Marshal(), tok2.Marshal()) {
							bad("type1:token-not-reproducible", "two runs with the same blind give different tokens", d)
							return
						}
						tokensSeen = append(tokensSeen, tok.Marshal())
						c.Distinctf("t1:%d:%d:%d", ki, mi, bi%8)
					}
					want := ref.TokenBytes(1, nonce, chal, kid, RefVOPRF(oprf.SuiteP384, key, ref.TokenBytes(1, nonce, chal, kid, nil)))
					for _, t := range tokensSeen {
						if !bytes.Equal(t, want) {
							d["token"], d["expected"] = core.Hex(t), core.Hex(want)
							bad("type1:token-depends-on-blind", "the finalized token differs between blinds (or from the reference evaluation)", d)
							return
						}
					}
					if len(tokensSeen) >= 2 {
						c.Class("blind_independent_token_sets")
					}
					c.Class("type1_cases")
				})
				if pan {
					bad("type1:panic:"+where, "panic: "+pv, d)
				}
			}
			// ---------------- type 2
			if c.Next() {
				r := c.CaseRng()
				key := rk[ki%len(rk)]
				iss := type2.NewBasicPublicIssuer(key)
				chal, nonce, salt := GenChallenge(r, mi), GenNonce(r, mi), r.Bytes(48)
				kid := iss.TokenKeyID()
				var tokensSeen [][]byte
				d := map[string]any{"type": 2, "key": ki, "challenge": core.Hex(chal), "nonce": core.Hex(nonce), "salt": core.Hex(salt)}
				pan, pv, where := core.Guard(func() {
					for bi := 0; bi < B; bi++ {
						blind := RSABlind(r, bi+8*mi, key)
						c.Eval(1)
						d["blind"] = core.Hex(blind)
						st, err := type2.NewBasicPublicClient().CreateTokenRequestWithBlind(chal, nonce, kid, iss.TokenKey(), blind, salt)
						b1, b2, b3, b4, b5 := clone(chal), clone(nonce), clone(kid), clone(blind), clone(salt)
						st2, err2 := type2.NewBasicPublicClient().CreateTokenRequestWithBlind(b1, b2, b3, iss.TokenKey(), b4, b5)
						if err != nil || err2 != nil {
							bad("type2:create-error", fmt.Sprintf("CreateTokenRequestWithBlind failed for a valid blind: %v %v", err, err2), d)
							return
						}
						a, b := st.Request().Marshal(), st2.Request().Marshal()
						if !bytes.Equal(a, b) {
							bad("type2:impure-request", "CreateTokenRequestWithBlind is not a pure function of its arguments", d)
							return
						}
						c.Class("pure_requests")
						resp, err := iss.Evaluate(st.Request())
						if err != nil {
							bad("type2:evaluate-error", err.Error(), d)
							return
						}
						tok, err := st.FinalizeToken(resp)
						if err != nil {
							bad("type2:finalize-error", err.Error(), d)
							return
						}
						if err := ref.VerifyRSAToken(&key.PublicKey, ref.TokenBytes(2, nonce, chal, kid, nil), tok.Authenticator); err != nil {
							bad("type2:token-invalid", err.Error(), d)
							return
						}
						tokensSeen = append(tokensSeen, tok.Marshal())
						// the second state was created from buffers the caller now reuses
						for _, b := range [][]byte{b1, b2, b3, b4, b5} {
							for k := range b {
								b[k] ^= 0xa5
							}
						}
						if resp2, err := iss.Evaluate(st2.Request()); err == nil {
							tok2, err := st2.FinalizeToken(resp2)
							if err != nil || !bytes.Equal(tok2.Marshal(), tok.Marshal()) {
								bad("type2:token-depends-on-reused-argument-buffers", "after the caller reused its argument buffers the request finalizes to a different token (or fails)", d)
								return
							}
						}
						c.Class("argument_buffers_reused_after_creation")
						c.Distinctf("t2:%d:%d:%d", ki, mi, bi%8)
					}
					for _, t := range tokensSeen[1:] {
						if !bytes.Equal(t, tokensSeen[0]) {
							d["token"], d["first_token"] = core.Hex(t), core.Hex(tokensSeen[0])
							bad("type2:token-depends-on-blind", "the finalized token differs between blinds for the same key, challenge, nonce and salt", d)
							return
						}
					}
					// salts of other shapes - none (nil), empty, shorter and longer than the hash: whatever the client makes of
					// them, it makes the same of them every time (the same request bytes, or an error both times)
					for name, sv := range map[string][]byte{"nil": nil, "empty": {}, "1": r.Bytes(1), "20": r.Bytes(20), "32": r.Bytes(32), "47": r.Bytes(47), "49": r.Bytes(49), "64": r.Bytes(64)} {
						blind := RSABlind(r, 3, key)
						c.Eval(1)
						var e1, e2 error
						var q1, q2 []byte
						st, e1 := type2.NewBasicPublicClient().CreateTokenRequestWithBlind(chal, nonce, kid, iss.TokenKey(), blind, sv)
						if e1 == nil {
							q1 = clone(st.Request().Marshal())
						}
						var sv2 []byte
						if sv != nil {
							sv2 = clone(sv)
							if len(sv) == 0 {
								sv2 = []byte{}
							}
						}
						st2, e2 := type2.NewBasicPublicClient().CreateTokenRequestWithBlind(clone(chal), clone(nonce), clone(kid), iss.TokenKey(), clone(blind), sv2)
						if e2 == nil {
							q2 = clone(st2.Request().Marshal())
						}
						if (e1 == nil) != (e2 == nil) || !bytes.Equal(q1, q2) {
							d["salt_shape"] = name
							bad("type2:impure-request:salt-shape", "CreateTokenRequestWithBlind is not a pure function of its arguments for a salt of this shape ("+name+")", d)
							return
						}
						c.Class("pure_requests_for_other_salt_shapes")
					}
					// a different salt must give a different token (the salt is applied)
					st3, err := type2.NewBasicPublicClient().CreateTokenRequestWithBlind(chal, nonce, kid, iss.TokenKey(), RSABlind(r, 7, key), r.Bytes(48))
					if err == nil {
						resp, _ := iss.Evaluate(st3.Request())
						if tok, err := st3.FinalizeToken(resp); err == nil && bytes.Equal(tok.Marshal(), tokensSeen[0]) {
							bad("type2:salt-ignored", "a different salt gives the same token", d)
							return
						}
					}
					c.Class("blind_independent_token_sets")
					c.Class("type2_cases")
					// invalid blinds: >= N, not invertible: an error, not a request
					for name, blind := range map[string][]byte{"N": key.N.Bytes(), "N+1": new(big.Int).Add(key.N, big.NewInt(1)).Bytes(), "p": key.Primes[0].Bytes(), "0": {0}} {
						c.Eval(1)
						_, err := type2.NewBasicPublicClient().CreateTokenRequestWithBlind(chal, nonce, kid, iss.TokenKey(), blind, salt)
						if err == nil {
							d["blind"] = name
							bad("type2:invalid-blind-accepted", "a blind that is not invertible modulo N (or >= N) produced a request instead of an error", d)
							return
						}
						c.Class("invalid_blind_is_error")
					}
				})
				if pan {
					bad("type2:panic:"+where, "panic: "+pv, d)
				}
			}
			// ---------------- type 5
			if c.Next() {
				r := c.CaseRng()
				key := k5[ki]
				iss := type5.NewBatchedPrivateIssuer(key)
				chal := GenChallenge(r, mi)
				nb := 1 + mi%5
				nonces := make([][]byte, nb)
				for j := range nonces {
					nonces[j] = r.Bytes(32)
				}
				kid := iss.TokenKeyID()
				d := map[string]any{"type": 5, "key": ki, "challenge": core.Hex(chal), "batch": nb}
				var first [][]byte
				pan, pv, where := core.Guard(func() {
					for bi := 0; bi < B/2+1; bi++ {
						var blinds [][]byte
						for j := 0; j < nb; j++ {
							blinds = append(blinds, c01EdgeScalar(r, bi+j, group.Ristretto255))
						}
						c.Eval(1)
						st, err := type5.NewBatchedPrivateClient().CreateTokenRequestWithBlinds(chal, nonces, kid, iss.TokenKey(), blinds)
						cp := make([][]byte, nb)
						cn := make([][]byte, nb)
						for j := range cp {
							cp[j], cn[j] = clone(blinds[j]), clone(nonces[j])
						}
						st2, err2 := type5.NewBatchedPrivateClient().CreateTokenRequestWithBlinds(clone(chal), cn, clone(kid), iss.TokenKey(), cp)
						if err != nil || err2 != nil {
							bad("type5:create-error", fmt.Sprintf("%v %v", err, err2), d)
							return
						}
						if !bytes.Equal(st.Request().Marshal(), st2.Request().Marshal()) {
							bad("type5:impure-request", "CreateTokenRequestWithBlinds is not a pure function of its arguments", d)
							return
						}
						c.Class("pure_requests")
						resp, err := iss.Evaluate(st.Request())
						if err != nil {
							bad("type5:evaluate-error", err.Error(), d)
							return
						}
						toks, err := st.FinalizeTokens(resp)
						if err != nil || len(toks) != nb {
							bad("type5:finalize-error", fmt.Sprint(err), d)
							return
						}
						var enc [][]byte
						for j, t := range toks {
							want := ref.TokenBytes(5, nonces[j], chal, kid, RefVOPRF(oprf.SuiteRistretto255, key, ref.TokenBytes(5, nonces[j], chal, kid, nil)))
							if !bytes.Equal(t.Marshal(), want) {
								d["index"] = j
								bad("type5:token-depends-on-blind", "a finalized token differs from the reference evaluation", d)
								return
							}
							enc = append(enc, t.Marshal())
						}
						if first == nil {
							first = enc
						}
						c.Distinctf("t5:%d:%d:%d", ki, mi, bi%8)
					}
					c.Class("blind_independent_token_sets")
					c.Class("type5_cases")
				})
				if pan {
					bad("type5:panic:"+where, "panic: "+pv, d)
				}
			}
		}
	}
	if c.Next() {
		c11Rust(c)
	}
}

func c11Rust(c *core.Ctx) {
	vs, err := LoadRustVectors()
	if err != nil {
		c.Info("rust_vectors_error", err.Error())
		return
	}
	for vi, v := range vs {
		elems, ok := parseBatch(v.TokenRequest)
		d := map[string]any{"vector": vi}
		if !ok || len(elems) != len(v.Issuance) {
			c.Info("rust_vector_reference_parse_failed", vi)
			continue
		}
		// the response entries, cut by the harness's own encoder knowledge: status(1) type(2) data
		var entries [][]byte
		{
			l, n := refVarintDec(v.TokenResponse)
			body := v.TokenResponse[n : n+int(l)]
			for len(body) > 0 {
				if body[0] == 0 {
					entries = append(entries, nil)
					body = body[1:]
					continue
				}
				w := 145
				if body[2] == 2 {
					w = 256
				}
				entries = append(entries, body[3:3+w])
				body = body[3+w:]
			}
		}
		var reqs []tokens.TokenRequestWithDetails
		for ii, is := range v.Issuance {
			c.Eval(1)
			d["issuance"] = ii
			pan, pv, where := core.Guard(func() {
				var reqBytes []byte
				var fin func([]byte) (tokens.Token, error)
				var own []byte
				switch is.Type {
				case 1:
					iss := type1.NewBasicPrivateIssuer(is.Key1)
					if !bytes.Equal(util1PublicKey(is.Key1), is.PkS) {
						c.Violation("rust:pkS", "the type-1 public key derived from skS differs from the vector's pkS", d)
						return
					}
					st, err := type1.NewBasicPrivateClient().CreateTokenRequestWithBlind(is.Challenge, is.Nonce, iss.TokenKeyID(), iss.TokenKey(), is.Blind)
					if err != nil {
						c.Violation("rust:create-error", err.Error(), d)
						return
					}
					reqBytes, fin = st.Request().Marshal(), st.FinalizeToken
					reqs = append(reqs, st.Request())
					st2, _ := type1.NewBasicPrivateClient().CreateTokenRequestWithBlind(is.Challenge, is.Nonce, iss.TokenKeyID(), iss.TokenKey(), is.Blind)
					resp, err := iss.Evaluate(st2.Request())
					if err == nil {
						if t, err := st2.FinalizeToken(resp); err == nil {
							own = t.Marshal()
						}
					}
				case 2:
					iss := type2.NewBasicPublicIssuer(is.Key2)
					st, err := type2.NewBasicPublicClient().CreateTokenRequestWithBlind(is.Challenge, is.Nonce, iss.TokenKeyID(), iss.TokenKey(), is.Blind, is.Salt)
					if err != nil {
						c.Violation("rust:create-error", err.Error(), d)
						return
					}
					reqBytes, fin = st.Request().Marshal(), st.FinalizeToken
					reqs = append(reqs, st.Request())
					st2, _ := type2.NewBasicPublicClient().CreateTokenRequestWithBlind(is.Challenge, is.Nonce, iss.TokenKeyID(), iss.TokenKey(), is.Blind, is.Salt)
					resp, err := iss.Evaluate(st2.Request())
					if err == nil {
						if t, err := st2.FinalizeToken(resp); err == nil {
							own = t.Marshal()
						}
					}
					if !bytes.Equal(ref.SPKIRSAPSS(is.Key2.N, is.Key2.E), is.PkS) {
						c.Info("rust_pkS_differs_from_reference_DER", vi)
					}
				}
				if !bytes.Equal(reqBytes, elems[ii].enc()) {
					d["got"], d["want"] = core.Hex(reqBytes), core.Hex(elems[ii].enc())
					c.Violation("rust:request-bytes-differ", "the request created with the vector's blind differs from the Rust implementation's request", d)
					return
				}
				c.Class("rust_request_bytes_equal")
				if !bytes.Equal(own, is.Token) {
					d["got"], d["want"] = core.Hex(own), core.Hex(is.Token)
					c.Violation("rust:token-differs", "the token issued by pat-go's own issuer differs from the Rust implementation's token", d)
					return
				}
				c.Class("rust_token_equal")
				tok, err := fin(clone(entries[ii]))
				if err != nil || !bytes.Equal(tok.Marshal(), is.Token) {
					c.Violation("rust:response-does-not-finalize", fmt.Sprintf("the Rust issuer's response does not finalize to the vector's token: %v", err), d)
					return
				}
				c.Class("rust_response_finalizes")
				c.Distinctf("rust:%d:%d", vi, ii)
			})
			if pan {
				c.Violation("rust:panic:"+where, "panic: "+pv, d)
			}
		}
		// the whole batch request
		if len(reqs) == len(v.Issuance) {
			br, err := batched.NewBasicClient().CreateTokenRequest(reqs)
			if err != nil || !bytes.Equal(br.Marshal(), v.TokenRequest) {
				c.Violation("rust:batch-request-differs", "the batched request differs from the Rust implementation's token_request", d)
			}
		}
	}
	c.Sample("rust vectors", map[string]any{"vectors": len(vs)})
}

func util1PublicKey(k *oprf.PrivateKey) []byte {
	b, _ := k.Public().MarshalBinary()
	return b
}

var _ = rsa.PublicKey{}
