package props

import (
	"crypto"
	"crypto/aes"
	"crypto/cipher"
	"crypto/elliptic"
	"crypto/hmac"
	"crypto/rsa"
	"crypto/sha256"
	"fmt"

	"github.com/cloudflare/circl/blindsign/blindrsa"

	"github.com/cloudflare/pat-go/tokens/type3"

	"verifharness/internal/core"
	"verifharness/internal/ref"
)

func init() {
	core.Register(&core.Prop{
		ID:    "C07",
		Level: "exploration",
		Rule: "RateLimitedIssuer.Evaluate(bytes) on requests built two ways: by pat-go's client, and entirely by the harness (own encoder, own HPKE sealing with the AAD of the draft, own key-blinded signer over crypto/ecdsa). Honest requests for a registered origin must be served and the response must finalize to a token valid under rsa.VerifyPSS. " +
			"Must be rejected with an error and a nil response: every single-bit flip of an accepted encoding (exhaustive), every truncation, a trailing byte, a missing signature, unregistered origins (near misses of the registered names), requests sealed to another issuer's name key (key id kept and replaced), requests re-signed by an unrelated key, request key replaced and correctly re-signed (only the AAD binding catches it), AAD variants that drop or alter one component, inner requests truncated before encryption (with the empty origin registered). " +
			"distinct_nontrivial = distinct (request, tampering class, position) keys",
		Floors:      []string{"served_pat_go_client", "served_harness_built", "response_finalized_valid", "bitflips_rejected", "truncations_rejected", "unregistered_origin_rejected", "foreign_name_key_rejected", "resigned_rejected", "aad_binding_rejected", "inner_truncated_rejected"},
		Assumptions: []string{"the issuer's HPKE private key is not observable: acceptance is fixed by construction of each case", "an inner request with trailing bytes after the padded origin is only counted (no rule in the statement)"},
		Run:         runC07,
	})
}

// c07Built is a request assembled by the harness, with everything needed to finalize.
type c07Built struct {
	enc      []byte
	signer   *t3Signer
	secret   []byte // HPKE exported response secret
	kemEnc   []byte
	state    blindrsa.VerifierState
	input    []byte
	nonce    []byte
	chal     []byte
	origin   string
	nameKey  *nameKeyInfo
	ct       []byte
	innerEnc []byte
}

type c07World struct {
	c      *core.Ctx
	key    *rsa.PrivateKey
	issuer *type3.RateLimitedIssuer
	nk     *nameKeyInfo
	other  *type3.RateLimitedIssuer
	nkO    *nameKeyInfo
	keyID  []byte
}

func hkdfExtract(salt, ikm []byte) []byte {
	m := hmac.New(sha256.New, salt)
	m.Write(ikm)
	return m.Sum(nil)
}

func hkdfExpand(prk, info []byte, n int) []byte {
	var out, t []byte
	for i := byte(1); len(out) < n; i++ {
		m := hmac.New(sha256.New, prk)
		m.Write(t)
		m.Write(info)
		m.Write([]byte{i})
		t = m.Sum(nil)
		out = append(out, t...)
	}
	return out[:n]
}

// openResponse decrypts nonce(16) || AES-128-GCM ciphertext per the draft.
func (b *c07Built) openResponse(resp []byte) ([]byte, error) {
	if len(resp) < 16 {
		return nil, fmt.Errorf("short response")
	}
	salt := append(clone(b.kemEnc), resp[:16]...)
	prk := hkdfExtract(salt, b.secret)
	key := hkdfExpand(prk, []byte("key"), 16)
	nonce := hkdfExpand(prk, []byte("nonce"), 12)
	blk, err := aes.NewCipher(key)
	if err != nil {
		return nil, err
	}
	g, err := cipher.NewGCM(blk)
	if err != nil {
		return nil, err
	}
	return g.Open(nil, nonce, resp[16:], nil)
}

type c07Opts struct {
	origin       string
	paddedOrigin []byte       // overrides padding of origin
	innerPlain   []byte       // overrides the whole inner plaintext
	sealTo       *nameKeyInfo // name key to seal to (default: the issuer's)
	nameKeyID    []byte       // overrides the name key id in the outer request
	aadMod       func(aad []byte) []byte
	signWith     *t3Signer // signer whose key signs (default: own)
	requestKey   []byte    // overrides the outer request key (and AAD request key unless aadKeepOwn)
}

func (w *c07World) build(r *core.Rand, o c07Opts) *c07Built {
	curve := elliptic.P384()
	b := &c07Built{origin: o.origin, nameKey: w.nk}
	b.signer = newT3Signer(ScalarBytes(r, curve.Params().N, 48), ScalarBytes(r, curve.Params().N, 48))
	b.nonce, b.chal = r.Bytes(32), r.Bytes(r.IntN(40))
	b.input = ref.TokenBytes(3, b.nonce, b.chal, w.keyID, nil)
	blinded, st, err := blindrsa.NewVerifier(&w.key.PublicKey, crypto.SHA384).Blind(r, b.input)
	must(err)
	b.state = st
	padded := refPadOrigin(o.origin)
	if o.paddedOrigin != nil {
		padded = o.paddedOrigin
	}
	inner := t3Inner(w.keyID[0], blinded, padded)
	if o.innerPlain != nil {
		inner = o.innerPlain
	}
	b.innerEnc = inner
	nk := w.nk
	if o.sealTo != nil {
		nk = o.sealTo
	}
	reqKey := b.signer.RequestKeyEnc
	if o.requestKey != nil {
		reqKey = o.requestKey
	}
	// seal with an AAD possibly modified
	aadKey := reqKey
	var ct []byte
	if o.aadMod == nil {
		ct, b.secret, err = nk.seal(r, aadKey, inner)
		must(err)
	} else {
		ct, b.secret, err = sealWithAAD(nk, r, o.aadMod(nk.aad(aadKey, nk.keyID())), inner)
		must(err)
	}
	b.ct = ct
	b.kemEnc = clone(ct[:32])
	nkid := nk.keyID()
	if o.nameKeyID != nil {
		nkid = o.nameKeyID
	}
	signer := b.signer
	if o.signWith != nil {
		signer = o.signWith
	}
	sig := signer.sign(r, t3SignedMessage(reqKey, nkid, ct))
	b.enc = t3Request(reqKey, nkid, ct, sig)
	return b
}

func sealWithAAD(k *nameKeyInfo, r *core.Rand, aad, pt []byte) ([]byte, []byte, error) {
	tmp := *k
	return tmp.sealRaw(r, aad, pt)
}

func (w *c07World) eval(b []byte) (resp, brk []byte, err error, pan bool, pv, where string) {
	pan, pv, where = core.Guard(func() { resp, brk, err = w.issuer.Evaluate(clone(b)) })
	return
}

// mustServe: honest request; response must finalize.
func (w *c07World) mustServe(b *c07Built, class string) bool {
	c := w.c
	c.Eval(1)
	c.Note("Evaluate " + class)
	resp, _, err, pan, pv, where := w.eval(b.enc)
	d := map[string]any{"class": class, "request": core.Hex(b.enc), "origin": b.origin}
	if pan {
		c.Violation("Evaluate:panic:"+where, "Evaluate panicked: "+pv, d)
		return false
	}
	if err != nil {
		c.Violation("Evaluate:rejected-authentic:"+classKey(class), "the issuer rejected an authentic request for a registered origin ("+class+"): "+err.Error(), d)
		return false
	}
	bs, err := b.openResponse(resp)
	if err != nil {
		d["response"] = core.Hex(resp)
		c.Violation("Evaluate:response-not-decryptable:"+classKey(class), "the response does not decrypt under the key derived from the request's HPKE context: "+err.Error(), d)
		return false
	}
	sig, err := b.state.Finalize(bs)
	if err == nil {
		err = ref.VerifyRSAToken(&w.key.PublicKey, b.input, sig)
	}
	if err != nil {
		c.Violation("Evaluate:response-not-a-valid-signature:"+classKey(class), "the decrypted response does not finalize to a valid token: "+err.Error(), d)
		return false
	}
	c.Class("response_finalized_valid")
	return true
}

func (w *c07World) mustReject(enc []byte, class, floor string) {
	c := w.c
	c.Eval(1)
	c.Note("Evaluate " + class)
	resp, brk, err, pan, pv, where := w.eval(enc)
	d := map[string]any{"class": class, "request": core.Hex(enc)}
	if pan {
		d["panic"] = pv
		c.Violation("Evaluate:panic:"+where, "Evaluate panicked: "+pv+" at "+where, d)
		return
	}
	if err == nil {
		d["response"] = core.Hex(resp)
		c.Violation("Evaluate:served-tampered:"+classKey(class), "the issuer returned a token response for a request that must be rejected ("+class+")", d)
		return
	}
	if resp != nil || brk != nil {
		c.Violation("Evaluate:error-with-response:"+classKey(class), "Evaluate returned an error together with response bytes", d)
		return
	}
	if floor != "" {
		c.Class(floor)
	}
}

func runC07(c *core.Ctx) {
	rk := RSAKeys()
	w := &c07World{c: c, key: rk[2]}
	w.issuer = type3.NewRateLimitedIssuer(w.key)
	w.other = type3.NewRateLimitedIssuer(w.key)
	registered := []string{"origin.example", "", "a", string(alnum(c.Rng("o"), 32)), string(alnum(c.Rng("o2"), 33)), string(alnum(c.Rng("o3"), 200))}
	for _, o := range registered {
		w.issuer.AddOrigin(o)
		w.other.AddOrigin(o)
	}
	var err error
	w.nk, err = parseNameKey(w.issuer.NameKey().Marshal())
	must(err)
	w.nkO, err = parseNameKey(w.other.NameKey().Marshal())
	must(err)
	w.keyID = w.issuer.TokenKeyID()

	nHonest := c.Pick(6, 30)
	for hi := 0; hi < nHonest; hi++ {
		hr := c.IdxRng("honest", int64(hi))
		origin := registered[hi%len(registered)]
		base := w.build(hr, c07Opts{origin: origin})
		// served?
		if c.Next() {
			if w.mustServe(base, "harness-built") {
				c.Class("served_harness_built")
			}
			w.mustServe(base, "harness-built-replayed")
			// pat-go client
			r := c.CaseRng()
			curve := elliptic.P384()
			cl := type3.NewRateLimitedClientFromSecret(ScalarBytes(r, curve.Params().N, 48))
			nonce, chal := r.Bytes(32), r.Bytes(20)
			st, err := cl.CreateTokenRequest(chal, nonce, ScalarBytes(r, curve.Params().N, 48), w.keyID, w.issuer.TokenKey(), origin, w.issuer.NameKey())
			must(err)
			c.Eval(1)
			resp, _, err, pan, pv, _ := w.eval(st.Request().Marshal())
			if pan || err != nil {
				c.Violation("Evaluate:rejected-authentic:pat-go-client", fmt.Sprintf("the issuer rejected pat-go's own client request: %v %s", err, pv), map[string]any{"origin": origin})
			} else if tok, err := st.FinalizeToken(resp); err != nil || ref.VerifyRSAToken(&w.key.PublicKey, ref.TokenBytes(3, nonce, chal, w.keyID, nil), tok.Authenticator) != nil {
				c.Violation("Evaluate:response-not-a-valid-signature:pat-go-client", "the response to pat-go's own client does not finalize to a valid token", map[string]any{"origin": origin})
			} else {
				c.Class("served_pat_go_client")
				c.Class("response_finalized_valid")
			}
			c.Distinctf("honest:%d", hi)
			c.Sample("harness-built request", map[string]any{"origin": origin, "request_len": len(base.enc), "request_head": core.Hex(base.enc[:90])})
		}
		// exhaustive bit flips
		nbits := len(base.enc) * 8
		for lo := 0; lo < nbits; lo += 512 {
			if !c.Next() {
				continue
			}
			for bit := lo; bit < lo+512 && bit < nbits; bit++ {
				w.mustReject(flipBit(base.enc, bit), fmt.Sprintf("bitflip#%d", bit), "bitflips_rejected")
			}
			c.Distinctf("bitflip:%d:%d", hi, lo)
		}
		// truncations, trailing, missing signature
		if c.Next() {
			for l := 0; l < len(base.enc); l++ {
				w.mustReject(base.enc[:l], fmt.Sprintf("truncated#%d", l), "truncations_rejected")
			}
			w.mustReject(append(clone(base.enc), 0), "trailing-byte", "")
			w.mustReject(append(clone(base.enc), base.enc...), "doubled", "")
			w.mustReject(base.enc[:len(base.enc)-96], "signature-removed", "truncations_rejected")
			c.Distinctf("truncations:%d", hi)
		}
		// structural forgeries
		if c.Next() {
			r := c.CaseRng()
			// unregistered origins
			near := []string{origin + "a", origin + ".", "x" + origin, "unregistered.example", origin + "\x00a"}
			if len(origin) > 0 {
				near = append(near, origin[:len(origin)-1], origin[:len(origin)-1]+"~", origin[1:])
			}
			for k, o := range near {
				if isRegistered(registered, o) {
					continue
				}
				w.mustReject(w.build(r, c07Opts{origin: o}).enc, fmt.Sprintf("unregistered-origin#%d", k), "unregistered_origin_rejected")
			}
			// sealed to another issuer's name key
			w.mustReject(w.build(r, c07Opts{origin: origin, sealTo: w.nkO}).enc, "foreign-name-key:id-replaced", "foreign_name_key_rejected")
			w.mustReject(w.build(r, c07Opts{origin: origin, sealTo: w.nkO, nameKeyID: w.nk.keyID()}).enc, "foreign-name-key:id-kept", "foreign_name_key_rejected")
			// honest request re-signed by an unrelated key
			unrelated := newT3Signer(ScalarBytes(r, elliptic.P384().Params().N, 48), ScalarBytes(r, elliptic.P384().Params().N, 48))
			w.mustReject(w.build(r, c07Opts{origin: origin, signWith: unrelated}).enc, "resigned-by-unrelated-key", "resigned_rejected")
			// request key replaced by another key and correctly re-signed by it, ciphertext (sealed for the original key) kept
			{
				b := w.build(r, c07Opts{origin: origin})
				p, _ := t3ParseRequest(b.enc)
				sig := unrelated.sign(r, t3SignedMessage(unrelated.RequestKeyEnc, p.NameKeyID, p.Ciphertext))
				w.mustReject(t3Request(unrelated.RequestKeyEnc, p.NameKeyID, p.Ciphertext, sig), "request-key-replaced-and-resigned", "aad_binding_rejected")
			}
			// well-framed, correctly signed requests whose ciphertext is shorter than an HPKE encapsulation
			{
				b := w.build(r, c07Opts{origin: origin})
				for _, l := range []int{1, 2, 16, 31, 32, 33, 47, 48, 49} {
					ct := clone(b.ct[:l])
					sig := b.signer.sign(r, t3SignedMessage(b.signer.RequestKeyEnc, w.nk.keyID(), ct))
					w.mustReject(t3Request(b.signer.RequestKeyEnc, w.nk.keyID(), ct, sig), fmt.Sprintf("short-ciphertext#%d", l), "truncations_rejected")
				}
			}
			// AAD variants: each drops or alters one bound component
			mods := map[string]func([]byte) []byte{
				"aad-without-request-key": func(a []byte) []byte { return append(clone(a[:9]), a[9+49:]...) },
				"aad-without-name-key-id": func(a []byte) []byte { return clone(a[:9+49]) },
				"aad-other-token-type":    func(a []byte) []byte { o := clone(a); o[8] = 2; return o },
				"aad-other-key-id-byte":   func(a []byte) []byte { o := clone(a); o[0] ^= 1; return o },
				"aad-other-suite-id":      func(a []byte) []byte { o := clone(a); o[6] ^= 1; return o },
				"aad-empty":               func(a []byte) []byte { return nil },
				"aad-other-request-key":   func(a []byte) []byte { o := clone(a); copy(o[9:], unrelated.RequestKeyEnc); return o },
				"aad-name-key-id-flipped": func(a []byte) []byte { o := clone(a); o[len(o)-1] ^= 1; return o },
			}
			for name, f := range mods {
				w.mustReject(w.build(r, c07Opts{origin: origin, aadMod: f}).enc, name, "aad_binding_rejected")
			}
			// inner request truncated before encryption (the empty origin is registered)
			full := w.build(r, c07Opts{origin: origin}).innerEnc
			for _, l := range []int{0, 1, 100, 256, 257, 258, len(full) - 1} {
				if l < len(full) {
					w.mustReject(w.build(r, c07Opts{origin: origin, innerPlain: full[:l]}).enc, fmt.Sprintf("inner-truncated#%d", l), "inner_truncated_rejected")
				}
			}
			// origin length prefix larger than what follows
			{
				bad := clone(full)
				bad[257], bad[258] = 0xff, 0xff
				w.mustReject(w.build(r, c07Opts{origin: origin, innerPlain: bad}).enc, "inner-origin-length-overrun", "inner_truncated_rejected")
			}
			// inner request with trailing bytes: counted only
			{
				c.Eval(1)
				_, _, err, pan, _, _ := w.eval(w.build(r, c07Opts{origin: origin, innerPlain: append(clone(full), 1, 2, 3)}).enc)
				if pan {
					c.Violation("Evaluate:panic:inner-trailing", "Evaluate panicked on an inner request with trailing bytes", nil)
				} else if err == nil {
					c.Class("info_inner_trailing_bytes_served")
				} else {
					c.Class("info_inner_trailing_bytes_rejected")
				}
			}
			// padded origin with extra zero blocks unpads to the registered name: served by the statement's own rule, only counted
			{
				c.Eval(1)
				_, _, err, _, _, _ := w.eval(w.build(r, c07Opts{origin: origin, paddedOrigin: append(refPadOrigin(origin), make([]byte, 32)...)}).enc)
				if err == nil {
					c.Class("info_extra_padding_block_served")
				} else {
					c.Class("info_extra_padding_block_rejected")
				}
			}
			// positive control after all the forgeries
			w.mustServe(w.build(r, c07Opts{origin: origin}), "harness-built-control")
			c.Distinctf("forgeries:%d", hi)
		}
	}
	c.Exhaustive("single-bit flips and truncations of every honest harness-built request")
}

func isRegistered(reg []string, o string) bool {
	// names are compared after stripping trailing zero bytes, as the issuer does
	for len(o) > 0 && o[len(o)-1] == 0 {
		o = o[:len(o)-1]
	}
	for _, x := range reg {
		if x == o {
			return true
		}
	}
	return false
}
