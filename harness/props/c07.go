package props

import (
	"bytes"
	"crypto"
	"crypto/aes"
	"crypto/cipher"
	"crypto/elliptic"
	"crypto/hmac"
	crand "crypto/rand"
	"crypto/rsa"
	"crypto/sha256"
	"fmt"
	"io"
	"math/big"

	hpke "github.com/cisco/go-hpke"
	"github.com/cloudflare/circl/blindsign/blindrsa"

	"github.com/cloudflare/pat-go/tokens/type3"

	"verifharness/internal/core"
	"verifharness/internal/ref"
)

func init() {
	core.Register(&core.Prop{
		ID:    "C07",
		Level: "exploration",
		Rule: "RateLimitedIssuer.Evaluate(bytes) on requests built two ways: by pat-go's client, and entirely by the harness (own encoder, own HPKE sealing with the AAD of the draft, own key-blinded signer over crypto/ecdsa). Honest requests for a registered origin must be served and the response must finalize to a token valid under rsa.VerifyPSS. " +
			"Must be rejected with an error and a nil response: every single-bit flip of an accepted encoding (exhaustive), every truncation, a trailing byte, a missing signature, unregistered origins (near misses of the registered names), requests sealed to another issuer's name key (key id kept and replaced), requests re-signed by an unrelated key, request key replaced and correctly re-signed (only the AAD binding catches it), AAD variants that drop or alter one component, inner requests truncated before encryption (with the empty origin registered). " +
			"Differential part: on an issuer whose name key is derived from a seed known to the harness (verif-tagged hook) the harness decides every generated input itself (own parser, own HPKE open through go-hpke, own unpadding, origin lookup, crypto/ecdsa) - multi-bit and byte mutations, field splices between honest requests with and without re-signing, replaced-and-re-signed name key ids, (r, N-s), padded-origin and inner-request variants, foreign name keys, altered AADs - and Evaluate must agree. distinct_nontrivial = distinct (request, tampering class, position) and (class, reference reason) keys",
		Floors:      []string{"names_compared_byte_for_byte", "names_registered_with_trailing_zeros_do_not_register_the_short_name", "unregistered_hostile_text_names_rejected", "unregistered_origin_rejected_after_lookup", "all_one_and_two_byte_tails_rejected", "honest_signatures_ending_in_text_framing_served", "served_pat_go_client", "served_harness_built", "response_finalized_valid", "bitflips_rejected", "truncations_rejected", "unregistered_origin_rejected", "foreign_name_key_rejected", "resigned_rejected", "aad_binding_rejected", "inner_truncated_rejected", "failed_registration_origin_rejected", "served_after_many_late_refusals", "long_origin_requests_served", "client_requests_accepted_by_reference", "differential_agree_accept", "differential_agree_reject", "differential_reject_signature", "differential_reject_hpke-open", "differential_reject_unregistered-origin", "differential_reject_outer-parse"},
		Assumptions: []string{"enumerated part: acceptance is fixed by construction of each case; differential part: the issuer's name key comes from a known seed through the verif hook", "an inner request with trailing bytes after the padded origin is only counted (no rule in the statement)"},
		Run:         runC07,
	})
}

// c07Built is a request assembled by the harness, with everything needed to finalize.
type c07Built struct {
	enc      []byte
	signer   *t3Signer
	secret   []byte // HPKE exported response secret
	kemEnc   []byte
	state    blindrsa.VerifierState
	input    []byte
	nonce    []byte
	chal     []byte
	origin   string
	nameKey  *nameKeyInfo
	ct       []byte
	innerEnc []byte
}

type c07World struct {
	rx     []byte
	c      *core.Ctx
	key    *rsa.PrivateKey
	issuer *type3.RateLimitedIssuer
	nk     *nameKeyInfo
	other  *type3.RateLimitedIssuer
	nkO    *nameKeyInfo
	keyID  []byte
}

func hkdfExtract(salt, ikm []byte) []byte {
	m := hmac.New(sha256.New, salt)
	m.Write(ikm)
	return m.Sum(nil)
}

func hkdfExpand(prk, info []byte, n int) []byte {
	var out, t []byte
	for i := byte(1); len(out) < n; i++ {
		m := hmac.New(sha256.New, prk)
		m.Write(t)
		m.Write(info)
		m.Write([]byte{i})
		t = m.Sum(nil)
		out = append(out, t...)
	}
	return out[:n]
}

// openResponse decrypts nonce(16) || AES-128-GCM ciphertext per the draft.
func (b *c07Built) openResponse(resp []byte) ([]byte, error) {
	if len(resp) < 16 {
		return nil, fmt.Errorf("short response")
	}
	salt := append(clone(b.kemEnc), resp[:16]...)
	prk := hkdfExtract(salt, b.secret)
	key := hkdfExpand(prk, []byte("key"), 16)
	nonce := hkdfExpand(prk, []byte("nonce"), 12)
	blk, err := aes.NewCipher(key)
	if err != nil {
		return nil, err
	}
	g, err := cipher.NewGCM(blk)
	if err != nil {
		return nil, err
	}
	return g.Open(nil, nonce, resp[16:], nil)
}

type c07Opts struct {
	origin       string
	paddedOrigin []byte       // overrides padding of origin
	innerPlain   []byte       // overrides the whole inner plaintext
	sealTo       *nameKeyInfo // name key to seal to (default: the issuer's)
	nameKeyID    []byte       // overrides the name key id in the outer request
	aadMod       func(aad []byte) []byte
	signWith     *t3Signer // signer whose key signs (default: own)
	requestKey   []byte    // overrides the outer request key (and AAD request key unless aadKeepOwn)
}

func (w *c07World) build(r *core.Rand, o c07Opts) *c07Built {
	curve := elliptic.P384()
	b := &c07Built{origin: o.origin, nameKey: w.nk}
	b.signer = newT3Signer(ScalarBytes(r, curve.Params().N, 48), ScalarBytes(r, curve.Params().N, 48))
	b.nonce, b.chal = r.Bytes(32), r.Bytes(r.IntN(40))
	b.input = ref.TokenBytes(3, b.nonce, b.chal, w.keyID, nil)
	blinded, st, err := blindrsa.NewVerifier(&w.key.PublicKey, crypto.SHA384).Blind(r, b.input)
	must(err)
	b.state = st
	padded := refPadOrigin(o.origin)
	if o.paddedOrigin != nil {
		padded = o.paddedOrigin
	}
	inner := t3Inner(w.keyID[0], blinded, padded)
	if o.innerPlain != nil {
		inner = o.innerPlain
	}
	b.innerEnc = inner
	nk := w.nk
	if o.sealTo != nil {
		nk = o.sealTo
	}
	reqKey := b.signer.RequestKeyEnc
	if o.requestKey != nil {
		reqKey = o.requestKey
	}
	// seal with an AAD possibly modified
	aadKey := reqKey
	var ct []byte
	if o.aadMod == nil {
		ct, b.secret, err = nk.seal(r, aadKey, inner)
		must(err)
	} else {
		ct, b.secret, err = sealWithAAD(nk, r, o.aadMod(nk.aad(aadKey, nk.keyID())), inner)
		must(err)
	}
	b.ct = ct
	b.kemEnc = clone(ct[:32])
	nkid := nk.keyID()
	if o.nameKeyID != nil {
		nkid = o.nameKeyID
	}
	signer := b.signer
	if o.signWith != nil {
		signer = o.signWith
	}
	sig := signer.sign(r, t3SignedMessage(reqKey, nkid, ct))
	b.enc = t3Request(reqKey, nkid, ct, sig)
	return b
}

func sealWithAAD(k *nameKeyInfo, r *core.Rand, aad, pt []byte) ([]byte, []byte, error) {
	tmp := *k
	return tmp.sealRaw(r, aad, pt)
}

func (w *c07World) eval(b []byte) (resp, brk []byte, err error, pan bool, pv, where string) {
	// one receive buffer per issuer, refilled in place for every request (a server reading into the same buffer); the
	// buffer is scribbled over after the call, so nothing the issuer keeps by reference survives
	w.rx = append(w.rx[:0], b...)
	rx := w.rx[:len(b):len(b)]
	pan, pv, where = core.Guard(func() { resp, brk, err = w.issuer.Evaluate(rx) })
	for i := range rx {
		rx[i] ^= 0xff
	}
	return
}

// mustServe: honest request; response must finalize.
func (w *c07World) mustServe(b *c07Built, class string) bool {
	c := w.c
	c.Eval(1)
	c.Note("Evaluate " + class)
	resp, _, err, pan, pv, where := w.eval(b.enc)
	d := map[string]any{"class": class, "request": core.Hex(b.enc), "origin": b.origin}
	if pan {
		c.Violation("Evaluate:panic:"+where, "Evaluate panicked: "+pv, d)
		return false
	}
	if err != nil {
		c.Violation("Evaluate:rejected-authentic:"+classKey(class), "the issuer rejected an authentic request for a registered origin ("+class+"): "+err.Error(), d)
		return false
	}
	bs, err := b.openResponse(resp)
	if err != nil {
		d["response"] = core.Hex(resp)
		c.Violation("Evaluate:response-not-decryptable:"+classKey(class), "the response does not decrypt under the key derived from the request's HPKE context: "+err.Error(), d)
		return false
	}
	sig, err := b.state.Finalize(bs)
	if err == nil {
		err = ref.VerifyRSAToken(&w.key.PublicKey, b.input, sig)
	}
	if err != nil {
		c.Violation("Evaluate:response-not-a-valid-signature:"+classKey(class), "the decrypted response does not finalize to a valid token: "+err.Error(), d)
		return false
	}
	c.Class("response_finalized_valid")
	return true
}

func (w *c07World) mustReject(enc []byte, class, floor string) {
	c := w.c
	c.Eval(1)
	c.Note("Evaluate " + class)
	resp, brk, err, pan, pv, where := w.eval(enc)
	d := map[string]any{"class": class, "request": core.Hex(enc)}
	if pan {
		d["panic"] = pv
		c.Violation("Evaluate:panic:"+where, "Evaluate panicked: "+pv+" at "+where, d)
		return
	}
	if err == nil {
		d["response"] = core.Hex(resp)
		c.Violation("Evaluate:served-tampered:"+classKey(class), "the issuer returned a token response for a request that must be rejected ("+class+")", d)
		return
	}
	if resp != nil || brk != nil {
		c.Violation("Evaluate:error-with-response:"+classKey(class), "Evaluate returned an error together with response bytes", d)
		return
	}
	if floor != "" {
		c.Class(floor)
	}
}

func runC07(c *core.Ctx) {
	rk := RSAKeys()
	w := &c07World{c: c, key: rk[2]}
	w.issuer = type3.NewRateLimitedIssuer(w.key)
	w.other = type3.NewRateLimitedIssuer(w.key)
	registered := []string{"origin.example", "", "a", string(alnum(c.Rng("o"), 32)), string(alnum(c.Rng("o2"), 33)), string(alnum(c.Rng("o3"), 200))}
	for _, o := range registered {
		w.issuer.AddOrigin(o)
		w.other.AddOrigin(o)
	}
	var err error
	w.nk, err = parseNameKey(w.issuer.NameKey().Marshal())
	must(err)
	w.nkO, err = parseNameKey(w.other.NameKey().Marshal())
	must(err)
	w.keyID = w.issuer.TokenKeyID()

	// a registration that failed: AddOrigin returned an error (the entropy source failed while the index key was
	// generated), so the origin is NOT registered; a request for it is refused like any unregistered origin, and
	// the origins registered before and after stay served
	for fi, okBytes := range []int{0, 1, 16, 47, 48} {
		if !c.Next() {
			continue
		}
		r := c.CaseRng()
		iss := type3.NewRateLimitedIssuer(w.key)
		iss.AddOrigin("before.example")
		failed := fmt.Sprintf("failed-registration-%d.example", fi)
		var aerr error
		pan, pv, where := core.Guard(func() { withFailingEntropy(okBytes, func() { aerr = iss.AddOrigin(failed) }) })
		iss.AddOrigin("after.example")
		if pan {
			c.Violation("AddOrigin:panic:"+where, "AddOrigin panicked when the entropy source failed: "+pv, map[string]any{"entropy_bytes_before_failure": okBytes})
			continue
		}
		if aerr == nil {
			c.Class("entropy_fault_registration_still_succeeded")
			continue
		}
		nkF, err := parseNameKey(iss.NameKey().Marshal())
		must(err)
		wf := &c07World{c: c, key: w.key, issuer: iss, other: w.other, nk: nkF, nkO: w.nkO, keyID: iss.TokenKeyID()}
		wf.mustReject(wf.build(r, c07Opts{origin: failed}).enc, "origin-whose-registration-failed", "failed_registration_origin_rejected")
		wf.mustServe(wf.build(r, c07Opts{origin: "before.example"}), "registered-before-a-failed-registration")
		wf.mustServe(wf.build(r, c07Opts{origin: "after.example"}), "registered-after-a-failed-registration")
		c.Distinctf("failed-registration:%d", okBytes)
	}

	// an issuer that registered names ENDING in zero bytes ("X\x00", "X\x00\x00", "\x00"): requests for X and for the empty
	// name name origins that were never registered and are refused; and names that are hostile text (printf directives,
	// invalid UTF-8, control characters), unregistered, are refused like any other - without a panic, quickly
	if c.Next() {
		r := c.CaseRng()
		iss := type3.NewRateLimitedIssuer(w.key)
		for _, o := range []string{"origin.example\x00", "origin.example\x00\x00", "\x00", "other.example\x00\x00\x00", "registered.example", "shop\xff.example", "Caf\u00e9.example", "\xe2\x82.example"} {
			iss.AddOrigin(o)
		}
		nkZ, err := parseNameKey(iss.NameKey().Marshal())
		must(err)
		wz := &c07World{c: c, key: w.key, issuer: iss, other: w.other, nk: nkZ, nkO: w.nkO, keyID: iss.TokenKeyID()}
		for _, o := range []string{"origin.example", "", "other.example", "other.example\x00a"} {
			wz.mustReject(wz.build(r, c07Opts{origin: o}).enc, "name-registered-only-with-trailing-zero-bytes", "names_registered_with_trailing_zeros_do_not_register_the_short_name")
		}
		wz.mustServe(wz.build(r, c07Opts{origin: "registered.example"}), "registered-next-to-names-with-trailing-zero-bytes")
		// names that differ from a registered one only in bytes that are not UTF-8, in case, or in Unicode normalisation
		for _, o := range []string{"shop\xfe.example", "shop\xff\xff.example", "shop\ufffd.example", "shop.example", "cafe\u0301.example", "caf\u00e9.example", "CAF\u00c9.EXAMPLE", "\xe2\x82\xac.example", "\xe2.example", "\ufffd.example", "REGISTERED.EXAMPLE", "registered.example."} {
			wz.mustReject(wz.build(r, c07Opts{origin: o}).enc, "name-differing-in-non-utf8-bytes-case-or-normalisation", "names_compared_byte_for_byte")
		}
		for _, o := range []string{"shop\xff.example", "Caf\u00e9.example", "\xe2\x82.example"} {
			wz.mustServe(wz.build(r, c07Opts{origin: o}), "registered-name-that-is-not-ascii")
		}
		for _, o := range HostileNames() {
			wz.mustReject(wz.build(r, c07Opts{origin: o}).enc, "unregistered-hostile-text-name", "unregistered_hostile_text_names_rejected")
		}
		wz.mustServe(wz.build(r, c07Opts{origin: "registered.example"}), "registered-after-hostile-text-names")
	}

	// several hundred authentic-looking requests that are refused late (the blinded message is not below the modulus,
	// so everything up to the signing step succeeds), one after the other on one issuer; then an honest one is served
	if c.Next() {
		r := c.CaseRng()
		iss := type3.NewRateLimitedIssuer(w.key)
		iss.AddOrigin("origin.example")
		nkX, err := parseNameKey(iss.NameKey().Marshal())
		must(err)
		wx := &c07World{c: c, key: w.key, issuer: iss, other: w.other, nk: nkX, nkO: w.nkO, keyID: iss.TokenKeyID()}
		base := wx.build(r, c07Opts{origin: "origin.example"})
		big1 := clone(base.innerEnc)
		for j := 1; j <= 256; j++ {
			big1[j] = 0xff
		}
		for k := 0; k < 300; k++ {
			wx.mustReject(wx.build(r, c07Opts{origin: "origin.example", innerPlain: big1}).enc, "late-refusal-in-a-row", "")
		}
		if wx.mustServe(wx.build(r, c07Opts{origin: "origin.example"}), "served-after-300-late-refusals") {
			c.Class("served_after_many_late_refusals")
		}
	}

	// requests for long registered origin names (the encrypted part grows to the 16-bit limit): served when authentic,
	// refused when one bit near the end of the encrypted part is changed
	for li, olen := range []int{255, 256, 257, 300, 609, 700, 1000, 5000, 40000, 65121, 65200, 65216} {
		if !c.Next() {
			continue
		}
		r := c.CaseRng()
		name := string(alnum(r, olen))
		iss := type3.NewRateLimitedIssuer(w.key)
		iss.AddOrigin(name)
		nkL, err := parseNameKey(iss.NameKey().Marshal())
		must(err)
		wl := &c07World{c: c, key: w.key, issuer: iss, other: w.other, nk: nkL, nkO: w.nkO, keyID: iss.TokenKeyID()}
		b := wl.build(r, c07Opts{origin: name})
		if wl.mustServe(b, fmt.Sprintf("long-origin#%d", olen)) {
			c.Class("long_origin_requests_served")
		}
		for _, back := range []int{97, 98, 200, 1000, len(b.enc) / 2} {
			if back < len(b.enc)-90 {
				wl.mustReject(flipBit(b.enc, 8*(len(b.enc)-back)), fmt.Sprintf("long-origin-bitflip#%d", olen), "")
			}
		}
		c.Distinctf("long-origin:%d", li)
	}

	nHonest := c.Pick(6, 60)
	for hi := 0; hi < nHonest; hi++ {
		hr := c.IdxRng("honest", int64(hi))
		origin := registered[hi%len(registered)]
		base := w.build(hr, c07Opts{origin: origin})
		// served?
		if c.Next() {
			if w.mustServe(base, "harness-built") {
				c.Class("served_harness_built")
			}
			w.mustServe(base, "harness-built-replayed")
			// pat-go client
			r := c.CaseRng()
			curve := elliptic.P384()
			cl := type3.NewRateLimitedClientFromSecret(ScalarBytes(r, curve.Params().N, 48))
			nonce, chal := r.Bytes(32), r.Bytes(20)
			st, err := cl.CreateTokenRequest(chal, nonce, ScalarBytes(r, curve.Params().N, 48), w.keyID, w.issuer.TokenKey(), origin, w.issuer.NameKey())
			must(err)
			c.Eval(1)
			resp, _, err, pan, pv, _ := w.eval(st.Request().Marshal())
			if pan || err != nil {
				c.Violation("Evaluate:rejected-authentic:pat-go-client", fmt.Sprintf("the issuer rejected pat-go's own client request: %v %s", err, pv), map[string]any{"origin": origin})
			} else if tok, err := st.FinalizeToken(resp); err != nil || ref.VerifyRSAToken(&w.key.PublicKey, ref.TokenBytes(3, nonce, chal, w.keyID, nil), tok.Authenticator) != nil {
				c.Violation("Evaluate:response-not-a-valid-signature:pat-go-client", "the response to pat-go's own client does not finalize to a valid token", map[string]any{"origin": origin})
			} else {
				c.Class("served_pat_go_client")
				c.Class("response_finalized_valid")
			}
			c.Distinctf("honest:%d", hi)
			c.Sample("harness-built request", map[string]any{"origin": origin, "request_len": len(base.enc), "request_head": core.Hex(base.enc[:90])})
		}
		// exhaustive bit flips
		nbits := len(base.enc) * 8
		for lo := 0; lo < nbits; lo += 512 {
			if !c.Next() {
				continue
			}
			for bit := lo; bit < lo+512 && bit < nbits; bit++ {
				w.mustReject(flipBit(base.enc, bit), fmt.Sprintf("bitflip#%d", bit), "bitflips_rejected")
			}
			c.Distinctf("bitflip:%d:%d", hi, lo)
		}
		// truncations, trailing, missing signature
		if c.Next() {
			for l := 0; l < len(base.enc); l++ {
				w.mustReject(base.enc[:l], fmt.Sprintf("truncated#%d", l), "truncations_rejected")
			}
			w.mustReject(append(clone(base.enc), 0), "trailing-byte", "")
			w.mustReject(append(clone(base.enc), make([]byte, 65536)...), "trailing-65536-bytes", "")
			w.mustReject(append(clone(base.enc), make([]byte, 131072)...), "trailing-131072-bytes", "")
			w.mustReject(append(clone(base.enc), make([]byte, 65535)...), "trailing-65535-bytes", "")
			w.mustReject(append(clone(base.enc), base.enc...), "doubled", "")
			if hi < 2 {
				// every one-byte tail and every two-byte tail (line ends, blanks, NULs and the other 65k)
				for t := 0; t < 256; t++ {
					w.mustReject(append(clone(base.enc), byte(t)), fmt.Sprintf("trailing-byte-%02x", t), "")
				}
				for t := 0; t < 65536; t++ {
					w.mustReject(append(clone(base.enc), byte(t>>8), byte(t)), "trailing-two-bytes", "")
				}
				c.Class("all_one_and_two_byte_tails_rejected")
			}
			w.mustReject(base.enc[:len(base.enc)-96], "signature-removed", "truncations_rejected")
			c.Distinctf("truncations:%d", hi)
		}
		// the same honest request signed so that its LAST bytes look like text framing (a line end, a blank, NULs):
		// they are signature bytes, and the request is served
		if hi < 3 && c.Next() {
			msg := base.enc[:len(base.enc)-96]
			for ti, tail := range [][]byte{[]byte("\r\n"), []byte("\n"), {0}, []byte(" "), {0, 0}, []byte("=")} {
				if len(tail) == 2 && !c.Thorough() && ti/4 != hi%2 {
					continue // two-byte tails cost 2^15 nonces each: one per honest request in the quick tier
				}
				sig := ecdsaSignWithTail(elliptic.P384(), base.signer.signD, sha512Sum384(msg), tail, new(big.Int).SetBytes(c.CaseRng().Bytes(40)), 1<<21)
				if sig == nil {
					c.Class("info_no_nonce_found_for_signature_tail")
					continue
				}
				b2 := *base
				b2.enc = append(clone(msg), sig...)
				if w.mustServe(&b2, fmt.Sprintf("honest-signature-ending-%x", tail)) {
					c.Class("honest_signatures_ending_in_text_framing_served")
					c.Distinctf("sigtail:%d:%x", hi, tail)
				}
			}
		}
		// structural forgeries
		if c.Next() {
			r := c.CaseRng()
			// unregistered origins
			near := []string{origin + "a", origin + ".", "x" + origin, "unregistered.example", origin + "\x00a"}
			if len(origin) > 0 {
				near = append(near, origin[:len(origin)-1], origin[:len(origin)-1]+"~", origin[1:])
			}
			for k, o := range near {
				if isRegistered(registered, o) {
					continue
				}
				w.mustReject(w.build(r, c07Opts{origin: o}).enc, fmt.Sprintf("unregistered-origin#%d", k), "unregistered_origin_rejected")
				// asking the issuer about a name (the read-only accessors) registers nothing: no key comes back, and a
				// request naming it is refused afterwards as before
				var got any
				pan, pv, _ := core.Guard(func() {
					if kk := w.issuer.OriginIndexKey(o); kk != nil {
						got = kk
					}
				})
				if pan {
					c.Violation("OriginIndexKey:panic", "OriginIndexKey panicked for an unregistered name: "+pv, map[string]any{"origin": o})
				} else if got != nil {
					c.Violation("OriginIndexKey:key-for-unregistered-origin", "OriginIndexKey returned a key for a name that was never registered", map[string]any{"origin": o})
				}
				w.mustReject(w.build(r, c07Opts{origin: o}).enc, fmt.Sprintf("unregistered-origin-after-lookup#%d", k), "unregistered_origin_rejected_after_lookup")
			}
			// sealed to another issuer's name key
			w.mustReject(w.build(r, c07Opts{origin: origin, sealTo: w.nkO}).enc, "foreign-name-key:id-replaced", "foreign_name_key_rejected")
			w.mustReject(w.build(r, c07Opts{origin: origin, sealTo: w.nkO, nameKeyID: w.nk.keyID()}).enc, "foreign-name-key:id-kept", "foreign_name_key_rejected")
			// honest request re-signed by an unrelated key
			unrelated := newT3Signer(ScalarBytes(r, elliptic.P384().Params().N, 48), ScalarBytes(r, elliptic.P384().Params().N, 48))
			w.mustReject(w.build(r, c07Opts{origin: origin, signWith: unrelated}).enc, "resigned-by-unrelated-key", "resigned_rejected")
			// request key replaced by another key and correctly re-signed by it, ciphertext (sealed for the original key) kept
			{
				b := w.build(r, c07Opts{origin: origin})
				p, _ := t3ParseRequest(b.enc)
				sig := unrelated.sign(r, t3SignedMessage(unrelated.RequestKeyEnc, p.NameKeyID, p.Ciphertext))
				w.mustReject(t3Request(unrelated.RequestKeyEnc, p.NameKeyID, p.Ciphertext, sig), "request-key-replaced-and-resigned", "aad_binding_rejected")
			}
			// well-framed, correctly signed requests whose ciphertext is shorter than an HPKE encapsulation
			{
				b := w.build(r, c07Opts{origin: origin})
				for _, l := range []int{1, 2, 16, 31, 32, 33, 47, 48, 49} {
					ct := clone(b.ct[:l])
					sig := b.signer.sign(r, t3SignedMessage(b.signer.RequestKeyEnc, w.nk.keyID(), ct))
					w.mustReject(t3Request(b.signer.RequestKeyEnc, w.nk.keyID(), ct, sig), fmt.Sprintf("short-ciphertext#%d", l), "truncations_rejected")
				}
			}
			// AAD variants: each drops or alters one bound component
			mods := map[string]func([]byte) []byte{
				"aad-without-request-key": func(a []byte) []byte { return append(clone(a[:9]), a[9+49:]...) },
				"aad-without-name-key-id": func(a []byte) []byte { return clone(a[:9+49]) },
				"aad-other-token-type":    func(a []byte) []byte { o := clone(a); o[8] = 2; return o },
				"aad-other-key-id-byte":   func(a []byte) []byte { o := clone(a); o[0] ^= 1; return o },
				"aad-other-suite-id":      func(a []byte) []byte { o := clone(a); o[6] ^= 1; return o },
				"aad-empty":               func(a []byte) []byte { return nil },
				"aad-other-request-key":   func(a []byte) []byte { o := clone(a); copy(o[9:], unrelated.RequestKeyEnc); return o },
				"aad-name-key-id-flipped": func(a []byte) []byte { o := clone(a); o[len(o)-1] ^= 1; return o },
			}
			for name, f := range mods {
				w.mustReject(w.build(r, c07Opts{origin: origin, aadMod: f}).enc, name, "aad_binding_rejected")
			}
			// inner request truncated before encryption (the empty origin is registered)
			full := w.build(r, c07Opts{origin: origin}).innerEnc
			for _, l := range []int{0, 1, 100, 256, 257, 258, len(full) - 1} {
				if l < len(full) {
					w.mustReject(w.build(r, c07Opts{origin: origin, innerPlain: full[:l]}).enc, fmt.Sprintf("inner-truncated#%d", l), "inner_truncated_rejected")
				}
			}
			// origin length prefix larger than what follows
			{
				bad := clone(full)
				bad[257], bad[258] = 0xff, 0xff
				w.mustReject(w.build(r, c07Opts{origin: origin, innerPlain: bad}).enc, "inner-origin-length-overrun", "inner_truncated_rejected")
			}
			// inner request with trailing bytes: counted only
			{
				c.Eval(1)
				_, _, err, pan, _, _ := w.eval(w.build(r, c07Opts{origin: origin, innerPlain: append(clone(full), 1, 2, 3)}).enc)
				if pan {
					c.Violation("Evaluate:panic:inner-trailing", "Evaluate panicked on an inner request with trailing bytes", nil)
				} else if err == nil {
					c.Class("info_inner_trailing_bytes_served")
				} else {
					c.Class("info_inner_trailing_bytes_rejected")
				}
			}
			// padded origin with extra zero blocks unpads to the registered name: served by the statement's own rule, only counted
			{
				c.Eval(1)
				_, _, err, _, _, _ := w.eval(w.build(r, c07Opts{origin: origin, paddedOrigin: append(refPadOrigin(origin), make([]byte, 32)...)}).enc)
				if err == nil {
					c.Class("info_extra_padding_block_served")
				} else {
					c.Class("info_extra_padding_block_rejected")
				}
			}
			// positive control after all the forgeries
			w.mustServe(w.build(r, c07Opts{origin: origin}), "harness-built-control")
			c.Distinctf("forgeries:%d", hi)
		}
	}
	c.Exhaustive("single-bit flips and truncations of every honest harness-built request")
	c07Differential(c)
}

func isRegistered(reg []string, o string) bool {
	// names are compared after stripping trailing zero bytes, as the issuer does
	for len(o) > 0 && o[len(o)-1] == 0 {
		o = o[:len(o)-1]
	}
	for _, x := range reg {
		if x == o {
			return true
		}
	}
	return false
}

// ---------------------------------------------------------------- differential part
//
// With the verif-tagged hook the issuer's HPKE name key is derived from a seed
// the harness knows, so the harness can decide *itself*, for an arbitrary byte
// string, whether the statement allows a response: own fixed-offset parser,
// own HPKE open (go-hpke called directly with the AAD of the draft), own
// unpadding, registered-origin lookup, crypto/ecdsa verification. pat-go's
// Evaluate must agree on every generated input, not only on the enumerated
// tamperings above.

type c07Ref struct {
	suite      hpke.CipherSuite
	sk         hpke.KEMPrivateKey
	nk         *nameKeyInfo
	registered map[string]bool
	modulus    *big.Int
}

// decide returns (accept, reason, judged). judged=false marks inputs on which the statement is silent
// (inner request with trailing bytes, blinded message equal to the modulus).
func (f *c07Ref) decide(b []byte) (bool, string, bool) {
	p, ok := t3ParseRequest(b)
	if !ok {
		return false, "outer-parse", true
	}
	if len(p.Ciphertext) < 32 {
		return false, "short-ciphertext", true
	}
	ctx, err := hpke.SetupBaseR(f.suite, f.sk, p.Ciphertext[:32], []byte("TokenRequest"))
	if err != nil {
		return false, "hpke-setup", true
	}
	pt, err := ctx.Open(f.nk.aad(p.RequestKey, f.nk.keyID()), p.Ciphertext[32:])
	if err != nil {
		return false, "hpke-open", true
	}
	if len(pt) < 259 {
		return false, "inner-parse", true
	}
	ol := int(pt[257])<<8 | int(pt[258])
	if len(pt) < 259+ol {
		return false, "inner-parse", true
	}
	judged := len(pt) == 259+ol
	origin := stripZeros(string(pt[259 : 259+ol]))
	if !f.registered[origin] {
		return false, "unregistered-origin", true
	}
	curve := elliptic.P384()
	qx, qy, ok := ref.ECDecompress(curve, p.RequestKey)
	if !ok {
		return false, "request-key", true
	}
	r := new(big.Int).SetBytes(p.Signature[:48])
	s := new(big.Int).SetBytes(p.Signature[48:])
	if !stdECDSAVerify(curve, qx, qy, sha512Sum384(t3SignedMessage(p.RequestKey, p.NameKeyID, p.Ciphertext)), r, s) {
		return false, "signature", true
	}
	m := new(big.Int).SetBytes(pt[1:257])
	switch m.Cmp(f.modulus) {
	case 1:
		return false, "blinded-message-out-of-range", true
	case 0:
		judged = false
	}
	return true, "accept", judged
}

func c07Differential(c *core.Ctx) {
	rk := RSAKeys()
	key := rk[5%len(rk)]
	seed := c.Rng("namekey").Bytes(32)
	base := type3.NewRateLimitedIssuer(key)
	issuer, err := type3.VerifNewRateLimitedIssuerWithNameKey(base, seed)
	must(err)
	registered := []string{"origin.example", "", "b.example", string(alnum(c.Rng("ro"), 64))}
	f := &c07Ref{registered: map[string]bool{}, modulus: key.N}
	for _, o := range registered {
		issuer.AddOrigin(o)
		f.registered[o] = true
	}
	f.suite, err = hpke.AssembleCipherSuite(hpke.DHKEM_X25519, hpke.KDF_HKDF_SHA256, hpke.AEAD_AESGCM128)
	must(err)
	f.sk, _, err = f.suite.KEM.DeriveKeyPair(seed)
	must(err)
	f.nk, err = parseNameKey(issuer.NameKey().Marshal())
	must(err)
	w := &c07World{c: c, key: key, issuer: issuer, nk: f.nk, keyID: issuer.TokenKeyID()}
	other := type3.NewRateLimitedIssuer(key)
	w.nkO, err = parseNameKey(other.NameKey().Marshal())
	must(err)

	judge := func(b []byte, class string) {
		c.Eval(1)
		c.Note("Evaluate differential " + class)
		want, why, judged := f.decide(b)
		resp, _, err, pan, pv, where := w.eval(b)
		d := map[string]any{"class": class, "request": core.Hex(b), "reference": why}
		if pan {
			d["panic"] = pv
			c.Violation("Evaluate:panic:"+where, "Evaluate panicked: "+pv, d)
			return
		}
		if !judged {
			c.Class("differential_not_judged")
			return
		}
		got := err == nil
		if got != want {
			if got {
				c.Violation("Evaluate:differential:served:"+why, "the issuer served a request the reference decision refuses ("+why+", "+class+")", d)
			} else {
				c.Violation("Evaluate:differential:refused-authentic:"+classKey(class), "the issuer refused a request that parses, decrypts, names a registered origin and is correctly signed ("+class+"): "+err.Error(), d)
			}
			return
		}
		if got && resp == nil {
			c.Violation("Evaluate:differential:no-response", "nil error without a response", d)
			return
		}
		if want {
			c.Class("differential_agree_accept")
		} else {
			c.Class("differential_agree_reject")
			c.Class("differential_reject_" + why)
		}
		c.Distinctf("diff:%s:%s", classKey(class), why)
	}

	n := c.Pick(60, 6000)
	for i := 0; i < n; i++ {
		if !c.Next() {
			continue
		}
		r := c.CaseRng()
		origin := registered[r.IntN(len(registered))]
		if r.Coin(5) {
			origin = string(alnum(r, 1+r.IntN(70)))
		}
		a := w.build(r, c07Opts{origin: origin})
		b := w.build(r, c07Opts{origin: registered[r.IntN(len(registered))]})
		pa, _ := t3ParseRequest(a.enc)
		pb, _ := t3ParseRequest(b.enc)
		judge(a.enc, "built")
		// a request made by pat-go's OWN client, judged by the independent reference (parse, HPKE open with the draft's AAD,
		// padding, signature by crypto/ecdsa): the client's side of every convention is checked against the reference,
		// not only against pat-go's own issuer
		if i%3 == 0 {
			cl := type3.NewRateLimitedClientFromSecret(ScalarBytes(r, elliptic.P384().Params().N, 48))
			po := registered[r.IntN(len(registered))]
			st, err := cl.CreateTokenRequest(r.Bytes(r.IntN(30)), r.Bytes(32), ScalarBytes(r, elliptic.P384().Params().N, 48), issuer.TokenKeyID(), issuer.TokenKey(), po, issuer.NameKey())
			if err != nil {
				c.Violation("Evaluate:differential:client-create-error", "pat-go's client failed to create a request for a registered origin: "+err.Error(), map[string]any{"origin": po})
			} else {
				enc := clone(st.Request().Marshal())
				if ok, why, _ := f.decide(enc); !ok {
					c.Violation("Evaluate:differential:client-request-rejected-by-reference", "a request made by pat-go's own client is rejected by the independent reference ("+why+"): client and specification disagree on a convention", map[string]any{"origin": po, "request": core.Hex(enc)})
				} else {
					c.Class("client_requests_accepted_by_reference")
				}
				judge(enc, "pat-go-client")
			}
		}
		// multi-bit and byte-level mutations
		for k := 0; k < 12; k++ {
			m := clone(a.enc)
			for j := 0; j < 1+r.IntN(4); j++ {
				m[r.IntN(len(m))] ^= byte(1 << uint(r.IntN(8)))
			}
			judge(m, "multi-bitflip")
		}
		for k := 0; k < 4; k++ {
			m := clone(a.enc)
			m[r.IntN(len(m))] = byte(r.IntN(256))
			judge(m, "byte-set")
		}
		// field splices between two honest requests, unsigned and re-signed
		judge(t3Request(pa.RequestKey, pa.NameKeyID, pb.Ciphertext, pa.Signature), "splice:ciphertext-of-other")
		judge(t3Request(pa.RequestKey, pa.NameKeyID, pb.Ciphertext, a.signer.sign(r, t3SignedMessage(pa.RequestKey, pa.NameKeyID, pb.Ciphertext))), "splice:ciphertext-of-other-resigned")
		judge(t3Request(pb.RequestKey, pa.NameKeyID, pa.Ciphertext, b.signer.sign(r, t3SignedMessage(pb.RequestKey, pa.NameKeyID, pa.Ciphertext))), "splice:key-of-other-resigned")
		judge(t3Request(pa.RequestKey, pb.NameKeyID, pa.Ciphertext, pa.Signature), "splice:name-key-id-of-other")
		// a different name key id, correctly re-signed: the statement binds the id only through the signature
		nkid := r.Bytes(32)
		judge(t3Request(pa.RequestKey, nkid, pa.Ciphertext, a.signer.sign(r, t3SignedMessage(pa.RequestKey, nkid, pa.Ciphertext))), "name-key-id-replaced-resigned")
		// (r, N-s): the other valid ECDSA signature for the same message
		{
			sig := clone(pa.Signature)
			N := elliptic.P384().Params().N
			new(big.Int).Sub(N, new(big.Int).SetBytes(sig[48:])).FillBytes(sig[48:])
			judge(t3Request(pa.RequestKey, pa.NameKeyID, pa.Ciphertext, sig), "signature-s-negated")
		}
		// padded origin variants sealed properly
		for _, po := range [][]byte{refPadOrigin(origin), append(refPadOrigin(origin), make([]byte, 32)...), []byte(origin), append([]byte(origin), 0), nil, make([]byte, 64),
			// fields that are not a whole number of blocks: a registered name, zero padding, then more bytes
			append(refPadOrigin(origin), 'x', 'y', 'z'), append(refPadOrigin(origin), 0, 0, 1), append(append(refPadOrigin(origin), make([]byte, 32)...), 'q'), append([]byte(origin), 0, 0, 'x'),
			append(make([]byte, 32), []byte(origin)...), append(refPadOrigin(origin), refPadOrigin(origin)...),
			// padding of 255, 256, 257 and 512 zero bytes behind the name
			append([]byte(origin), make([]byte, 255)...), append([]byte(origin), make([]byte, 256)...), append([]byte(origin), make([]byte, 257)...), append(refPadOrigin(origin), make([]byte, 512)...)} {
			judge(w.build(r, c07Opts{origin: origin, paddedOrigin: po}).enc, "padded-origin-variant")
		}
		// inner request variants: blinded message out of range, truncated, trailing
		full := a.innerEnc
		big1 := clone(full)
		for j := 1; j <= 256; j++ {
			big1[j] = 0xff
		}
		judge(w.build(r, c07Opts{origin: origin, innerPlain: big1}).enc, "inner-blinded-message-too-large")
		judge(w.build(r, c07Opts{origin: origin, innerPlain: full[:len(full)-1]}).enc, "inner-truncated")
		judge(w.build(r, c07Opts{origin: origin, innerPlain: append(clone(full), 7)}).enc, "inner-trailing")
		// sealed to the other issuer, or with an altered AAD
		judge(w.build(r, c07Opts{origin: origin, sealTo: w.nkO}).enc, "foreign-name-key")
		judge(w.build(r, c07Opts{origin: origin, aadMod: func(x []byte) []byte { o := clone(x); o[r.IntN(len(o))] ^= 1; return o }}).enc, "aad-bitflip")
		// request keys that are not (canonical) encodings of a P-384 point, sealed with an AAD that carries exactly those
		// bytes and signed over them, so that decryption succeeds and the key is first looked at afterwards
		if i%4 == 0 {
			for _, hk := range hostileKeyEncodings(r, pa.RequestKey) {
				if len(hk) == 49 && !bytes.Equal(hk, pa.RequestKey) {
					judge(w.build(r, c07Opts{origin: origin, requestKey: hk}).enc, "hostile-request-key-sealed-for-it")
				}
			}
		}
		// near misses by a multiple of 256 bytes in length (a registered name followed by 256, 512 more bytes)
		if i%8 == 1 {
			for _, extra := range []int{256, 512, 65280} {
				if len(origin)+extra < 65000 {
					judge(w.build(r, c07Opts{origin: origin + string(bytes.Repeat([]byte{'a'}, extra))}).enc, "origin-plus-multiple-of-256-bytes")
					judge(w.build(r, c07Opts{origin: origin + string(append(make([]byte, extra-1), 'a'))}).enc, "origin-plus-multiple-of-256-bytes")
				}
			}
		}
		// two things wrong at once (whatever the order of the issuer's checks, no response)
		{
			unreg := string(alnum(r, 9)) + ".unregistered"
			unrelated := newT3Signer(ScalarBytes(r, elliptic.P384().Params().N, 48), ScalarBytes(r, elliptic.P384().Params().N, 48))
			judge(w.build(r, c07Opts{origin: unreg, signWith: unrelated}).enc, "double-fault:unregistered+foreign-signature")
			judge(w.build(r, c07Opts{origin: unreg, sealTo: w.nkO}).enc, "double-fault:unregistered+foreign-name-key")
			judge(w.build(r, c07Opts{origin: origin, sealTo: w.nkO, signWith: unrelated}).enc, "double-fault:foreign-name-key+foreign-signature")
			judge(w.build(r, c07Opts{origin: unreg, innerPlain: full[:len(full)-1]}).enc, "double-fault:unregistered+inner-truncated")
			m := w.build(r, c07Opts{origin: unreg}).enc
			judge(flipBit(m, 8*(len(m)-1)), "double-fault:unregistered+signature-bit")
			judge(w.build(r, c07Opts{origin: origin, requestKey: append([]byte{2}, bytes.Repeat([]byte{0xff}, 48)...), signWith: unrelated}).enc, "double-fault:malformed-request-key+foreign-signature")
		}
		// bytes inserted in FRONT of the signature (the last 96 bytes stay a valid signature of the original message)
		for _, junk := range [][]byte{{0}, r.Bytes(1), r.Bytes(5), r.Bytes(96), a.enc[len(a.enc)-96:]} {
			m := append(append(clone(a.enc[:len(a.enc)-96]), junk...), a.enc[len(a.enc)-96:]...)
			judge(m, "bytes-inserted-before-the-signature")
		}
		// truncations / extensions at seeded positions
		judge(a.enc[:r.IntN(len(a.enc))], "truncated")
		judge(append(clone(a.enc), r.Bytes(1+r.IntN(5))...), "extended")
		if i == 0 {
			c.Sample("differential case", map[string]any{"origin": origin, "request_len": len(a.enc)})
		}
	}
}

// failingReader yields n bytes and then fails for good.
type failingReader struct {
	n int
	r *core.Rand
}

func (f *failingReader) Read(p []byte) (int, error) {
	if f.n <= 0 {
		return 0, fmt.Errorf("entropy source unavailable")
	}
	k := len(p)
	if k > f.n {
		k = f.n
	}
	f.r.Read(p[:k])
	f.n -= k
	if k < len(p) {
		return k, fmt.Errorf("entropy source unavailable")
	}
	return k, nil
}

// faultAtRead serves every Read from the real source except the k-th (1-based), which fails once: a transient fault.
type faultAtRead struct {
	real  io.Reader
	k, n  int
	fired bool
}

func (f *faultAtRead) Read(p []byte) (int, error) {
	f.n++
	if f.n == f.k {
		f.fired = true
		return 0, fmt.Errorf("entropy source unavailable (transient)")
	}
	return f.real.Read(p)
}

// withEntropyFaultAtRead runs f while the k-th read of crypto/rand.Reader fails; reports whether the fault was reached.
func withEntropyFaultAtRead(k int, f func()) bool {
	saved := crand.Reader
	fr := &faultAtRead{real: saved, k: k}
	crand.Reader = fr
	defer func() { crand.Reader = saved }()
	f()
	return fr.fired
}

// withFailingEntropy runs f while crypto/rand.Reader yields okBytes bytes and then fails (fault injection at the
// process's entropy source; the worker runs one case at a time, nothing else reads it meanwhile).
func withFailingEntropy(okBytes int, f func()) {
	saved := crand.Reader
	crand.Reader = &failingReader{n: okBytes, r: core.NewRand(int64(okBytes), "failing-entropy")}
	defer func() { crand.Reader = saved }()
	f()
}
