package props

import (
	"crypto/elliptic"
	"crypto/rand"
	"crypto/sha512"
	"encoding/binary"
	"encoding/json"
	"fmt"
	"math/big"
	"os"
	"path/filepath"
	"runtime"

	"github.com/cloudflare/circl/oprf"

	"github.com/cloudflare/pat-go/ecdsa"
	"github.com/cloudflare/pat-go/ed25519"
	"github.com/cloudflare/pat-go/quicwire"
	"github.com/cloudflare/pat-go/tokens"
	"github.com/cloudflare/pat-go/tokens/batched"
	"github.com/cloudflare/pat-go/tokens/type1"
	"github.com/cloudflare/pat-go/tokens/type2"
	"github.com/cloudflare/pat-go/tokens/type3"
	"github.com/cloudflare/pat-go/tokens/type5"
	"github.com/cloudflare/pat-go/util"

	"verifharness/internal/core"
	"verifharness/internal/ref"
)

func init() {
	core.Register(&core.Prop{
		ID:    "C03",
		Level: "exploration",
		Rule: "every byte-consuming entry point (decoders, client finalizations on a live state, decode->Evaluate/EvaluateBatch/Verify chains, attester VerifyRequest/FinalizeIndex, UnmarshalTokenKey, ecdsa.VerifyASN1, ed25519.Verify, quicwire.Consume*) driven with structure-aware hostile inputs: " +
			"every truncation and single-byte extension of honest encodings, every length/count field set to {0,1,actual-1,actual+1,2^k-1,2^k}, varints re-encoded in 1/2/4/8 bytes up to 2^62-1, every type tag, splices, seeded bit flips and random strings behind valid headers. " +
			"Oracle per call: it returns (no panic, no process death, no CPU-time stall) and allocates at most C + S*len(input) bytes (runtime/metrics /gc/heap/allocs:bytes; C and S calibrated at start-up as 8x the largest honest allocation and 8x the largest honest bytes-per-input-byte ratio). Each call is journalled before it is made; workers run under RLIMIT_AS. " +
			"A second, coverage-guided stage runs Go's native fuzzer (FuzzC03 in props/fuzz_test.go: mutated (target, input) pairs seeded with the honest and the well-framed hostile encodings, same oracle) for 40 000 / 4 000 000 executions. distinct_nontrivial = distinct (target, outcome, mutation family) triples",
		Floors:            []string{"calls_returned", "outcome_accept", "outcome_reject", "family_truncate", "family_lenfield", "family_varint", "family_tag", "family_random", "family_extend", "family_rebuild", "type3_sealed_response_selfcheck_ok", "malformed_by_construction_rejected", "honest_input_served_after_hostile_inputs", "deeply_nested_der_inputs"},
		Assumptions:       []string{"amd64", "ed25519.Verify is only ever given a 32-byte public key (a different key length is a documented caller-side precondition, not peer data)"},
		HostileBytes:      true,
		StallIsViolation:  true,
		FuzzTarget:        "FuzzC03",
		FuzzExecsQuick:    40000,
		FuzzExecsThorough: 4000000,
		Run:               runC03,
	})
}

// allocBytes is the exact number of heap bytes allocated so far (runtime.ReadMemStats flushes the per-P allocation
// caches; the runtime/metrics counter lags by whole spans, which is too coarse for a per-call delta).
var allocMS runtime.MemStats

func allocBytes() uint64 {
	runtime.ReadMemStats(&allocMS)
	return allocMS.TotalAlloc
}

type lenField struct {
	off    int
	width  int // 1, 2 for fixed; 0 for varint
	actual uint64
}

type c03Target struct {
	name   string
	seeds  [][]byte
	fields func(b []byte) []lenField
	tagged bool // first two bytes are a type tag
	call   func(b []byte) bool
	// rebuild returns well-framed encodings with hostile content
	rebuild func(r *core.Rand) [][]byte
	// nest returns inputs with constructed elements nested depth deep
	nest func(depth int) [][]byte
	// malformed returns inputs that are malformed BY CONSTRUCTION (an element that is no group-element encoding, a
	// scalar or integer out of range): the statement's last sentence applies - they are reported through the error
	// or false result, never served
	malformed func(r *core.Rand) [][]byte
}

type c03World struct {
	honestAlloc map[string]uint64 // per target: largest allocation of an honest call (calibration)
	honestLen   map[string]int    // per target: length of the honest input that allocation belongs to
	seenAlloc   map[string]uint64 // per target: largest allocation/bound ratio seen (x1000)
	honestOK    map[string]bool
	c           *core.Ctx
	allocC      uint64
	allocSlope  uint64
	targets     []*c03Target
	maxDelta    uint64
	arg         *c03Args
}

// invoke makes one monitored call.
func (w *c03World) invoke(t *c03Target, family string, in []byte) {
	c := w.c
	buf := make([]byte, len(in))
	copy(buf, in)
	buf = buf[:len(in):len(in)]
	note := t.name + " " + family + " "
	if len(in) <= 1400 {
		note += core.Hex(in)
	} else {
		note += core.Hex(in[:1400]) + fmt.Sprintf("...(%d bytes)", len(in))
	}
	c.Note(note)
	var accepted bool
	before := allocBytes()
	pan, pv, where := core.Guard(func() { accepted = t.call(buf) })
	delta := allocBytes() - before
	c.Eval(1)
	c.Class("family_" + family)
	if pan {
		c.Violation("panic:"+t.name+":"+where, fmt.Sprintf("%s panicked on peer-controlled bytes (%s): %s at %s", t.name, family, pv, where),
			map[string]any{"target": t.name, "family": family, "input": core.Hex(in), "input_len": len(in), "panic": pv, "where": where})
		c.Distinctf("%s:panic:%s", t.name, family)
		return
	}
	c.Class("calls_returned")
	if w.allocC > 0 {
		bound := w.allocC + w.allocSlope*uint64(len(in))
		if delta > bound {
			c.Violation("alloc:"+t.name, fmt.Sprintf("%s allocated %d bytes for a %d-byte input (bound %d)", t.name, delta, len(in), bound),
				map[string]any{"target": t.name, "family": family, "input": core.Hex(in), "input_len": len(in), "allocated": delta, "bound": bound})
		}
	}
	if delta > w.maxDelta {
		w.maxDelta = delta
	}
	// per-target bound: an input may cost a small multiple of what the target's own honest input costs, scaled by the
	// length ratio where the input is longer than the honest one, plus a small constant
	if ha, ok := w.honestAlloc[t.name]; ok && family != "calibration" {
		scale := uint64(1)
		if hl := w.honestLen[t.name]; hl > 0 && len(in) > hl {
			scale = uint64((len(in) + hl - 1) / hl)
		}
		tb := c03TargetFactor * ha * scale
		if lin := uint64(c03TargetPerByte * len(in)); lin > tb {
			tb = lin // bookkeeping per decoded element (slice headers, growth) is linear in the input with a modest constant
		}
		tb += c03TargetConst
		if delta > tb {
			c.Violation("alloc-vs-own-honest-cost:"+t.name, fmt.Sprintf("%s allocated %d bytes for a %d-byte input; its own honest %d-byte input costs %d bytes (bound %d = max(%dx that scaled by the length ratio, %d bytes per input byte) + %d)", t.name, delta, len(in), w.honestLen[t.name], ha, tb, c03TargetFactor, c03TargetPerByte, c03TargetConst),
				map[string]any{"target": t.name, "family": family, "input": core.Hex(in[:min(len(in), 4096)]), "input_len": len(in), "allocated": delta, "bound": tb, "honest_cost": ha, "honest_len": w.honestLen[t.name]})
		}
		if os.Getenv("VERIF_ALLOC_DEBUG") != "" && delta*1000/tb > w.seenAlloc[t.name] {
			w.seenAlloc[t.name] = delta * 1000 / tb
			if f, err := os.OpenFile(fmt.Sprintf("%s-%d.log", os.Getenv("VERIF_ALLOC_DEBUG"), os.Getpid()), os.O_APPEND|os.O_CREATE|os.O_WRONLY, 0o644); err == nil {
				fmt.Fprintf(f, "ALLOCDBG %s ratio_x1000=%d delta=%d len=%d honest=%d honestlen=%d family=%s\n", t.name, delta*1000/tb, delta, len(in), ha, w.honestLen[t.name], family)
				f.Close()
			}
		}
	}
	if accepted && family == "malformed" {
		c.Violation("malformed-accepted:"+t.name, t.name+" returned success for an input that is malformed by construction (an element or scalar that is not a valid encoding)",
			map[string]any{"target": t.name, "input": core.Hex(in), "input_len": len(in)})
		return
	}
	if family == "malformed" {
		c.Class("malformed_by_construction_rejected")
	}
	if accepted {
		c.Class("outcome_accept")
		c.Distinctf("%s:accept:%s", t.name, family)
	} else {
		c.Class("outcome_reject")
		c.Distinctf("%s:reject:%s", t.name, family)
	}
}

var c03LenValues = func() []uint64 {
	set := map[uint64]bool{0: true, 1: true, 2: true}
	for k := 1; k <= 62; k++ {
		set[1<<uint(k)] = true
		set[1<<uint(k)-1] = true
	}
	set[1<<62-1] = true
	var out []uint64
	for v := range set {
		out = append(out, v)
	}
	for i := 1; i < len(out); i++ {
		for j := i; j > 0 && out[j] < out[j-1]; j-- {
			out[j], out[j-1] = out[j-1], out[j]
		}
	}
	return out
}()

func varintForm(v uint64, n int) []byte {
	if n < refVarintLen(v) {
		return nil
	}
	out := make([]byte, n)
	x := v
	for i := n - 1; i >= 0; i-- {
		out[i] = byte(x)
		x >>= 8
	}
	switch n {
	case 2:
		out[0] |= 0x40
	case 4:
		out[0] |= 0x80
	case 8:
		out[0] |= 0xc0
	}
	return out
}

func splice(b []byte, off, oldLen int, repl []byte) []byte {
	out := append([]byte{}, b[:off]...)
	out = append(out, repl...)
	return append(out, b[off+oldLen:]...)
}

// mutate enumerates the hostile variants of one honest encoding.
func (w *c03World) mutate(t *c03Target, seed []byte, family string, r *core.Rand) {
	thorough := w.c.Thorough()
	switch family {
	case "truncate":
		for l := 0; l < len(seed); l++ {
			if len(seed) > 700 && !thorough && l > 300 && l < len(seed)-300 && l%7 != 0 {
				continue
			}
			w.invoke(t, "truncate", seed[:l])
		}
		w.invoke(t, "truncate", nil)
	case "extend":
		w.invoke(t, "extend", seed) // the honest one itself
		for _, b := range []byte{0, 1, 0xff, 0x40, 0x80, 0xc0} {
			w.invoke(t, "extend", append(append([]byte{}, seed...), b))
		}
		w.invoke(t, "extend", append(append([]byte{}, seed...), r.Bytes(40)...))
		w.invoke(t, "extend", append(append([]byte{}, seed...), seed...)) // splice of two messages
		if len(seed) > 4 {
			w.invoke(t, "extend", append(append([]byte{}, seed[:len(seed)/2]...), seed...))
		}
	case "lenfield":
		if t.fields == nil {
			// no declared length fields: set each of the first 8 bytes to edge values instead
			for off := 0; off < 8 && off < len(seed); off++ {
				for _, v := range []byte{0, 1, 0x3f, 0x40, 0x7f, 0x80, 0xbf, 0xc0, 0xff} {
					b := append([]byte{}, seed...)
					b[off] = v
					w.invoke(t, "lenfield", b)
				}
			}
			return
		}
		for _, f := range t.fields(seed) {
			vals := append([]uint64{}, c03LenValues...)
			vals = append(vals, f.actual-1, f.actual+1, f.actual+31, f.actual+32, uint64(len(seed)), uint64(len(seed))-uint64(f.off))
			for _, v := range vals {
				switch f.width {
				case 1:
					if v > 0xff {
						continue
					}
					b := append([]byte{}, seed...)
					b[f.off] = byte(v)
					w.invoke(t, "lenfield", b)
				case 2:
					if v > 0xffff {
						continue
					}
					b := append([]byte{}, seed...)
					binary.BigEndian.PutUint16(b[f.off:], uint16(v))
					w.invoke(t, "lenfield", b)
					// and the message cut right behind the field, or a few bytes later: the announced bytes are not there
					if v >= 1024 && f.off+2 <= len(b) {
						w.invoke(t, "lenfield", b[:f.off+2])
						if f.off+5 <= len(b) {
							w.invoke(t, "lenfield", b[:f.off+5])
						}
					}
				}
			}
		}
	case "varint":
		if t.fields == nil {
			return
		}
		for _, f := range t.fields(seed) {
			if f.width != 0 {
				continue
			}
			old := refVarintLen(f.actual)
			vals := append([]uint64{}, c03LenValues...)
			vals = append(vals, f.actual-1, f.actual+1, f.actual+32, f.actual-32, uint64(len(seed)))
			for _, v := range vals {
				if v > 1<<62-1 {
					continue
				}
				for _, n := range []int{1, 2, 4, 8} {
					enc := varintForm(v, n)
					if enc == nil {
						continue
					}
					w.invoke(t, "varint", splice(seed, f.off, old, enc))
				}
			}
			// the honest value in each non-minimal form, with the message then cut short by 1..8 bytes (the announced
			// bytes are almost, not quite, there)
			for _, n := range []int{2, 4, 8} {
				enc := varintForm(f.actual, n)
				if enc == nil || n == old {
					continue
				}
				full := splice(seed, f.off, old, enc)
				for cut := 1; cut <= 8 && cut < len(full); cut++ {
					w.invoke(t, "varint", full[:len(full)-cut])
				}
			}
			// truncated varints of every class at the field position, nothing after
			for _, fb := range []byte{0x00, 0x3f, 0x40, 0x7f, 0x80, 0xbf, 0xc0, 0xff} {
				for l := 1; l <= 8; l++ {
					b := append([]byte{}, seed[:f.off]...)
					b = append(b, fb)
					b = append(b, r.Bytes(l-1)...)
					w.invoke(t, "varint", b)
				}
			}
		}
	case "exhaustion":
		// several hundred refused inputs in a row on the same object (a resource taken per call and not given back on the
		// refusing path runs out), then - by the caller of mutate - the honest input again
		if t.malformed == nil || !bytesEq(seed, t.seeds[0]) {
			return
		}
		ms := t.malformed(r)
		for k := 0; k < 320 && len(ms) > 0; k++ {
			w.invoke(t, "exhaustion", ms[k%len(ms)])
		}
	case "malformed":
		if t.malformed == nil || !bytesEq(seed, t.seeds[0]) {
			return
		}
		for _, b := range t.malformed(r) {
			w.invoke(t, "malformed", b)
		}
	case "nesting":
		// constructed DER elements nested millions deep (a decoder that descends recursively runs out of stack: a process
		// death, not even a panic)
		if t.nest == nil || !bytesEq(seed, t.seeds[0]) {
			return
		}
		depth := 12_000_000
		if thorough {
			depth = 24_000_000
		}
		for _, b := range t.nest(depth) {
			w.invoke(t, "nesting", b)
			w.c.Class("deeply_nested_der_inputs")
			w.c.Info("der_nesting_depth", depth)
		}
	case "rebuild":
		if t.rebuild == nil {
			return
		}
		for _, b := range t.rebuild(r) {
			w.invoke(t, "rebuild", b)
		}
	case "tag":
		if !t.tagged || len(seed) < 2 {
			// no tag: overwrite the first two bytes anyway (status bytes, DER tags, varint prefixes)
			for _, v := range []uint16{0, 1, 2, 3, 5, 0xffff, 0x3000, 0x3080, 0x4000, 0x8000, 0xc000} {
				if len(seed) >= 2 {
					b := append([]byte{}, seed...)
					binary.BigEndian.PutUint16(b, v)
					w.invoke(t, "tag", b)
				}
			}
			return
		}
		for _, v := range []uint16{0, 1, 2, 3, 4, 5, 6, 0xffff, 0x0100, 0x0200, 0x0300, 0x0500} {
			b := append([]byte{}, seed...)
			binary.BigEndian.PutUint16(b, v)
			w.invoke(t, "tag", b)
		}
	case "bitflip":
		n := 300
		if thorough {
			n = 12000
		}
		for i := 0; i < n && len(seed) > 0; i++ {
			b := append([]byte{}, seed...)
			bit := r.IntN(len(seed) * 8)
			if i < len(seed)*8 && i < 200 {
				bit = i // the first 25 bytes exhaustively
			}
			b[bit/8] ^= 1 << uint(bit%8)
			w.invoke(t, "bitflip", b)
		}
		for i := 0; i < n/2 && len(seed) > 0; i++ {
			b := append([]byte{}, seed...)
			b[r.IntN(len(seed))] = byte(r.Of(0, 1, 0x7f, 0x80, 0xff, r.IntN(256)))
			w.invoke(t, "bitflip", b)
		}
	case "random":
		n := 400
		if thorough {
			n = 30000
		}
		for i := 0; i < n; i++ {
			l := r.IntN(r.Of(8, 80, 600))
			b := r.Bytes(l)
			// biased to begin with a valid header
			if i%3 != 0 && len(seed) > 0 {
				h := r.IntN(min(len(seed), 12) + 1)
				if h > len(b) {
					h = len(b)
				}
				copy(b, seed[:h])
			}
			w.invoke(t, "random", b)
		}
	}
}

// per-target allocation bound: factor on the target's own honest cost and additive constant
const (
	c03TargetFactor  = 4
	c03TargetPerByte = 256
	c03TargetConst   = 16 << 10
)

var c03Families = []string{"truncate", "extend", "lenfield", "varint", "tag", "bitflip", "random", "rebuild", "malformed", "exhaustion", "nesting"}

func runC03(c *core.Ctx) {
	w := &c03World{c: c, honestOK: map[string]bool{}, honestAlloc: map[string]uint64{}, honestLen: map[string]int{}, seenAlloc: map[string]uint64{}}
	w.build()
	// calibration of the allocation constant on the honest encodings of every target
	var maxHonest, maxRatio uint64
	for _, t := range w.targets {
		for _, s := range t.seeds {
			for rep := 0; rep < 2; rep++ {
				buf := append([]byte{}, s...)
				before := allocBytes()
				core.Guard(func() {
					if t.call(buf) {
						w.honestOK[t.name+"#"+fmt.Sprint(len(s))] = true
					}
				})
				d := allocBytes() - before
				if d > maxHonest {
					maxHonest = d
				}
				if d >= w.honestAlloc[t.name] {
					w.honestAlloc[t.name], w.honestLen[t.name] = d, len(s)
				}
				if len(s) > 0 && d/uint64(len(s)) > maxRatio {
					maxRatio = d / uint64(len(s))
				}
			}
		}
	}
	// the honest costs themselves against a committed baseline measured on the pinned tree (the bounds above are relative
	// to the tree under test, so a change that makes the HONEST path allocate out of proportion would raise them with it)
	w.checkBaseline()
	// slope: bytes allocated per input byte on the honest (accepting, hence most
	// expensive) paths, times 8; an evaluation of n requests legitimately costs n
	// times one evaluation.
	w.allocSlope = 8 * maxRatio
	if w.allocSlope < 4096 {
		w.allocSlope = 4096
	}
	c.Info("alloc_bound_slope_bytes_per_input_byte", w.allocSlope)
	w.allocC = 8 * maxHonest
	if w.allocC < 4<<20 {
		w.allocC = 4 << 20
	}
	c.Info("alloc_bound_constant_bytes", w.allocC)
	c.Info("largest_honest_alloc_delta_bytes", maxHonest)
	c.Info("targets", len(w.targets))

	for ti, t := range w.targets {
		for si, seed := range t.seeds {
			for _, fam := range c03Families {
				if !c.Next() {
					continue
				}
				w.mutate(t, seed, fam, c.CaseRng())
				// after a family of hostile inputs the same object still serves the honest input it served before
				// (a failing call must not leave an issuer, attester, client state or decoder broken for later calls)
				if w.honestOK[t.name+"#"+fmt.Sprint(len(seed))] {
					var ok bool
					buf := clone(seed)
					pan, pv, _ := core.Guard(func() { ok = t.call(buf) })
					c.Eval(1)
					if pan || !ok {
						c.Violation("honest-input-refused-after-hostile-inputs:"+t.name, fmt.Sprintf("%s served its honest input before and refuses it after the %s family of hostile inputs was fed to the same object (%s)", t.name, fam, pv),
							map[string]any{"target": t.name, "family": fam, "honest_input": core.Hex(seed)})
					} else {
						c.Class("honest_input_served_after_hostile_inputs")
					}
				}
				if si == 0 && fam == "truncate" {
					c.Sample("target", map[string]any{"target": t.name, "honest_len": len(seed), "seeds": len(t.seeds), "index": ti})
				}
			}
		}
	}
	w.argTargets()
	c.Info("largest_alloc_delta_seen_bytes(shard0)", w.maxDelta)
}

// ------------------------------------------------------------------ world

func (w *c03World) add(t *c03Target) { w.targets = append(w.targets, t) }

func u16At(off int) func(b []byte) []lenField {
	return func(b []byte) []lenField {
		if off+2 > len(b) {
			return nil
		}
		return []lenField{{off, 2, uint64(binary.BigEndian.Uint16(b[off:]))}}
	}
}

func varintAt(off int) func(b []byte) []lenField {
	return func(b []byte) []lenField {
		if off >= len(b) {
			return nil
		}
		v, n := refVarintDec(b[off:])
		if n < 0 {
			return nil
		}
		return []lenField{{off, 0, v}}
	}
}

func (w *c03World) build() {
	c := w.c
	r := c.Rng("world")
	rk := RSAKeys()
	curve := elliptic.P384()

	// ---- TokenChallenge
	var chal [][]byte
	for _, tc := range []tokens.TokenChallenge{
		{TokenType: 2, IssuerName: "issuer.example", RedemptionNonce: r.Bytes(32), OriginInfo: []string{"origin.example"}},
		{TokenType: 1, IssuerName: "i", RedemptionNonce: nil, OriginInfo: []string{""}},
		{TokenType: 3, IssuerName: string(alnum(r, 300)), RedemptionNonce: r.Bytes(32), OriginInfo: []string{"a.example", "b.example"}},
	} {
		chal = append(chal, tc.Marshal())
	}
	w.add(&c03Target{name: "tokens.UnmarshalTokenChallenge", seeds: chal, tagged: true, rebuild: rebuildChallenge,
		fields: func(b []byte) []lenField {
			var fs []lenField
			if len(b) < 4 {
				return nil
			}
			il := int(binary.BigEndian.Uint16(b[2:]))
			fs = append(fs, lenField{2, 2, uint64(il)})
			o := 4 + il
			if o < len(b) {
				fs = append(fs, lenField{o, 1, uint64(b[o])})
				o2 := o + 1 + int(b[o])
				if o2+2 <= len(b) {
					fs = append(fs, lenField{o2, 2, uint64(binary.BigEndian.Uint16(b[o2:]))})
				}
			}
			return fs
		},
		call: func(b []byte) bool { _, err := tokens.UnmarshalTokenChallenge(b); return err == nil }})

	// ---- type 1
	k1 := VOPRFKey(oprf.SuiteP384, r.Bytes(32))
	iss1 := type1.NewBasicPrivateIssuer(k1)
	mk1 := func() (type1.BasicPrivateTokenRequestState, []byte) {
		st, err := type1.NewBasicPrivateClient().CreateTokenRequest(r.Bytes(20), r.Bytes(32), iss1.TokenKeyID(), iss1.TokenKey())
		must(err)
		resp, err := iss1.Evaluate(st.Request())
		must(err)
		return st, resp
	}
	st1, resp1 := mk1()
	tok1, err := st1.FinalizeToken(resp1)
	must(err)
	req1 := clone(st1.Request().Marshal())
	w.add(&c03Target{name: "type1.UnmarshalPrivateToken+Verify", seeds: [][]byte{tok1.Marshal()}, tagged: true,
		call: func(b []byte) bool {
			t, err := type1.UnmarshalPrivateToken(b)
			if err != nil {
				return false
			}
			return iss1.Verify(t) == nil
		}})
	w.add(&c03Target{name: "type1.TokenRequest.Unmarshal+Evaluate", seeds: [][]byte{req1}, tagged: true, rebuild: rebuildType1Request,
		malformed: func(r *core.Rand) [][]byte {
			var out [][]byte
			for _, el := range p384InvalidEncodings(r) {
				out = append(out, append(clone(req1[:3]), el...))
			}
			return out
		},
		call: func(b []byte) bool {
			req := new(type1.BasicPrivateTokenRequest)
			if !req.Unmarshal(b) {
				return false
			}
			req.Marshal()
			_, err := iss1.Evaluate(req)
			return err == nil
		}})
	w.add(&c03Target{name: "type1.FinalizeToken", seeds: [][]byte{resp1},
		rebuild: func(r *core.Rand) [][]byte {
			// the honest evaluated element in its OTHER valid SEC 1 spellings (uncompressed 04||x||y, hybrid 06/07||x||y,
			// compressed with the other sign bit), followed by the proof, at every total length around the fixed 145
			var out [][]byte
			x, y, ok := ref.ECDecompress(elliptic.P384(), resp1[:49])
			if !ok {
				return nil
			}
			xy := append(x.FillBytes(make([]byte, 48)), y.FillBytes(make([]byte, 48))...)
			for _, head := range []byte{4, 6, 7, 2, 3, 0} {
				el := append([]byte{head}, xy...)
				if head == 2 || head == 3 || head == 0 {
					el = el[:49]
				}
				full := append(clone(el), resp1[49:]...)
				for _, l := range []int{49, 97, 98, 144, 145, 146, 150, 192, 193, 194, 241, 300} {
					b := make([]byte, l)
					copy(b, full)
					if l > len(full) {
						copy(b[len(full):], r.Bytes(l-len(full)))
					}
					out = append(out, b)
				}
			}
			return out
		},
		malformed: func(r *core.Rand) [][]byte {
			var out [][]byte
			for _, el := range p384InvalidEncodings(r) {
				out = append(out, append(clone(el), resp1[49:]...))
			}
			// proof scalars that are not below the group order
			nb := elliptic.P384().Params().N.FillBytes(make([]byte, 48))
			for _, sc := range [][]byte{nb, ff(48)} {
				out = append(out, append(append(clone(resp1[:49]), sc...), resp1[97:]...), append(clone(resp1[:97]), sc...))
			}
			return out
		},
		call: func(b []byte) bool { _, err := st1.FinalizeToken(b); return err == nil }})

	// ---- type 2
	iss2 := type2.NewBasicPublicIssuer(rk[0])
	st2, err := type2.NewBasicPublicClient().CreateTokenRequest(r.Bytes(20), r.Bytes(32), iss2.TokenKeyID(), iss2.TokenKey())
	must(err)
	resp2, err := iss2.Evaluate(st2.Request())
	must(err)
	tok2, err := st2.FinalizeToken(resp2)
	must(err)
	req2 := clone(st2.Request().Marshal())
	w.add(&c03Target{name: "type2.UnmarshalToken", seeds: [][]byte{tok2.Marshal()}, tagged: true,
		call: func(b []byte) bool { _, err := type2.UnmarshalToken(b); return err == nil }})
	w.add(&c03Target{name: "type2.TokenRequest.Unmarshal+Evaluate", seeds: [][]byte{req2}, tagged: true, rebuild: rebuildType2Request,
		malformed: func(r *core.Rand) [][]byte {
			// blinded messages that are not below the modulus
			nb := rk[0].N.FillBytes(make([]byte, 256))
			np1 := new(big.Int).Add(rk[0].N, big.NewInt(1)).FillBytes(make([]byte, 256))
			return [][]byte{append(clone(req2[:3]), ff(256)...), append(clone(req2[:3]), nb...), append(clone(req2[:3]), np1...)}
		},
		call: func(b []byte) bool {
			req := new(type2.BasicPublicTokenRequest)
			if !req.Unmarshal(b) {
				return false
			}
			req.Marshal()
			_, err := iss2.Evaluate(req)
			return err == nil
		}})
	w.add(&c03Target{name: "type2.FinalizeToken", seeds: [][]byte{resp2},
		call: func(b []byte) bool { _, err := st2.FinalizeToken(b); return err == nil }})

	// ---- type 5
	k5 := VOPRFKey(oprf.SuiteRistretto255, r.Bytes(32))
	iss5 := type5.NewBatchedPrivateIssuer(k5)
	var req5s, resp5s [][]byte
	var st5s []type5.BatchedPrivateTokenRequestState
	var tok5 tokens.Token
	for _, nb := range []int{1, 3, 70} {
		nonces := make([][]byte, nb)
		for i := range nonces {
			nonces[i] = r.Bytes(32)
		}
		st, err := type5.NewBatchedPrivateClient().CreateTokenRequest(r.Bytes(20), nonces, iss5.TokenKeyID(), iss5.TokenKey())
		must(err)
		resp, err := iss5.Evaluate(st.Request())
		must(err)
		toks, err := st.FinalizeTokens(resp)
		must(err)
		tok5 = toks[0]
		req5s = append(req5s, clone(st.Request().Marshal()))
		resp5s = append(resp5s, resp)
		st5s = append(st5s, st)
	}
	w.add(&c03Target{name: "type5.UnmarshalBatchedPrivateToken+Verify", seeds: [][]byte{tok5.Marshal()}, tagged: true,
		call: func(b []byte) bool {
			t, err := type5.UnmarshalBatchedPrivateToken(b)
			if err != nil {
				return false
			}
			return iss5.Verify(t) == nil
		}})
	w.add(&c03Target{name: "type5.TokenRequest.Unmarshal+Evaluate", seeds: req5s, tagged: true, fields: varintAt(3),
		rebuild: func(r *core.Rand) [][]byte { return append(rebuildType5Request(r), rebuildType5Large(r, req5s[0])...) },
		malformed: func(r *core.Rand) [][]byte {
			// each honest request with each of its elements, in turn, replaced by a string that is no ristretto255 encoding
			var out [][]byte
			for _, q := range req5s {
				_, k := refVarintDec(q[3:])
				if k < 0 {
					continue
				}
				n := (len(q) - 3 - k) / 32
				for slot := 0; slot < n && slot < 6; slot++ {
					for _, bad := range ristrettoInvalidEncodings(r)[:4] {
						b := clone(q)
						copy(b[3+k+32*slot:], bad)
						out = append(out, b)
					}
				}
				if n > 6 {
					b := clone(q)
					copy(b[3+k+32*(n-1):], ristrettoInvalidEncodings(r)[0])
					out = append(out, b)
				}
			}
			return out
		},
		call: func(b []byte) bool {
			req := new(type5.BatchedPrivateTokenRequest)
			if !req.Unmarshal(b) {
				return false
			}
			req.Marshal()
			_, err := iss5.Evaluate(req)
			return err == nil
		}})
	for i := range st5s {
		st := st5s[i]
		honest5 := resp5s[i]
		w.add(&c03Target{name: "type5.FinalizeTokens", seeds: [][]byte{resp5s[i]}, fields: varintAt(0), rebuild: func(r *core.Rand) [][]byte { return rebuildType5Response(r, honest5) },
			call: func(b []byte) bool { _, err := st.FinalizeTokens(b); return err == nil }})
	}

	// ---- type 3
	iss3 := type3.NewRateLimitedIssuer(rk[1])
	iss3.AddOrigin("origin.example")
	iss3.AddOrigin("")
	secret := ScalarBytes(r, curve.Params().N, 48)
	blind := ScalarBytes(r, curve.Params().N, 48)
	cl3 := type3.NewRateLimitedClientFromSecret(secret)
	st3, err := cl3.CreateTokenRequest(r.Bytes(20), r.Bytes(32), blind, iss3.TokenKeyID(), iss3.TokenKey(), "origin.example", iss3.NameKey())
	must(err)
	req3 := clone(st3.Request().Marshal())
	resp3, brk3, err := iss3.Evaluate(req3)
	must(err)
	tok3, err := st3.FinalizeToken(resp3)
	must(err)
	w.add(&c03Target{name: "type3.UnmarshalToken", seeds: [][]byte{tok3.Marshal()}, tagged: true,
		call: func(b []byte) bool { _, err := type3.UnmarshalToken(b); return err == nil }})
	nk3, nkErr := parseNameKey(iss3.NameKey().Marshal())
	if nkErr != nil {
		c.Info("name_key_parse_error", nkErr.Error())
	}
	rb3 := func(r *core.Rand) [][]byte { return rebuildT3Request(r, req3, nk3) }
	w.add(&c03Target{name: "type3.RateLimitedIssuer.Evaluate", seeds: [][]byte{req3}, tagged: true, fields: u16At(83), rebuild: rb3,
		call: func(b []byte) bool { _, _, err := iss3.Evaluate(b); return err == nil }})
	w.add(&c03Target{name: "type3.FinalizeToken", seeds: [][]byte{resp3},
		call: func(b []byte) bool { _, err := st3.FinalizeToken(b); return err == nil }})
	// the same step fed with PROPERLY ENCRYPTED hostile payloads: an issuer built over a known name-key seed (hook), so the
	// monitor can derive the response key the way a malicious issuer holding that key would
	{
		seed := r.Bytes(32)
		issK, kerr := type3.VerifNewRateLimitedIssuerWithNameKey(type3.NewRateLimitedIssuer(rk[1]), seed)
		must(kerr)
		issK.AddOrigin("origin.example")
		stK, err := cl3.CreateTokenRequest(r.Bytes(20), r.Bytes(32), blind, issK.TokenKeyID(), issK.TokenKey(), "origin.example", issK.NameKey())
		must(err)
		reqK := clone(stK.Request().Marshal())
		respK, _, err := issK.Evaluate(reqK)
		must(err)
		sealer, serr := newT3ResponseSealer(seed, reqK)
		if serr != nil {
			c.Info("type3_response_sealer_error", serr.Error())
		} else {
			// self-check of the sealer: a well-formed payload it seals must finalize
			if good, gerr := sealer.open(respK); gerr == nil {
				if _, ferr := stK.FinalizeToken(sealer.seal(r.Bytes(16), good)); ferr == nil {
					c.Class("type3_sealed_response_selfcheck_ok")
				} else {
					c.Info("type3_response_sealer_selfcheck", ferr.Error())
				}
				w.add(&c03Target{name: "type3.FinalizeToken(sealed-payload)", seeds: [][]byte{respK},
					rebuild: func(r *core.Rand) [][]byte { return rebuildT3Response(r, sealer, good, rk[1].N.Bytes()) },
					call:    func(b []byte) bool { _, err := stK.FinalizeToken(b); return err == nil }})
			} else {
				c.Info("type3_response_sealer_open_error", gerr.Error())
			}
		}
	}
	attCache := newMemCache()
	att := type3.NewRateLimitedAttester(attCache)
	w.add(&c03Target{name: "type3.TokenRequest.Unmarshal+Attester.VerifyRequest", seeds: [][]byte{req3}, tagged: true, fields: u16At(83), rebuild: rb3,
		call: func(b []byte) bool {
			req := new(type3.RateLimitedTokenRequest)
			if !req.Unmarshal(b) {
				return false
			}
			req.Marshal()
			return att.VerifyRequest(*req, blind, st3.ClientKey(), []byte("anon")) == nil
		}})
	inner := type3.VerifInnerTokenRequest(7, r.Bytes(256), type3.VerifPadOriginName("origin.example")).Marshal()
	w.add(&c03Target{name: "type3.InnerTokenRequest.Unmarshal", seeds: [][]byte{inner}, fields: u16At(257),
		call: func(b []byte) bool {
			q := new(type3.InnerTokenRequest)
			if !q.Unmarshal(b) {
				return false
			}
			q.Marshal()
			return true
		}})
	w.add(&c03Target{name: "type3.UnmarshalEncapKey", seeds: [][]byte{iss3.NameKey().Marshal()},
		fields: func(b []byte) []lenField { // KEM id, KDF id and AEAD id: every edge value incl. 0xffff (export-only AEAD)
			var fs []lenField
			for _, off := range []int{1, 35, 37} {
				if off+2 <= len(b) {
					fs = append(fs, lenField{off, 2, uint64(binary.BigEndian.Uint16(b[off:]))})
				}
			}
			return fs
		},
		call: func(b []byte) bool {
			k, err := type3.UnmarshalEncapKey(b)
			if err != nil {
				return false
			}
			k.Marshal()
			return true
		}})
	// every KEM id at offset 1 (exhaustive over 16 bits in the thorough tier is done in argTargets)

	// ---- generic batch
	var rust []RustVector
	rust, rerr := LoadRustVectors()
	if rerr != nil {
		c.Info("rust_vectors_error", rerr.Error())
	}
	var breqSeeds, brespSeeds [][]byte
	{
		var reqs []tokens.TokenRequestWithDetails
		s1a, _ := mk1()
		s1b, _ := mk1()
		reqs = append(reqs, s1a.Request(), st2.Request(), s1b.Request())
		br, err := batched.NewBasicClient().CreateTokenRequest(reqs)
		must(err)
		breqSeeds = append(breqSeeds, clone(br.Marshal()))
		bi := batched.NewBasicBatchedIssuer(batchIssuer1{iss1}, batchIssuer2{iss2})
		out, err := bi.EvaluateBatch(br)
		must(err)
		brespSeeds = append(brespSeeds, out)
		for _, v := range rust {
			breqSeeds = append(breqSeeds, v.TokenRequest)
			brespSeeds = append(brespSeeds, v.TokenResponse)
		}
		w.add(&c03Target{name: "batched.TokenRequest.Unmarshal+EvaluateBatch", seeds: breqSeeds, fields: varintAt(0), rebuild: func(r *core.Rand) [][]byte { return rebuildBatchRequest(r, req1, req2) },
			call: func(b []byte) bool {
				q := new(batched.BatchedTokenRequest)
				if !q.Unmarshal(b) {
					return false
				}
				q.Marshal()
				out, err := bi.EvaluateBatch(q)
				if err != nil {
					return false
				}
				_, err = batched.UnmarshalBatchedTokenResponses(out)
				return err == nil
			}})
		w.add(&c03Target{name: "batched.UnmarshalBatchedTokenResponses", seeds: brespSeeds, fields: varintAt(0), rebuild: rebuildBatchResponse,
			call: func(b []byte) bool { _, err := batched.UnmarshalBatchedTokenResponses(b); return err == nil }})
	}

	// ---- decode-only targets (no evaluation behind them, so the honest cost - and with it the bound - is the decoder's own)
	for _, rc := range reqCodecs() {
		rc := rc
		var seeds [][]byte
		switch rc.name {
		case "type1.TokenRequest":
			seeds = [][]byte{req1}
		case "type2.TokenRequest":
			seeds = [][]byte{req2}
		case "type5.TokenRequest":
			seeds = req5s
		case "type3.TokenRequest":
			seeds = [][]byte{req3}
		default:
			continue
		}
		tgt := &c03Target{name: rc.name + ".Unmarshal(decode only)", seeds: seeds, tagged: true,
			call: func(b []byte) bool {
				o, _ := rc.mk()
				if !o.Unmarshal(b) {
					return false
				}
				o.Marshal()
				return true
			}}
		switch rc.name {
		case "type3.TokenRequest":
			tgt.fields = u16At(83)
		case "type5.TokenRequest":
			tgt.fields = varintAt(3)
			tgt.rebuild = func(r *core.Rand) [][]byte { return rebuildType5Large(r, req5s[0]) }
		}
		w.add(tgt)
	}
	{
		big1, big2 := rebuildBatchLarge(req1, req2)
		small := append(refVarintEnc(uint64(len(req1)+len(req2))), append(clone(req1), req2...)...)
		w.add(&c03Target{name: "batched.TokenRequest.Unmarshal(decode only)", seeds: [][]byte{small}, fields: varintAt(0),
			rebuild: func(r *core.Rand) [][]byte {
				return append(append(rebuildBatchRequest(r, req1, req2), big1...), big2...)
			},
			call: func(b []byte) bool {
				q := new(batched.BatchedTokenRequest)
				if !q.Unmarshal(b) {
					return false
				}
				q.Marshal()
				return true
			}})
	}
	// ---- util.UnmarshalTokenKey
	der1, _ := util.MarshalTokenKey(&rk[0].PublicKey, false)
	der2, _ := util.MarshalTokenKey(&rk[0].PublicKey, true)
	pssAlg, rsaAlg := spkiAlgs()
	w.add(&c03Target{name: "util.UnmarshalTokenKey", seeds: [][]byte{der1, der2},
		rebuild: func(r *core.Rand) [][]byte { return rebuildTokenKeyDER(r, rk[0].N, rk[0].E, pssAlg, rsaAlg) },
		nest: func(depth int) [][]byte {
			bits := der1[4+len(pssAlg):] // the BIT STRING element of the honest key
			var out [][]byte
			for _, tag := range []byte{0x30, 0xa0, 0x31} {
				nested := nestedDER(depth, tag)
				out = append(out, nested, derWrap(0x30, nested, bits), derWrap(0x30, derWrap(0x30, pssAlg[2:13], nested), bits),
					derWrap(0x30, pssAlg, derWrap(0x03, []byte{0}, nested)))
			}
			return out
		},
		fields: func(b []byte) []lenField {
			// DER length octets of the outer SEQUENCE and the first inner one
			var fs []lenField
			for _, off := range []int{1, 2, 5, 6} {
				if off+2 <= len(b) {
					fs = append(fs, lenField{off, 1, uint64(b[off])}, lenField{off, 2, uint64(binary.BigEndian.Uint16(b[off:]))})
				}
			}
			return fs
		},
		call: func(b []byte) bool { _, err := util.UnmarshalTokenKey(b); return err == nil }})

	// ---- ecdsa.VerifyASN1
	ek, err := ecdsa.GenerateKey(curve, r)
	must(err)
	dig := sha512.Sum384([]byte("message"))
	der, err := ecdsa.SignASN1(rand.Reader, ek, dig[:])
	must(err)
	w.add(&c03Target{name: "ecdsa.VerifyASN1", seeds: [][]byte{der},
		nest: func(depth int) [][]byte {
			nested := nestedDER(depth, 0x30)
			return [][]byte{nested, derWrap(0x30, nested, der[4+int(der[3]):]), derWrap(0x30, der[2:4+int(der[3])], nested)}
		},
		fields: func(b []byte) []lenField {
			var fs []lenField
			for _, off := range []int{1, 3} {
				if off < len(b) {
					fs = append(fs, lenField{off, 1, uint64(b[off])})
				}
			}
			if len(b) > 5 {
				o := 4 + int(b[3]) + 1
				if o < len(b) {
					fs = append(fs, lenField{o, 1, uint64(b[o])})
				}
			}
			return fs
		},
		call: func(b []byte) bool { return ecdsa.VerifyASN1(&ek.PublicKey, dig[:], b) }})

	// ---- ed25519.Verify
	epub, epriv, err := ed25519.GenerateKey(r)
	must(err)
	emsg := []byte("message")
	esig := ed25519.Sign(epriv, emsg)
	w.add(&c03Target{name: "ed25519.Verify(signature)", seeds: [][]byte{esig},
		call: func(b []byte) bool { return ed25519.Verify(epub, emsg, b) }})
	w.add(&c03Target{name: "ed25519.Verify(public key bytes)", seeds: [][]byte{epub},
		call: func(b []byte) bool {
			if len(b) != 32 {
				return false // caller-side precondition
			}
			return ed25519.Verify(ed25519.PublicKey(b), emsg, esig)
		}})
	w.add(&c03Target{name: "ed25519.Verify(message)", seeds: [][]byte{emsg},
		call: func(b []byte) bool { return ed25519.Verify(epub, b, esig) }})

	// ---- quicwire
	qs := [][]byte{quicwire.AppendVarintBytes(nil, r.Bytes(70)), quicwire.AppendUint8Bytes(nil, r.Bytes(9)), {0xc0, 0, 0, 0, 0, 0, 0, 5, 1, 2, 3, 4, 5}}
	w.add(&c03Target{name: "quicwire.Consume*", seeds: qs, fields: varintAt(0),
		call: func(b []byte) bool {
			_, n1 := quicwire.ConsumeVarint(b)
			_, n2 := quicwire.ConsumeVarintInt64(b)
			_, n3 := quicwire.ConsumeVarintBytes(b)
			_, n4 := quicwire.ConsumeUint8Bytes(b)
			_, n5 := quicwire.ConsumeUint32(b)
			_, n6 := quicwire.ConsumeUint64(b)
			return n1 >= 0 && n2 >= 0 && n3 >= 0 && n4 >= 0 && n5 >= 0 && n6 >= 0
		}})

	// keep what argTargets needs
	w.arg = &c03Args{att: att, attCache: attCache, req3: st3.Request(), blind: blind, clientKey: st3.ClientKey(), brk: brk3, iss1: iss1, iss5: iss5, tok1: tok1, tok5: tok5, nameKeyEnc: iss3.NameKey().Marshal()}
}

// checkBaseline compares each target's honest allocation with fixtures/c03-honest-alloc.json (written only by an
// explicit run with VERIF_C03_WRITE_BASELINE=1, never by a check).
func (w *c03World) checkBaseline() {
	c := w.c
	path := filepath.Join(core.VerifDir(), "fixtures", "c03-honest-alloc.json")
	if os.Getenv("VERIF_C03_WRITE_BASELINE") != "" {
		if c.Shard == 0 {
			j, _ := json.MarshalIndent(w.honestAlloc, "", " ")
			os.WriteFile(path, j, 0o644)
		}
		return
	}
	base := map[string]uint64{}
	b, err := os.ReadFile(path)
	if err != nil || json.Unmarshal(b, &base) != nil {
		c.Class("info_no_allocation_baseline")
		return
	}
	if !c.Next() {
		return
	}
	n := 0
	for name, now := range w.honestAlloc {
		was, ok := base[name]
		if !ok {
			continue
		}
		n++
		c.Eval(1)
		if now > 16*was+(64<<10) {
			c.Violation("honest-cost-out-of-proportion:"+name, fmt.Sprintf("%s allocates %d bytes for its honest %d-byte input; on the pinned tree it allocated %d (bound: 16x + 64 KiB)", name, now, w.honestLen[name], was),
				map[string]any{"target": name, "allocated": now, "baseline": was, "input_len": w.honestLen[name]})
		}
	}
	c.ClassN("honest_costs_within_baseline", int64(n))
}
