package props

import (
	"bytes"
	"fmt"
	"math/bits"
	"runtime"

	"github.com/cloudflare/pat-go/quicwire"

	"verifharness/internal/core"
)

// refVarintLen: RFC 9000 section 16 by arithmetic: the shortest n in {1,2,4,8}
// with 8n-2 usable bits that holds v.
func refVarintLen(v uint64) int {
	need := bits.Len64(v)
	n := 1
	for 8*n-2 < need {
		n *= 2
	}
	return n
}

func refVarintEnc(v uint64) []byte {
	n := refVarintLen(v)
	out := make([]byte, n)
	x := v
	for i := n - 1; i >= 0; i-- {
		out[i] = byte(x)
		x >>= 8
	}
	out[0] |= byte(bits.TrailingZeros(uint(n))) << 6
	return out
}

func refVarintDec(b []byte) (uint64, int) {
	if len(b) == 0 {
		return 0, -1
	}
	need := 1 << (b[0] >> 6)
	if len(b) < need {
		return 0, -1
	}
	v := uint64(b[0] & 0x3f)
	for i := 1; i < need; i++ {
		v = v<<8 | uint64(b[i])
	}
	return v, need
}

func init() {
	core.Register(&core.Prop{
		ID:    "C19",
		Level: "exploration",
		Rule: "values: every v below 2^22 (quick) / 2^30 (thorough) plus boundary set {2^k-1,2^k,2^k+1} and seeded 62-bit values, each through AppendVarint/SizeVarint/ConsumeVarint against an arithmetic RFC 9000 reference; " +
			"decoder inputs: every byte string of length <= 2, every (first byte, length 0..9) with seeded tails, declared-length x remaining matrix for Consume{Varint,Uint8}Bytes. " +
			"distinct_nontrivial = distinct (function, encoding class or outcome class, boundary/shape bucket) keys observed",
		Floors:      []string{"varint_roundtrip_values", "decode_short_input_rejected", "declared_length_too_large_rejected", "bytes_roundtrip_ok", "decode_accepted", "large_strings_roundtrip_ok", "results_for_empty_destination_are_the_callers"},
		Assumptions: []string{"values above 2^62-1 are outside the statement (AppendVarint/SizeVarint panic there; logged, not judged)", "amd64: int is 64 bits"},
		Run:         runC19,
	})
}

var c19Prefixes = [][]byte{nil, {}, {0xAA}, {1, 2, 3, 4, 5, 6, 7, 8, 9}}

func c19CheckValue(c *core.Ctx, v uint64, pfx []byte, deep bool) {
	want := refVarintEnc(v)
	// destination prefix with spare capacity holding a canary, to see that the
	// prefix is left alone and nothing is written beyond the encoding.
	arena := make([]byte, len(pfx)+16)
	for i := range arena {
		arena[i] = 0x5c
	}
	copy(arena, pfx)
	dst := arena[:len(pfx)]
	var got []byte
	var sz int
	var dv uint64
	var dn int
	pan, pv, where := core.Guard(func() {
		got = quicwire.AppendVarint(dst, v)
		sz = quicwire.SizeVarint(v)
		dv, dn = quicwire.ConsumeVarint(want)
	})
	cls := len(want)
	if pan {
		c.Violationf(fmt.Sprintf("varint:panic:class%d", cls), map[string]any{"v": v, "panic": pv, "where": where}, "varint function panicked for v=%d (<= 2^62-1): %s at %s", v, pv, where)
		return
	}
	if !bytes.Equal(got[:len(pfx)], pfx) {
		c.Violationf(fmt.Sprintf("AppendVarint:prefix-changed:class%d", cls), map[string]any{"v": v, "prefix": core.Hex(pfx), "got": core.Hex(got)}, "AppendVarint changed the destination prefix for v=%d", v)
	}
	if !bytes.Equal(got[len(pfx):], want) {
		c.Violationf(fmt.Sprintf("AppendVarint:wrong-encoding:class%d", cls), map[string]any{"v": v, "want": core.Hex(want), "got": core.Hex(got[len(pfx):])}, "AppendVarint(%d) = %x, RFC 9000 shortest form is %x", v, got[len(pfx):], want)
	}
	if sz != len(want) {
		c.Violationf(fmt.Sprintf("SizeVarint:wrong:class%d", cls), map[string]any{"v": v, "want": len(want), "got": sz}, "SizeVarint(%d) = %d, want %d", v, sz, len(want))
	}
	if dn != len(want) || dv != v {
		c.Violationf(fmt.Sprintf("ConsumeVarint:wrong-roundtrip:class%d", cls), map[string]any{"v": v, "enc": core.Hex(want), "got_v": dv, "got_n": dn}, "ConsumeVarint(%x) = (%d,%d), want (%d,%d)", want, dv, dn, v, len(want))
	}
	if deep {
		// bytes of the arena behind the encoding must still be canary
		for i := len(pfx) + len(want); i < len(arena); i++ {
			if arena[i] != 0x5c && &got[0] == &arena[0] {
				c.Violationf("AppendVarint:wrote-past-encoding", map[string]any{"v": v, "arena": core.Hex(arena)}, "AppendVarint(%d) wrote beyond the encoded bytes", v)
				break
			}
		}
		// decoding what the encoder itself produced
		ev, en := quicwire.ConsumeVarint(got[len(pfx):])
		if ev != v || en != len(want) {
			c.Violationf(fmt.Sprintf("ConsumeVarint:encoder-output:class%d", cls), map[string]any{"v": v, "enc": core.Hex(got[len(pfx):]), "got_v": ev, "got_n": en}, "ConsumeVarint(AppendVarint(%d)) = (%d,%d)", v, ev, en)
		}
		// every truncation of the encoding must be reported as failure
		for l := 0; l < len(want); l++ {
			tv, tn := quicwire.ConsumeVarint(want[:l:l])
			if tn >= 0 {
				c.Violationf(fmt.Sprintf("ConsumeVarint:accepted-truncated:class%d", cls), map[string]any{"v": v, "input": core.Hex(want[:l]), "got_v": tv, "got_n": tn}, "ConsumeVarint accepted %d of %d bytes", l, len(want))
			} else {
				c.Class("decode_short_input_rejected")
			}
		}
		iv, in := quicwire.ConsumeVarintInt64(want)
		if in != len(want) || iv != int64(v) {
			c.Violationf("ConsumeVarintInt64:wrong", map[string]any{"v": v}, "ConsumeVarintInt64(%x) = (%d,%d)", want, iv, in)
		}
	}
}

func c19Boundary() []uint64 {
	set := map[uint64]bool{}
	for k := 0; k <= 62; k++ {
		p := uint64(1) << uint(k)
		for _, d := range []int64{-2, -1, 0, 1, 2} {
			v := uint64(int64(p) + d)
			if v <= quicwire.MaxVarint {
				set[v] = true
			}
		}
	}
	for _, v := range []uint64{0, 1, 62, 63, 64, 65, 16382, 16383, 16384, 16385, 1<<30 - 1, 1 << 30, 1<<30 + 1, 1<<62 - 1, 1<<62 - 2} {
		set[v] = true
	}
	out := make([]uint64, 0, len(set))
	for v := range set {
		out = append(out, v)
	}
	// deterministic order
	for i := 1; i < len(out); i++ {
		for j := i; j > 0 && out[j] < out[j-1]; j-- {
			out[j], out[j-1] = out[j-1], out[j]
		}
	}
	return out
}

func c19DecodeCase(c *core.Ctx, b []byte, tag string) {
	in := make([]byte, len(b))
	copy(in, b)
	in = in[:len(b):len(b)]
	wv, wn := refVarintDec(in)
	var gv uint64
	var gn int
	pan, pv, where := core.Guard(func() { gv, gn = quicwire.ConsumeVarint(in) })
	c.Eval(1)
	first := -1
	if len(b) > 0 {
		first = int(b[0] >> 6)
	}
	if pan {
		c.Violationf(fmt.Sprintf("ConsumeVarint:panic:%s:class%d:len%d", tag, first, len(b)), map[string]any{"input": core.Hex(b), "panic": pv, "where": where}, "ConsumeVarint panicked on %x: %s", b, pv)
		return
	}
	if !bytes.Equal(in, b) {
		c.Violationf("ConsumeVarint:wrote-input", map[string]any{"input": core.Hex(b)}, "ConsumeVarint modified its input")
	}
	if wn < 0 {
		if gn >= 0 {
			c.Violationf(fmt.Sprintf("ConsumeVarint:accepted-short:class%d:len%d", first, len(b)), map[string]any{"input": core.Hex(b), "got_v": gv, "got_n": gn}, "ConsumeVarint(%x) = (%d,%d) but only %d bytes are available", b, gv, gn, len(b))
		}
		c.Class("decode_short_input_rejected")
		c.Distinctf("dec:reject:class%d:len%d", first, len(b))
		return
	}
	if gn != wn || gv != wv {
		c.Violationf(fmt.Sprintf("ConsumeVarint:wrong:class%d", first), map[string]any{"input": core.Hex(b), "want_v": wv, "want_n": wn, "got_v": gv, "got_n": gn}, "ConsumeVarint(%x) = (%d,%d), want (%d,%d)", b, gv, gn, wv, wn)
	}
	c.Class("decode_accepted")
	c.Distinctf("dec:accept:class%d:len%d", first, len(b))
	// result must not depend on bytes after the announced length
	if len(b) > wn {
		alt := make([]byte, len(b))
		copy(alt, b)
		for i := wn; i < len(alt); i++ {
			alt[i] ^= 0xff
		}
		av, an := quicwire.ConsumeVarint(alt)
		if av != gv || an != gn {
			c.Violationf(fmt.Sprintf("ConsumeVarint:reads-beyond-announced:class%d", first), map[string]any{"input": core.Hex(b), "alt": core.Hex(alt)}, "ConsumeVarint result changed when bytes after the announced length changed")
		}
		c.Class("decode_tail_independence_checked")
	}
}

// c19Declared drives ConsumeVarintBytes / ConsumeUint8Bytes with a declared
// length d and r remaining bytes.
func c19Declared(c *core.Ctx, d uint64, r int, varintForm int, rng *core.Rand) {
	body := rng.Bytes(r)
	// --- varint-prefixed
	var hdr []byte
	switch varintForm {
	case 0:
		hdr = refVarintEnc(d)
	default: // non-minimal forms are legal on the wire: 2, 4 or 8 bytes
		n := varintForm
		if n < refVarintLen(d) {
			n = refVarintLen(d)
		}
		hdr = make([]byte, n)
		x := d
		for i := n - 1; i >= 0; i-- {
			hdr[i] = byte(x)
			x >>= 8
		}
		hdr[0] |= byte(bits.TrailingZeros(uint(n))) << 6
	}
	in := append(append([]byte{}, hdr...), body...)
	in = in[:len(in):len(in)]
	snap := append([]byte{}, in...)
	var out []byte
	var n int
	pan, pv, where := core.Guard(func() { out, n = quicwire.ConsumeVarintBytes(in) })
	c.Eval(1)
	bucket := "d<=r"
	if d > uint64(r) {
		bucket = "d>r"
	}
	c.Distinctf("ConsumeVarintBytes:%s:hdr%d:dbits%d", bucket, len(hdr), bits.Len64(d))
	if pan {
		c.Violationf(fmt.Sprintf("ConsumeVarintBytes:panic:%s:hdr%d", bucket, len(hdr)), map[string]any{"declared": d, "remaining": r, "header": core.Hex(hdr), "panic": pv, "where": where}, "ConsumeVarintBytes panicked: declared %d, remaining %d: %s", d, r, pv)
	} else if d > uint64(r) {
		if n >= 0 || out != nil {
			c.Violationf(fmt.Sprintf("ConsumeVarintBytes:accepted-too-long:hdr%d", len(hdr)), map[string]any{"declared": d, "remaining": r, "header": core.Hex(hdr), "n": n, "outlen": len(out)}, "ConsumeVarintBytes accepted a declared length %d with only %d bytes remaining", d, r)
		}
		c.Class("declared_length_too_large_rejected")
	} else {
		if n != len(hdr)+int(d) || !bytes.Equal(out, body[:d]) {
			c.Violationf(fmt.Sprintf("ConsumeVarintBytes:wrong:hdr%d", len(hdr)), map[string]any{"declared": d, "remaining": r, "header": core.Hex(hdr), "n": n, "outlen": len(out)}, "ConsumeVarintBytes returned n=%d len=%d for declared %d remaining %d", n, len(out), d, r)
		}
		c.Class("bytes_roundtrip_ok")
	}
	if !bytes.Equal(in, snap) {
		c.Violationf("ConsumeVarintBytes:wrote-input", nil, "ConsumeVarintBytes modified its input")
	}
	// --- uint8-prefixed (d < 256 only)
	if d < 256 && varintForm == 0 {
		in8 := append([]byte{byte(d)}, body...)
		in8 = in8[:len(in8):len(in8)]
		var o8 []byte
		var n8 int
		pan, pv, where = core.Guard(func() { o8, n8 = quicwire.ConsumeUint8Bytes(in8) })
		c.Eval(1)
		c.Distinctf("ConsumeUint8Bytes:%s", bucket)
		if pan {
			c.Violationf("ConsumeUint8Bytes:panic:"+bucket, map[string]any{"declared": d, "remaining": r, "panic": pv, "where": where}, "ConsumeUint8Bytes panicked: %s", pv)
		} else if d > uint64(r) {
			if n8 >= 0 || o8 != nil {
				c.Violationf("ConsumeUint8Bytes:accepted-too-long", map[string]any{"declared": d, "remaining": r}, "ConsumeUint8Bytes accepted declared %d with %d remaining", d, r)
			}
			c.Class("declared_length_too_large_rejected")
		} else {
			if n8 != 1+int(d) || !bytes.Equal(o8, body[:d]) {
				c.Violationf("ConsumeUint8Bytes:wrong", map[string]any{"declared": d, "remaining": r, "n": n8}, "ConsumeUint8Bytes returned n=%d for declared %d remaining %d", n8, d, r)
			}
			c.Class("bytes_roundtrip_ok")
		}
	}
}

func c19AppendBytes(c *core.Ctx, l int, rng *core.Rand) {
	v := rng.Bytes(l)
	pfx := rng.Bytes(rng.IntN(5))
	arena := make([]byte, len(pfx), len(pfx)+rng.Of(0, 1, 9, l+20))
	copy(arena, pfx)
	vs := append([]byte{}, v...)
	var out []byte
	pan, pv, _ := core.Guard(func() { out = quicwire.AppendVarintBytes(arena, v) })
	c.Eval(1)
	if pan {
		c.Violationf("AppendVarintBytes:panic", map[string]any{"len": l, "panic": pv}, "AppendVarintBytes panicked for %d bytes: %s", l, pv)
		return
	}
	want := append(append(append([]byte{}, pfx...), refVarintEnc(uint64(l))...), vs...)
	if !bytes.Equal(out, want) || !bytes.Equal(v, vs) {
		c.Violationf(fmt.Sprintf("AppendVarintBytes:wrong:class%d", refVarintLen(uint64(l))), map[string]any{"len": l, "got": core.Hex(out), "want": core.Hex(want)}, "AppendVarintBytes wrong for %d bytes", l)
	}
	b, n := quicwire.ConsumeVarintBytes(out[len(pfx):])
	if n != len(out)-len(pfx) || !bytes.Equal(b, vs) {
		c.Violationf("VarintBytes:roundtrip", map[string]any{"len": l}, "ConsumeVarintBytes(AppendVarintBytes(v)) != v for %d bytes", l)
	}
	c.Class("bytes_roundtrip_ok")
	c.Distinctf("AppendVarintBytes:class%d", refVarintLen(uint64(l)))
	if l == 256 || l == 257 {
		// not representable with a one-byte length: refusing (panic) is fine, returning something that does not round-trip is not
		var o8 []byte
		pan, _, _ := core.Guard(func() { o8 = quicwire.AppendUint8Bytes(arena, v) })
		c.Eval(1)
		if !pan {
			b, n := quicwire.ConsumeUint8Bytes(o8[len(pfx):])
			if n != len(o8)-len(pfx) || !bytes.Equal(b, vs) {
				c.Violationf("Uint8Bytes:roundtrip-too-long", map[string]any{"len": l}, "AppendUint8Bytes accepted a %d-byte string and the result does not decode back to it", l)
			}
		} else {
			c.Class("uint8_bytes_too_long_refused")
		}
	}
	if l <= 255 {
		var o8 []byte
		pan, pv, _ := core.Guard(func() { o8 = quicwire.AppendUint8Bytes(arena, v) })
		c.Eval(1)
		w8 := append(append(append([]byte{}, pfx...), byte(l)), vs...)
		if pan || !bytes.Equal(o8, w8) {
			c.Violationf("AppendUint8Bytes:wrong", map[string]any{"len": l, "panic": pv}, "AppendUint8Bytes wrong for %d bytes", l)
		} else {
			b, n := quicwire.ConsumeUint8Bytes(o8[len(pfx):])
			if n != 1+l || !bytes.Equal(b, vs) {
				c.Violationf("Uint8Bytes:roundtrip", map[string]any{"len": l}, "ConsumeUint8Bytes(AppendUint8Bytes(v)) != v")
			}
		}
	}
}

func runC19(c *core.Ctx) {
	// 1. exhaustive small domain, chunked
	topBits := uint(c.Pick(22, 30))
	chunkBits := uint(c.Pick(16, 22))
	for ch := uint64(0); ch < 1<<(topBits-chunkBits); ch++ {
		if !c.Next() {
			continue
		}
		lo, hi := ch<<chunkBits, (ch+1)<<chunkBits
		pfx := c19Prefixes[ch%uint64(len(c19Prefixes))]
		for v := lo; v < hi; v++ {
			c19CheckValue(c, v, pfx, v&0xfff == 0 || v < 70000)
		}
		c.Eval(int64(hi - lo))
		c.ClassN("varint_roundtrip_values", int64(hi-lo))
		c.Distinctf("exhaustive-chunk:%d", ch)
	}
	c.Exhaustive(fmt.Sprintf("AppendVarint/SizeVarint/ConsumeVarint on every value below 2^%d", topBits))

	// 2. boundary set
	for _, v := range c19Boundary() {
		if !c.Next() {
			continue
		}
		for _, pfx := range c19Prefixes {
			c19CheckValue(c, v, pfx, true)
		}
		c.Eval(int64(len(c19Prefixes)))
		c.ClassN("varint_roundtrip_values", 1)
		c.Distinctf("boundary:%d", v)
		c.Sample("boundary value", map[string]any{"v": v, "encoding": core.Hex(refVarintEnc(v))})
	}

	// 3. seeded 62-bit values, in chunks
	nseed := c.Pick(1000000, 100000000)
	per := c.Pick(20000, 500000)
	for ch := 0; ch < nseed/per; ch++ {
		if !c.Next() {
			continue
		}
		rng := c.CaseRng()
		for i := 0; i < per; i++ {
			// spread over all magnitudes
			v := rng.Uint64() >> uint(2+rng.IntN(62))
			c19CheckValue(c, v, c19Prefixes[i&3], i&0xff == 0)
		}
		c.Eval(int64(per))
		c.ClassN("varint_roundtrip_values", int64(per))
		c.Distinctf("seeded-chunk:%d", ch)
	}

	// 4. decoder: all strings of length <= 2
	for l := 0; l <= 2; l++ {
		total := 1 << (8 * uint(l))
		step := 4096
		for lo := 0; lo < total; lo += step {
			if !c.Next() {
				continue
			}
			for x := lo; x < lo+step && x < total; x++ {
				b := make([]byte, l)
				for i := 0; i < l; i++ {
					b[i] = byte(x >> (8 * uint(l-1-i)))
				}
				c19DecodeCase(c, b, "short")
			}
		}
	}
	c.Exhaustive("ConsumeVarint on every byte string of length 0, 1 and 2")
	// 5. decoder: first byte x length 0..9 with seeded tails
	reps := c.Pick(4, 64)
	for fb := 0; fb < 256; fb++ {
		if !c.Next() {
			continue
		}
		rng := c.CaseRng()
		for l := 1; l <= 9; l++ {
			for r := 0; r < reps; r++ {
				b := rng.Bytes(l)
				b[0] = byte(fb)
				switch r {
				case 0:
					for i := 1; i < l; i++ {
						b[i] = 0
					}
				case 1:
					for i := 1; i < l; i++ {
						b[i] = 0xff
					}
				}
				c19DecodeCase(c, b, "fb")
			}
		}
		if fb%64 == 1 {
			c.Sample("decoder input", map[string]any{"first_byte": fb, "lengths": "1..9", "tails": reps})
		}
	}
	c.Exhaustive("ConsumeVarint on every (first byte, length 0..9) pair")

	// 6. declared length x remaining matrix
	decl := []uint64{0, 1, 2, 62, 63, 64, 65, 254, 255, 256, 257, 16383, 16384, 16385, 65535, 65536, 69999, 70000, 1<<30 - 1, 1 << 30, 1<<31 - 1, 1 << 31, 1<<32 - 1, 1 << 32, 1 << 40, 1<<61 - 1, 1 << 61, 1<<62 - 2, 1<<62 - 1}
	for k := 3; k < 62; k += c.Pick(6, 1) {
		decl = append(decl, 1<<uint(k), 1<<uint(k)+1, 1<<uint(k)-1)
	}
	for _, d := range decl {
		rs := map[int]bool{0: true, 1: true, 7: true}
		if d <= 70001 {
			for _, x := range []int64{int64(d) - 1, int64(d), int64(d) + 1} {
				if x >= 0 {
					rs[int(x)] = true
				}
			}
		} else {
			rs[70000] = true
		}
		for r := range rs {
			_ = r
		}
		keys := []int{}
		for r := range rs {
			keys = append(keys, r)
		}
		for i := 1; i < len(keys); i++ {
			for j := i; j > 0 && keys[j] < keys[j-1]; j-- {
				keys[j], keys[j-1] = keys[j-1], keys[j]
			}
		}
		for _, r := range keys {
			for _, form := range []int{0, 2, 4, 8} {
				if !c.Next() {
					continue
				}
				c19Declared(c, d, r, form, c.CaseRng())
				if d == 1<<62-1 && form == 0 {
					c.Sample("declared length", map[string]any{"declared": d, "remaining": r})
				}
			}
		}
	}
	// 7. Append*Bytes round trips
	lens := []int{0, 1, 62, 63, 64, 65, 254, 255, 256, 257, 16383, 16384, 16385, 70000}
	for i := 0; i < c.Pick(200, 5000); i++ {
		lens = append(lens, -1)
	}
	// what an Append* call returns for an EMPTY destination is the caller's: appending to it (into whatever capacity it
	// has) must not change what later calls return, nor what earlier calls returned
	if c.Next() {
		var kept [][]byte
		for v := uint64(0); v < 300; v++ {
			r1 := quicwire.AppendVarint(nil, v)
			kept = append(kept, r1)
			r2 := quicwire.AppendVarint([]byte{}, v)
			// the caller goes on using its slices
			r1 = append(r1, 0xaa, 0xbb, 0xcc, 0xdd, 0xee, 0xff, 0x11, 0x22, 0x33)
			r2 = append(r2[:len(r2):cap(r2)], bytes.Repeat([]byte{0x5a}, 70)...)
			_ = r1
			_ = r2
		}
		bad := false
		for v := uint64(0); v < 300 && !bad; v++ {
			c.Eval(1)
			want := refVarintEnc(v)
			if got := quicwire.AppendVarint(nil, v); !bytes.Equal(got, want) {
				c.Violationf("AppendVarint:result-shared-with-later-calls", map[string]any{"value": v, "got": core.Hex(got), "want": core.Hex(want)}, "AppendVarint(nil, %d) returns %x after the caller appended to the results of earlier calls", v, got)
				bad = true
			}
			if !bytes.Equal(kept[v][:len(want)], want) {
				c.Violationf("AppendVarint:earlier-result-changed", map[string]any{"value": v}, "the slice AppendVarint(nil, %d) returned earlier changed when the caller appended to another result", v)
				bad = true
			}
		}
		for l := 0; l < 70 && !bad; l++ {
			s1 := quicwire.AppendVarintBytes(nil, bytes.Repeat([]byte{byte(l)}, l))
			s1 = append(s1, 0xde, 0xad)
			s2 := quicwire.AppendUint8Bytes(nil, bytes.Repeat([]byte{byte(l)}, l))
			s2 = append(s2, 0xbe, 0xef)
		}
		for l := 0; l < 70 && !bad; l++ {
			c.Eval(1)
			v := bytes.Repeat([]byte{byte(l)}, l)
			if got := quicwire.AppendVarintBytes(nil, v); !bytes.Equal(got, append(refVarintEnc(uint64(l)), v...)) {
				c.Violationf("AppendVarintBytes:result-shared-with-later-calls", map[string]any{"len": l}, "AppendVarintBytes(nil, %d bytes) is wrong after the caller appended to earlier results", l)
				bad = true
			}
		}
		if !bad {
			c.Class("results_for_empty_destination_are_the_callers")
		}
	}
	// large strings: around 2^20, 2^24 (16 MiB), 2^25, 2^26; the thorough tier goes to the 4/8-byte varint border at 2^30
	big := []int{1 << 20, 1<<24 - 1, 1 << 24, 1<<24 + 1, 1<<25 + 3, 1 << 26}
	if c.Thorough() {
		big = append(big, 1<<28+5, 1<<30-1, 1<<30, 1<<30+1)
	}
	for _, l := range big {
		if !c.Next() {
			continue
		}
		c.Eval(1)
		v := make([]byte, l)
		marks := []int{0, 1, l / 3, l / 2, l - 2, l - 1}
		for k, p := range marks {
			v[p] = byte(0xa0 + k)
		}
		var out, back []byte
		var n int
		pan, pv, _ := core.Guard(func() {
			out = quicwire.AppendVarintBytes(nil, v)
			back, n = quicwire.ConsumeVarintBytes(out)
		})
		hdr := refVarintEnc(uint64(l))
		d := map[string]any{"len": l}
		switch {
		case pan:
			c.Violationf("VarintBytes:large:panic", d, "Append/ConsumeVarintBytes panicked for a %d-byte string: %s", l, pv)
		case len(out) != len(hdr)+l || !bytes.Equal(out[:len(hdr)], hdr):
			c.Violationf("AppendVarintBytes:large:wrong", d, "AppendVarintBytes of a %d-byte string has length %d / a wrong prefix", l, len(out))
		case n != len(out) || len(back) != l:
			c.Violationf("VarintBytes:large:roundtrip", d, "a %d-byte string does not round-trip: ConsumeVarintBytes returned n=%d, %d bytes", l, n, len(back))
		default:
			ok := true
			for k, p := range marks {
				ok = ok && back[p] == byte(0xa0+k) && out[len(hdr)+p] == byte(0xa0+k)
			}
			if !ok || !bytes.Equal(back[l/2-64:l/2+64], v[l/2-64:l/2+64]) {
				c.Violationf("VarintBytes:large:roundtrip", d, "a %d-byte string does not round-trip (content differs)", l)
			} else {
				c.Class("large_strings_roundtrip_ok")
				c.Distinctf("AppendVarintBytes:large:%d", l)
			}
		}
		out, back, v = nil, nil, nil
		runtime.GC()
	}
	for _, l := range lens {
		if !c.Next() {
			continue
		}
		rng := c.CaseRng()
		if l < 0 {
			l = rng.IntN(rng.Of(70, 300, 20000))
		}
		c19AppendBytes(c, l, rng)
	}
	// 8. fixed-width consumers
	for l := 0; l <= 12; l++ {
		if !c.Next() {
			continue
		}
		rng := c.CaseRng()
		for rep := 0; rep < 50; rep++ {
			b := rng.Bytes(l)
			b = b[:l:l]
			var v32 uint32
			var n32 int
			var v64 uint64
			var n64 int
			pan, pv, _ := core.Guard(func() { v32, n32 = quicwire.ConsumeUint32(b); v64, n64 = quicwire.ConsumeUint64(b) })
			c.Eval(2)
			if pan {
				c.Violationf("ConsumeUint:panic", map[string]any{"input": core.Hex(b), "panic": pv}, "ConsumeUint32/64 panicked on %d bytes", l)
				continue
			}
			w32ok, w64ok := l >= 4, l >= 8
			var w32 uint32
			var w64 uint64
			if w32ok {
				w32 = uint32(b[0])<<24 | uint32(b[1])<<16 | uint32(b[2])<<8 | uint32(b[3])
			}
			if w64ok {
				for i := 0; i < 8; i++ {
					w64 = w64<<8 | uint64(b[i])
				}
			}
			if (w32ok && (n32 != 4 || v32 != w32)) || (!w32ok && n32 >= 0) {
				c.Violationf("ConsumeUint32:wrong", map[string]any{"input": core.Hex(b)}, "ConsumeUint32 wrong on %d bytes", l)
			}
			if (w64ok && (n64 != 8 || v64 != w64)) || (!w64ok && n64 >= 0) {
				c.Violationf("ConsumeUint64:wrong", map[string]any{"input": core.Hex(b)}, "ConsumeUint64 wrong on %d bytes", l)
			}
			if !w32ok {
				c.Class("decode_short_input_rejected")
			}
		}
		c.Distinctf("fixedwidth:len%d", l)
	}
	// out-of-domain values: informational only
	if c.Next() {
		pan, _, _ := core.Guard(func() { quicwire.AppendVarint(nil, 1<<62) })
		c.Info("AppendVarint(2^62) panics (outside the statement, not judged)", pan)
	}
}
