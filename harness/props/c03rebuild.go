package props

import (
	"bytes"
	"crypto/cipher"
	"crypto/elliptic"
	"encoding/base64"
	"encoding/hex"
	"encoding/pem"
	"fmt"
	"math/big"

	hpke "github.com/cisco/go-hpke"

	"verifharness/internal/core"
	"verifharness/internal/ref"
)

// Structure-aware hostile encodings: the framing is well-formed (lengths are
// consistent, so the decoder gets past its length checks) and the content is
// hostile (too short, too long, invalid group elements, degenerate counts).

func ff(n int) []byte { return bytes.Repeat([]byte{0xff}, n) }

func rebuildType1Request(r *core.Rand) [][]byte {
	var out [][]byte
	for _, el := range [][]byte{make([]byte, 49), ff(49), append([]byte{2}, ff(48)...), append([]byte{4}, r.Bytes(48)...), r.Bytes(49)} {
		out = append(out, append([]byte{0, 1, byte(r.IntN(256))}, el...))
	}
	return out
}

func rebuildType2Request(r *core.Rand) [][]byte {
	var out [][]byte
	for _, el := range [][]byte{make([]byte, 256), ff(256), r.Bytes(256), append([]byte{0}, r.Bytes(255)...)} {
		out = append(out, append([]byte{0, 2, byte(r.IntN(256))}, el...))
	}
	return out
}

func rebuildType5Request(r *core.Rand) [][]byte {
	var out [][]byte
	mk := func(body []byte, form int) []byte {
		o := []byte{0, 5, byte(r.IntN(256))}
		v := varintForm(uint64(len(body)), form)
		if v == nil {
			v = refVarintEnc(uint64(len(body)))
		}
		return append(append(o, v...), body...)
	}
	for _, n := range []int{0, 1, 2, 3, 64, 511, 512, 2000} {
		for _, fill := range []int{0, 1, 2} {
			body := make([]byte, 32*n)
			switch fill {
			case 1:
				body = ff(32 * n)
			case 2:
				body = r.Bytes(32 * n)
			}
			for _, form := range []int{1, 2, 4, 8} {
				out = append(out, mk(body, form))
			}
		}
	}
	for _, l := range []int{1, 31, 33, 63} {
		out = append(out, mk(r.Bytes(l), 1))
	}
	return out
}

func rebuildType5Response(r *core.Rand, honest []byte) [][]byte {
	var out [][]byte
	hv, hk := refVarintDec(honest)
	n := int(hv) / 32
	proof := honest[hk+int(hv):]
	mk := func(body, proof []byte, form int) []byte {
		v := varintForm(uint64(len(body)), form)
		if v == nil {
			v = refVarintEnc(uint64(len(body)))
		}
		return append(append(append([]byte{}, v...), body...), proof...)
	}
	for _, m := range []int{0, 1, n - 1, n, n + 1, 2 * n, 600} {
		if m < 0 {
			continue
		}
		for _, fill := range []int{0, 1, 2} {
			body := make([]byte, 32*m)
			switch fill {
			case 1:
				body = ff(32 * m)
			case 2:
				body = r.Bytes(32 * m)
			}
			for _, pr := range [][]byte{proof, nil, proof[:63], make([]byte, 64), ff(64), append(clone(proof), 1)} {
				out = append(out, mk(body, pr, 1+3*(m%2)))
			}
		}
	}
	// honest elements, hostile proofs
	body := honest[hk : hk+int(hv)]
	for _, pr := range [][]byte{nil, proof[:1], proof[:32], proof[:63], make([]byte, 64), ff(64), r.Bytes(64), r.Bytes(128)} {
		out = append(out, mk(body, pr, 2), mk(body, pr, 8))
	}
	return out
}

func rebuildT3Request(r *core.Rand, honest []byte, nk *nameKeyInfo) [][]byte {
	var out [][]byte
	p, ok := t3ParseRequest(honest)
	if !ok {
		return nil
	}
	// ciphertext of every small length and around the KEM/AEAD sizes, signature present
	for _, l := range []int{1, 2, 15, 16, 17, 31, 32, 33, 47, 48, 49, 63, 64, 100, 290, 291, 65535} {
		for _, content := range []int{0, 1} {
			ct := r.Bytes(l)
			if content == 1 {
				copy(ct, p.Ciphertext)
			}
			out = append(out, t3Request(p.RequestKey, p.NameKeyID, ct, p.Signature))
			out = append(out, t3Request(p.RequestKey, p.NameKeyID, ct, r.Bytes(96)))
		}
	}
	// properly sealed inner requests with hostile plaintext
	if nk != nil {
		plains := [][]byte{nil, {7}, r.Bytes(100), r.Bytes(256), r.Bytes(257), append(r.Bytes(257), 0), append(r.Bytes(257), 0, 0), append(r.Bytes(257), 0xff, 0xff),
			t3Inner(7, r.Bytes(256), nil), t3Inner(7, r.Bytes(256), make([]byte, 32)), t3Inner(7, r.Bytes(256), r.Bytes(5000)), append(t3Inner(7, r.Bytes(256), refPadOrigin("origin.example")), 1, 2, 3),
			t3Inner(7, ff(256), refPadOrigin("origin.example")), t3Inner(7, make([]byte, 256), refPadOrigin("origin.example")), t3Inner(7, r.Bytes(256), refPadOrigin(""))}
		// origin names that mean something to code which formats, truncates or logs text (none is registered)
		for _, name := range HostileNames() {
			plains = append(plains, t3Inner(7, r.Bytes(256), refPadOrigin(name)))
		}
		for _, pt := range plains {
			ct, _, err := nk.seal(r, p.RequestKey, pt)
			if err != nil {
				continue
			}
			out = append(out, t3Request(p.RequestKey, p.NameKeyID, ct, p.Signature))
			out = append(out, t3Request(p.RequestKey, p.NameKeyID, ct, nil)) // signature missing
		}
	}
	// request key hostile
	for _, k := range hostileKeyEncodings(r, p.RequestKey) {
		if len(k) == 49 {
			out = append(out, t3Request(k, p.NameKeyID, p.Ciphertext, p.Signature))
			// and sealed FOR that key (AAD carries the hostile bytes), so that decryption succeeds and the key is decoded after it
			if nk != nil {
				if ct, _, err := nk.seal(r, k, t3Inner(7, r.Bytes(256), refPadOrigin("origin.example"))); err == nil {
					out = append(out, t3Request(k, p.NameKeyID, ct, p.Signature), t3Request(k, p.NameKeyID, ct, r.Bytes(96)))
				}
			}
		}
	}
	return out
}

func rebuildBatchRequest(r *core.Rand, t1, t2 []byte) [][]byte {
	var out [][]byte
	mk := func(form int, elems ...[]byte) []byte {
		body := bytes.Join(elems, nil)
		v := varintForm(uint64(len(body)), form)
		if v == nil {
			v = refVarintEnc(uint64(len(body)))
		}
		return append(append([]byte{}, v...), body...)
	}
	bad1 := append([]byte{0, 1, 9}, ff(49)...)
	bad2 := append([]byte{0, 2, 9}, ff(256)...)
	t3like := append([]byte{0, 3}, r.Bytes(60)...)
	t5like := append([]byte{0, 5, 1, 32}, r.Bytes(32)...)
	for _, form := range []int{1, 2, 4, 8} {
		out = append(out, mk(form), mk(form, t1), mk(form, t2), mk(form, t1, t2, t1), mk(form, bad1), mk(form, bad2, t1), mk(form, t1, bad1, t2, bad2),
			mk(form, t1, t3like), mk(form, t5like), mk(form, t1[:10]), mk(form, t1, t2[:100]), mk(form, t1, []byte{0}), mk(form, t1, []byte{0, 1}), mk(form, t1, []byte{0, 2, 3}))
	}
	many := make([][]byte, 300)
	for i := range many {
		many[i] = t1
	}
	out = append(out, mk(2, many...))
	return out
}

func rebuildBatchResponse(r *core.Rand) [][]byte {
	var out [][]byte
	mk := func(form int, entries ...[]byte) []byte {
		body := bytes.Join(entries, nil)
		v := varintForm(uint64(len(body)), form)
		if v == nil {
			v = refVarintEnc(uint64(len(body)))
		}
		return append(append([]byte{}, v...), body...)
	}
	absent := []byte{0}
	p1 := append([]byte{1, 0, 1}, r.Bytes(145)...)
	p2 := append([]byte{1, 0, 2}, r.Bytes(256)...)
	for _, form := range []int{1, 2, 4, 8} {
		out = append(out, mk(form), mk(form, absent), mk(form, absent, absent, absent), mk(form, p1), mk(form, p2), mk(form, p1, absent, p2),
			mk(form, p1[:100]), mk(form, p2[:3]), mk(form, []byte{1}), mk(form, []byte{1, 0}), mk(form, []byte{2}), mk(form, []byte{0xff}),
			mk(form, []byte{1, 0, 3}, r.Bytes(300)), mk(form, []byte{1, 0, 5}, r.Bytes(300)), mk(form, []byte{1, 0xff, 0xff}), mk(form, absent, []byte{1, 0, 1}))
	}
	many := make([][]byte, 5000)
	for i := range many {
		many[i] = absent
	}
	out = append(out, mk(2, many...))
	return out
}

// t3ResponseSealer derives, from the issuer's name-key seed and an encoded request, the response secret the
// issuer holds for that request, and encrypts arbitrary payloads the way the issuer encrypts its blind signature.
type t3ResponseSealer struct {
	suite  hpke.CipherSuite
	enc    []byte
	secret []byte
}

func newT3ResponseSealer(seed, request []byte) (*t3ResponseSealer, error) {
	p, ok := t3ParseRequest(request)
	if !ok || len(p.Ciphertext) < 32 {
		return nil, fmt.Errorf("request does not parse")
	}
	suite, err := hpke.AssembleCipherSuite(hpke.DHKEM_X25519, hpke.KDF_HKDF_SHA256, hpke.AEAD_AESGCM128)
	if err != nil {
		return nil, err
	}
	sk, _, err := suite.KEM.DeriveKeyPair(seed)
	if err != nil {
		return nil, err
	}
	ctx, err := hpke.SetupBaseR(suite, sk, p.Ciphertext[:32], []byte("TokenRequest"))
	if err != nil {
		return nil, err
	}
	return &t3ResponseSealer{suite: suite, enc: clone(p.Ciphertext[:32]), secret: ctx.Export([]byte("TokenResponse"), suite.AEAD.KeySize())}, nil
}

func (t *t3ResponseSealer) aead(responseNonce []byte) (cipher.AEAD, []byte, error) {
	salt := append(clone(t.enc), responseNonce...)
	prk := t.suite.KDF.Extract(salt, t.secret)
	key := t.suite.KDF.Expand(prk, []byte("key"), t.suite.AEAD.KeySize())
	nonce := t.suite.KDF.Expand(prk, []byte("nonce"), t.suite.AEAD.NonceSize())
	a, err := t.suite.AEAD.New(key)
	return a, nonce, err
}

func (t *t3ResponseSealer) seal(responseNonce, payload []byte) []byte {
	a, nonce, err := t.aead(responseNonce)
	must(err)
	return append(clone(responseNonce), a.Seal(nil, nonce, payload, nil)...)
}

func (t *t3ResponseSealer) open(resp []byte) ([]byte, error) {
	if len(resp) < 16 {
		return nil, fmt.Errorf("short")
	}
	a, nonce, err := t.aead(resp[:16])
	if err != nil {
		return nil, err
	}
	return a.Open(nil, nonce, resp[16:], nil)
}

// rebuildT3Response: correctly encrypted responses whose plaintext is hostile (what an issuer holding the name
// key can send): every short length, modulus-sized garbage, values >= N, padded and over-long payloads.
func rebuildT3Response(r *core.Rand, t *t3ResponseSealer, good, modulus []byte) [][]byte {
	var out [][]byte
	k := len(modulus)
	plains := [][]byte{nil, {0}, {1}, r.Bytes(1), r.Bytes(2), r.Bytes(31), r.Bytes(k - 1), good[:k-1], good[1:], r.Bytes(k), make([]byte, k), ff(k), clone(modulus),
		append([]byte{0}, good...), append(clone(good), 0), append(make([]byte, k), good...), r.Bytes(k + 1), r.Bytes(2 * k), r.Bytes(2*k + 1), r.Bytes(4096), r.Bytes(65536)}
	nm1 := new(big.Int).Sub(new(big.Int).SetBytes(modulus), big.NewInt(1))
	plains = append(plains, nm1.FillBytes(make([]byte, k)), new(big.Int).Add(nm1, big.NewInt(2)).FillBytes(make([]byte, k)), big.NewInt(1).FillBytes(make([]byte, k)))
	for l := 3; l < 40; l += 5 {
		plains = append(plains, r.Bytes(l))
	}
	for _, pt := range plains {
		out = append(out, t.seal(r.Bytes(16), pt))
	}
	return out
}

// rebuildTokenKeyDER: SubjectPublicKeyInfo structures whose framing is well-formed DER and whose content is hostile:
// empty / one-byte / odd BIT STRINGs, every unused-bits count (also with the key stored shifted accordingly), empty
// or wrong-typed inner structures, empty / negative / zero / huge INTEGERs, missing or extra elements.
func rebuildTokenKeyDER(r *core.Rand, n *big.Int, e int, pssAlg, rsaAlg []byte) [][]byte {
	seq := func(parts ...[]byte) []byte {
		var body []byte
		for _, p := range parts {
			body = append(body, p...)
		}
		return tlv(0x30, body, 0)
	}
	big2 := func(tag byte, body []byte) []byte {
		// DER length for bodies up to 65535 octets
		return tlv(tag, body, 0)
	}
	rsaKey := func(nb, eb []byte) []byte { return seq(big2(2, nb), big2(2, eb)) }
	nb := derInt(n)
	eb := derInt(big.NewInt(int64(e)))
	good := rsaKey(nb, eb)
	bitstr := func(unused byte, content []byte) []byte { return big2(3, append([]byte{unused}, content...)) }
	var out [][]byte
	for _, alg := range [][]byte{pssAlg, rsaAlg} {
		spki := func(bits []byte) []byte { return seq(alg, bits) }
		out = append(out,
			spki(big2(3, nil)),               // empty BIT STRING (no unused-bits octet)
			spki(big2(3, []byte{0})),         // unused-bits octet only
			spki(big2(3, []byte{7})),         // unused bits without content
			spki(bitstr(0, []byte{0x30})),    // one content byte
			spki(bitstr(0, []byte{0x30, 0})), // empty inner SEQUENCE
			spki(bitstr(0, seq())),
			spki(bitstr(0, seq(big2(2, nb)))),                           // exponent missing
			spki(bitstr(0, seq(big2(2, nb), big2(2, eb), big2(2, eb)))), // extra element
			spki(bitstr(0, rsaKey(nil, eb))),                            // empty INTEGER
			spki(bitstr(0, rsaKey(nb, nil))),
			spki(bitstr(0, rsaKey([]byte{0}, eb))),                     // modulus zero
			spki(bitstr(0, rsaKey(nb, []byte{0}))),                     // exponent zero
			spki(bitstr(0, rsaKey(append([]byte{0xff}, nb...), eb))),   // negative modulus
			spki(bitstr(0, rsaKey(nb, []byte{0xff, 0xff}))),            // negative exponent
			spki(bitstr(0, rsaKey(nb, bytes.Repeat([]byte{0x7f}, 9)))), // exponent beyond 64 bits
			spki(bitstr(0, rsaKey(nb, bytes.Repeat([]byte{0x7f}, 300)))),
			spki(bitstr(0, big2(4, good))),            // OCTET STRING instead of SEQUENCE
			spki(big2(4, append([]byte{0}, good...))), // wrong outer tag for the key
			seq(alg),                    // key missing
			seq(bitstr(0, good)),        // algorithm missing
			seq(seq(), bitstr(0, good)), // empty algorithm
			seq(alg, bitstr(0, good), bitstr(0, good)),    // two keys
			tlv(0x30, append(alg, bitstr(0, good)...), 3), // indefinite length
		)
		// every unused-bits count: the same content with the count set, and the key stored shifted left by that many bits
		for u := byte(1); u <= 8; u++ {
			out = append(out, spki(bitstr(u, good)))
			sh := make([]byte, len(good)+1)
			var carry byte
			for i := len(good) - 1; i >= 0; i-- {
				sh[i+1] = good[i]<<(u%8) | carry
				carry = good[i] >> (8 - u%8)
			}
			sh[0] = carry
			if u < 8 {
				out = append(out, spki(bitstr(u, sh[1:])), spki(bitstr(u, sh)))
			}
		}
	}
	// AlgorithmIdentifier with something more: an extra element inside the SEQUENCE after the parameters, the parameters
	// SEQUENCE extended by an element, NULL parameters doubled
	for _, alg := range [][]byte{pssAlg, rsaAlg} {
		body := alg[2:]
		if alg[1]&0x80 != 0 {
			body = alg[2+int(alg[1]&0x7f):]
		}
		for _, extra := range [][]byte{{5, 0}, {2, 1, 0}, {0x30, 0}, {4, 2, 1, 2}, {5, 0, 5, 0}} {
			out = append(out, seq(tlv(0x30, append(clone(body), extra...), 0), bitstr(0, good)))
		}
	}
	// RSASSA-PSS-params with something more INSIDE the parameters SEQUENCE: the explicit trailerField [3], an unknown [4],
	// a NULL, a repeated [2], elements in another order, saltLength missing
	{
		kids := func(b []byte) [][]byte { // the TLVs inside a definite-length constructed value (short and 0x81/0x82 lengths)
			var out [][]byte
			for len(b) >= 2 {
				l, h := int(b[1]), 2
				if b[1] == 0x81 && len(b) >= 3 {
					l, h = int(b[2]), 3
				} else if b[1] == 0x82 && len(b) >= 4 {
					l, h = int(b[2])<<8|int(b[3]), 4
				}
				if h+l > len(b) {
					break
				}
				out = append(out, b[:h+l])
				b = b[h+l:]
			}
			return out
		}
		content := func(tlvb []byte) []byte {
			h := 2
			if tlvb[1] == 0x81 {
				h = 3
			} else if tlvb[1] == 0x82 {
				h = 4
			}
			return tlvb[h:]
		}
		ak := kids(content(pssAlg))
		if len(ak) == 2 {
			pk := kids(content(ak[1]))
			join := func(parts ...[]byte) []byte { return bytes.Join(parts, nil) }
			mkAlg := func(params []byte) []byte { return tlv(0x30, join(ak[0], tlv(0x30, params, 0)), 0) }
			all := join(pk...)
			variants := [][]byte{
				join(all, []byte{0xa3, 3, 2, 1, 1}), join(all, []byte{0xa4, 3, 2, 1, 1}), join(all, []byte{5, 0}), join(all, []byte{0xa3, 0}), join(all, []byte{2, 1, 1}),
				join(all, []byte{0xa3, 3, 2, 1, 1}, []byte{0xa3, 3, 2, 1, 1}), join(all, []byte{0x30, 0}),
			}
			if len(pk) == 3 {
				variants = append(variants, join(all, pk[2]), join(pk[0], pk[1]), join(pk[1], pk[0], pk[2]), join(pk[0], pk[2], pk[1]), join(pk[2]), nil)
			}
			for _, v := range variants {
				out = append(out, seq(mkAlg(v), bitstr(0, good)))
			}
		}
	}
	// the key as TEXT: base64 (standard, URL, unpadded), hex, PEM - none of them is DER
	{
		der := seq(pssAlg, bitstr(0, good))
		out = append(out, []byte(base64.StdEncoding.EncodeToString(der)), []byte(base64.URLEncoding.EncodeToString(der)), []byte(base64.RawURLEncoding.EncodeToString(der)),
			[]byte(hex.EncodeToString(der)), pem.EncodeToMemory(&pem.Block{Type: "PUBLIC KEY", Bytes: der}))
	}
	// the empty structures of the smallest sizes
	out = append(out, []byte{0x30, 0x04, 0x30, 0x00, 0x03, 0x00}, []byte{0x30, 0x00}, []byte{0x30, 0x02, 0x30, 0x00}, []byte{0x30, 0x05, 0x30, 0x00, 0x03, 0x01, 0x00})
	return out
}

// spkiAlgs cuts the AlgorithmIdentifier out of the reference encodings of a small key.
func spkiAlgs() (pss, rsaEnc []byte) {
	cut := func(der []byte) []byte {
		// outer SEQUENCE header, then the AlgorithmIdentifier TLV
		i := 2
		if der[1]&0x80 != 0 {
			i = 2 + int(der[1]&0x7f)
		}
		l := int(der[i+1])
		return clone(der[i : i+2+l])
	}
	n := new(big.Int).Lsh(big.NewInt(0xc5), 56)
	return cut(ref.SPKIRSAPSS(n, 3)), cut(ref.SPKIRSAEncryption(n, 3))
}

// p384InvalidEncodings: 49-byte strings that are not compressed P-384 points (x not on the curve, x >= p, wrong prefix).
func p384InvalidEncodings(r *core.Rand) [][]byte {
	curve := elliptic.P384()
	out := [][]byte{append([]byte{2}, ff(48)...), append([]byte{3}, ff(48)...), append([]byte{4}, r.Bytes(48)...), make([]byte, 49), append([]byte{5}, r.Bytes(48)...)}
	pb := curve.Params().P.FillBytes(make([]byte, 48))
	out = append(out, append([]byte{2}, pb...))
	for len(out) < 9 {
		b := append([]byte{byte(2 + r.IntN(2))}, r.Bytes(48)...)
		if x, _ := elliptic.UnmarshalCompressed(curve, b); x == nil {
			out = append(out, b)
		}
	}
	return out
}

// rebuildType5Large: requests with many VALID elements (copies of an honest one): what work or memory grows faster
// than the input shows only at size.
func rebuildType5Large(r *core.Rand, honest []byte) [][]byte {
	_, k := refVarintDec(honest[3:])
	if k < 0 || len(honest) < 3+k+32 {
		return nil
	}
	el := honest[3+k : 3+k+32]
	var out [][]byte
	for _, n := range []int{600, 2047} {
		body := bytes.Repeat(el, n)
		b := append(clone(honest[:3]), refVarintEnc(uint64(len(body)))...)
		out = append(out, append(b, body...))
	}
	return out
}

// rebuildBatchLarge: generic batches of 1500 valid type-1 and of 1200 valid type-2 requests.
func rebuildBatchLarge(t1, t2 []byte) (a, b [][]byte) {
	mk := func(el []byte, n int) []byte {
		body := bytes.Repeat(el, n)
		return append(refVarintEnc(uint64(len(body))), body...)
	}
	return [][]byte{mk(t1, 1500)}, [][]byte{mk(t2, 1200), mk(append(clone(t1), t2...), 600)}
}

// rebuildChallenge: TokenChallenges whose origin_info is at its maximal length: only separators, thousands of short
// names, one name.
func rebuildChallenge(r *core.Rand) [][]byte {
	var out [][]byte
	names := make([]byte, 0, 65535)
	for len(names)+9 < 65535 {
		names = append(names, alnum(r, 7)...)
		names = append(names, ',')
	}
	for _, oi := range [][]byte{bytes.Repeat([]byte{','}, 65535), bytes.Repeat([]byte{','}, 20000), names[:len(names)-1], alnum(r, 65535), bytes.Repeat([]byte("a,"), 32767)} {
		out = append(out, encChallenge(2, "issuer.example", r.Bytes(32), []string{string(oi)}))
	}
	return out
}

// derHeader returns tag and definite length octets for a body of n bytes.
func derHeader(tag byte, n int) []byte {
	switch {
	case n < 0x80:
		return []byte{tag, byte(n)}
	case n < 0x100:
		return []byte{tag, 0x81, byte(n)}
	case n < 0x10000:
		return []byte{tag, 0x82, byte(n >> 8), byte(n)}
	case n < 0x1000000:
		return []byte{tag, 0x83, byte(n >> 16), byte(n >> 8), byte(n)}
	}
	return []byte{tag, 0x84, byte(n >> 24), byte(n >> 16), byte(n >> 8), byte(n)}
}

// derWrap returns tag{parts...} with a definite length.
func derWrap(tag byte, parts ...[]byte) []byte {
	n := 0
	for _, p := range parts {
		n += len(p)
	}
	out := append(make([]byte, 0, n+6), derHeader(tag, n)...)
	for _, p := range parts {
		out = append(out, p...)
	}
	return out
}

// nestedDER returns depth constructed elements of the given tag, each the only content of the one around it, with
// correct definite lengths: tag{tag{tag{...{}...}}}.
func nestedDER(depth int, tag byte) []byte {
	lens := make([]int, depth) // lens[i]: content length of the element at distance i from the innermost
	total := 0
	for i := 0; i < depth; i++ {
		lens[i] = total
		total += len(derHeader(tag, total))
	}
	out := make([]byte, 0, total)
	for i := depth - 1; i >= 0; i-- {
		out = append(out, derHeader(tag, lens[i])...)
	}
	return out
}
