package props

import (
	"crypto"
	stdecdsa "crypto/ecdsa"
	"crypto/elliptic"
	"encoding/hex"
	"errors"
	"fmt"
	"io"
	"math/big"

	"github.com/cloudflare/pat-go/ecdsa"

	"verifharness/internal/core"
)

func init() {
	core.Register(&core.Prop{
		ID:    "C13",
		Level: "fault_enumeration",
		Rule: "differential against crypto/ecdsa on P-224/256/384/521: (r,s) from the product of classes {valid, 0, 1, -1, -valid, N-1, N, N+1, N+valid, 2^bits-1, 2^bits, seeded} for r and s plus (r, N-s), constructed signatures with N <= R.x < P (r = R.x - N, public key solved for), digests of length 0..128 and digests whose integer value is not below the order (all ones at order length and longer, N, N+1, 2N-1, zero), signed by crypto/ecdsa; ASN.1: valid encodings, non-minimal/negative/empty integers, long-form, non-minimal and indefinite lengths, wrong tags, trailing bytes inside and after the SEQUENCE, every truncation, every single-bit flip of one valid DER per curve, seeded strings behind 30 xx 02. " +
			"Producers: every fork signature (Sign, SignASN1, PrivateKey.Sign, BlindKeySign) verifies under crypto/ecdsa and every crypto/ecdsa signature verifies here. " +
			"Fault enumeration: GenerateKey and every signing entry point under a scripted entropy reader that delivers f bytes in a given chunking (all at once, byte by byte, seeded splits, interleaved zero-length reads) and then fails permanently, f = 0..need+1 exhaustively (need measured on a never-failing reader): a nil error implies the reader never failed and at least the needed bytes were consumed; a failed reader implies a non-nil error and nil key / r,s / signature. " +
			"distinct_nontrivial = distinct (curve, case class, r class, s class | DER class | entry point, fault position, chunking) keys",
		Floors:      []string{"digests_not_below_the_order", "tiny_curve_cofactor_4_agrees", "one_octet_signatures_accepted_by_std", "keys_on_generic_curve_objects", "verify_agree_accept", "verify_agree_reject", "asn1_agree_accept", "asn1_agree_reject", "fork_signature_verifies_under_std", "std_signature_verifies_under_fork", "fault_error_returned", "fault_success_full_entropy", "s_plus_N_class", "asn1_bitflips", "wrapped_r_signatures", "history_verify_agrees", "constructed_doubling_case_accepted_by_std", "special_public_keys_accepted_by_std", "bulk_signatures_verified"},
		Assumptions: []string{"crypto/ecdsa of the Go toolchain that builds the harness is the reference", "entropy failures are permanent and a failing Read delivers no bytes"},
		Run:         runC13,
	})
}

// ------------------------------------------------------------ scripted reader

type scriptedReader struct {
	src      *core.Rand
	budget   int // bytes delivered before permanent failure; <0 = never fails
	chunking int // 0 all at once, 1 one byte at a time, 2 seeded splits, 3 zero-length reads interleaved
	consumed int
	errKind  int // 0 errEntropy, 1 io.EOF, 2 io.ErrUnexpectedEOF
	fill     int // 0 seeded bytes, 1 every byte 0xff (a first candidate that is out of range, should the implementation redraw), 2 every byte zero
	failed   bool
	reads    int
	tick     int
}

var errEntropy = errors.New("scripted entropy failure")

// failure is the error the reader fails with: its own error value, io.EOF or io.ErrUnexpectedEOF (a source that simply
// ends is a failed source too)
func (s *scriptedReader) failure() error {
	switch s.errKind {
	case 1:
		return io.EOF
	case 2:
		return io.ErrUnexpectedEOF
	}
	return errEntropy
}

func (s *scriptedReader) Read(p []byte) (int, error) {
	s.reads++
	if len(p) == 0 {
		return 0, nil
	}
	if s.budget >= 0 && s.consumed >= s.budget {
		s.failed = true
		return 0, s.failure()
	}
	n := len(p)
	switch s.chunking {
	case 1:
		n = 1
	case 2:
		n = 1 + s.src.IntN(len(p))
	case 3:
		s.tick++
		if s.tick%2 == 1 {
			return 0, nil
		}
		n = 1 + s.src.IntN(len(p))
	}
	last := false
	if s.budget >= 0 && s.consumed+n > s.budget {
		n = s.budget - s.consumed
		last = s.errKind != 0 // a source that ends hands out its last bytes together with the error
	}
	s.src.Read(p[:n])
	switch s.fill {
	case 1:
		for i := range p[:n] {
			p[i] = 0xff
		}
	case 2:
		for i := range p[:n] {
			p[i] = 0
		}
	}
	s.consumed += n
	if last {
		s.failed = true
		return n, s.failure()
	}
	return n, nil
}

// ------------------------------------------------------------ DER helpers

func derInt(x *big.Int) []byte {
	// canonical two's complement INTEGER content
	if x.Sign() >= 0 {
		b := x.Bytes()
		if len(b) == 0 {
			b = []byte{0}
		}
		if b[0]&0x80 != 0 {
			b = append([]byte{0}, b...)
		}
		return b
	}
	// negative: two's complement of |x|
	n := (x.BitLen() + 8) / 8
	mod := new(big.Int).Lsh(big.NewInt(1), uint(8*n))
	v := new(big.Int).Add(mod, x)
	b := v.Bytes()
	for len(b) < n {
		b = append([]byte{0xff}, b...)
	}
	for len(b) > 1 && b[0] == 0xff && b[1]&0x80 != 0 {
		b = b[1:]
	}
	return b
}

func tlv(tag byte, content []byte, lenForm int) []byte {
	out := []byte{tag}
	n := len(content)
	switch lenForm {
	case 0: // minimal
		if n < 128 {
			out = append(out, byte(n))
		} else if n < 256 {
			out = append(out, 0x81, byte(n))
		} else {
			out = append(out, 0x82, byte(n>>8), byte(n))
		}
	case 1: // long form where short would do
		out = append(out, 0x81, byte(n))
	case 2: // non-minimal long form
		out = append(out, 0x82, 0, byte(n))
	case 3: // indefinite
		out = append(out, 0x80)
		return append(append(out, content...), 0, 0)
	}
	return append(out, content...)
}

func derSig(r, s *big.Int) []byte {
	return tlv(0x30, append(tlv(0x02, derInt(r), 0), tlv(0x02, derInt(s), 0)...), 0)
}

// ------------------------------------------------------------ monitor

type c13Key struct {
	curve elliptic.Curve
	fork  *ecdsa.PrivateKey
	std   *stdecdsa.PrivateKey
}

func c13MkKey(r *core.Rand, curve elliptic.Curve) *c13Key {
	N := curve.Params().N
	d := ScalarBytes(r, N, (N.BitLen()+7)/8)
	fk, err := ecdsa.CreateKey(curve, d)
	must(err)
	return &c13Key{curve, fk, stdPriv(curve, new(big.Int).SetBytes(d))}
}

func (k *c13Key) verifyBoth(c *core.Ctx, digest []byte, r, s *big.Int, class string) {
	c.Eval(1)
	name := k.curve.Params().Name
	var f, st bool
	// the same operand objects are verified twice, as a caller holding one (r, s) pair would: the verdict
	// must be the same both times
	fr, fs := new(big.Int).Set(r), new(big.Int).Set(s)
	var f2 bool
	panF, pvF, _ := core.Guard(func() {
		f = ecdsa.Verify(&k.fork.PublicKey, digest, fr, fs)
		f2 = ecdsa.Verify(&k.fork.PublicKey, digest, fr, fs)
	})
	panS, _, _ := core.Guard(func() { st = stdecdsa.Verify(&k.std.PublicKey, digest, new(big.Int).Set(r), new(big.Int).Set(s)) })
	d := map[string]any{"curve": name, "class": class, "digest": core.Hex(digest), "r": r.Text(16), "s": s.Text(16), "pub_x": k.fork.X.Text(16), "pub_y": k.fork.Y.Text(16)}
	if panF {
		c.Violation(name+":Verify:panic", "Verify panicked: "+pvF, d)
		return
	}
	if panS {
		c.Class("std_panicked_case_dropped")
		return
	}
	if f2 != f {
		c.Violation(fmt.Sprintf("%s:Verify:verdict-changes-on-repeat", name), fmt.Sprintf("verifying the same (r, s) objects twice gives %v then %v; crypto/ecdsa gives %v", f, f2, st), d)
		return
	}
	if f != st {
		c.Violation(fmt.Sprintf("%s:Verify:disagrees:%s", name, class), fmt.Sprintf("Verify returns %v, crypto/ecdsa returns %v (%s)", f, st, class), d)
		return
	}
	if f {
		c.Class("verify_agree_accept")
	} else {
		c.Class("verify_agree_reject")
	}
	c.Distinctf("%s:rs:%s:d%d", name, class, len(digest))
}

func (k *c13Key) asn1Both(c *core.Ctx, digest, sig []byte, class string) {
	c.Eval(1)
	name := k.curve.Params().Name
	var f, st bool
	panF, pvF, _ := core.Guard(func() { f = ecdsa.VerifyASN1(&k.fork.PublicKey, digest, clone(sig)) })
	panS, _, _ := core.Guard(func() { st = stdecdsa.VerifyASN1(&k.std.PublicKey, digest, clone(sig)) })
	d := map[string]any{"curve": name, "class": class, "digest": core.Hex(digest), "signature": core.Hex(sig), "pub_x": k.fork.X.Text(16), "pub_y": k.fork.Y.Text(16)}
	if panF {
		c.Violation(name+":VerifyASN1:panic", "VerifyASN1 panicked: "+pvF, d)
		return
	}
	if panS {
		c.Class("std_panicked_case_dropped")
		return
	}
	if f != st {
		c.Violation(fmt.Sprintf("%s:VerifyASN1:disagrees:%s", name, classKey(class)), fmt.Sprintf("VerifyASN1 returns %v, crypto/ecdsa returns %v (%s)", f, st, class), d)
		return
	}
	if f {
		c.Class("asn1_agree_accept")
	} else {
		c.Class("asn1_agree_reject")
	}
	c.Distinctf("%s:asn1:%s", name, classKey(class))
}

func c13Classes(r *core.Rand, curve elliptic.Curve, valid *big.Int) ([]*big.Int, []string) {
	N := curve.Params().N
	bits := uint(N.BitLen())
	one := big.NewInt(1)
	vals := []*big.Int{
		valid, big.NewInt(0), big.NewInt(1), big.NewInt(-1), new(big.Int).Neg(valid), new(big.Int).Sub(N, one), new(big.Int).Set(N), new(big.Int).Add(N, one),
		new(big.Int).Add(N, valid), new(big.Int).Sub(new(big.Int).Lsh(one, bits), one), new(big.Int).Lsh(one, bits), new(big.Int).SetBytes(r.Bytes(int(bits+7) / 8)),
	}
	names := []string{"valid", "0", "1", "-1", "-valid", "N-1", "N", "N+1", "N+valid", "2^bits-1", "2^bits", "seeded"}
	return vals, names
}

func runC13(c *core.Ctx) {
	curves := c12Curves()
	nKeys := c.Pick(2, 8)
	digLens := []int{0, 1, 20, 28, 32, 33, 48, 64, 65, 66, 67, 128}
	if c.Thorough() {
		digLens = nil
		for l := 0; l <= 130; l++ {
			digLens = append(digLens, l)
		}
	}
	for _, curve := range curves {
		name := curve.Params().Name
		N := curve.Params().N
		for ki := 0; ki < nKeys; ki++ {
			// ---------------- (r,s) classes
			for di, dl := range digLens {
				if !c.Thorough() && (di+ki)%3 != 0 {
					continue
				}
				if !c.Next() {
					continue
				}
				r := c.CaseRng()
				k := c13MkKey(c.IdxRng("key:"+name, int64(ki)), curve)
				digest := r.Bytes(dl)
				vr, vs, err := stdecdsa.Sign(r, k.std, digest)
				must(err)
				rv, rn := c13Classes(r, curve, vr)
				sv, sn := c13Classes(r, curve, vs)
				for i := range rv {
					for j := range sv {
						k.verifyBoth(c, digest, rv[i], sv[j], "r="+rn[i]+",s="+sn[j])
						if sn[j] == "N+valid" && rn[i] == "valid" {
							c.Class("s_plus_N_class")
						}
					}
				}
				k.verifyBoth(c, digest, vr, new(big.Int).Sub(N, vs), "r=valid,s=N-valid")
				// digest variations against a valid signature: one bit flipped, truncated, extended
				if dl > 0 {
					k.verifyBoth(c, flipBit(digest, r.IntN(dl*8)), vr, vs, "digest-bitflip")
					k.verifyBoth(c, digest[:dl-1], vr, vs, "digest-truncated")
				}
				k.verifyBoth(c, append(clone(digest), 0), vr, vs, "digest-extended")
				// other key
				k2 := c13MkKey(r, curve)
				k2.verifyBoth(c, digest, vr, vs, "other-key")
				// digests whose integer value is not below the order (all ones, N, N+1, 2N-1 at order length and
				// longer; zero): crypto/ecdsa reduces them and so must the fork. Signed by the standard library.
				ol := (N.BitLen() + 7) / 8
				special := map[string][]byte{
					"digest=all-ones":        c13Ones(ol),
					"digest=all-ones-longer": c13Ones(ol + 1 + r.IntN(40)),
					"digest=N":               N.FillBytes(make([]byte, ol)),
					"digest=N+1":             new(big.Int).Add(N, big.NewInt(1)).FillBytes(make([]byte, ol)),
					"digest=zero":            make([]byte, ol),
				}
				if twoN := new(big.Int).Sub(new(big.Int).Lsh(N, 1), big.NewInt(1)); twoN.BitLen() <= ol*8 {
					special["digest=2N-1"] = twoN.FillBytes(make([]byte, ol))
				}
				for _, cls := range []string{"digest=all-ones", "digest=all-ones-longer", "digest=N", "digest=N+1", "digest=zero", "digest=2N-1"} {
					sd, ok := special[cls]
					if !ok {
						continue
					}
					xr, xs, err := stdecdsa.Sign(r, k.std, sd)
					must(err)
					k.verifyBoth(c, sd, xr, xs, cls)
					k.verifyBoth(c, sd, vr, vs, cls+",other-signature")
				}
				c.Class("digests_not_below_the_order")
				if ki == 0 && di == 0 {
					c.Sample(name+" (r,s) classes", map[string]any{"classes": rn, "digest_len": dl})
				}
			}
			// ---------------- producers
			if c.Next() {
				r := c.CaseRng()
				k := c13MkKey(c.IdxRng("key:"+name, int64(ki)), curve)
				for _, dl := range digLens {
					digest := r.Bytes(dl)
					c.Eval(4)
					bad := func(cls, what string, extra map[string]any) {
						d := map[string]any{"curve": name, "digest": core.Hex(digest), "key_d": k.fork.D.Text(16)}
						for kk, v := range extra {
							d[kk] = v
						}
						c.Violation(name+":producer:"+cls, what, d)
					}
					pan, pv, where := core.Guard(func() {
						rr, ss, err := ecdsa.Sign(r, k.fork, digest)
						if err != nil || !stdecdsa.Verify(&k.std.PublicKey, digest, rr, ss) {
							bad("Sign", fmt.Sprintf("a signature made by Sign does not verify under crypto/ecdsa (err=%v)", err), nil)
							return
						}
						if rr.Sign() <= 0 || ss.Sign() <= 0 || rr.Cmp(N) >= 0 || ss.Cmp(N) >= 0 {
							bad("Sign-range", "Sign returned r or s outside [1, N-1]", nil)
							return
						}
						der, err := ecdsa.SignASN1(r, k.fork, digest)
						if err != nil || !stdecdsa.VerifyASN1(&k.std.PublicKey, digest, der) {
							bad("SignASN1", fmt.Sprintf("a signature made by SignASN1 does not verify under crypto/ecdsa (err=%v)", err), map[string]any{"signature": core.Hex(der)})
							return
						}
						if pk, ok := k.fork.Public().(*ecdsa.PublicKey); !ok || pk.X.Cmp(k.std.X) != 0 || pk.Y.Cmp(k.std.Y) != 0 || !pk.Equal(&k.fork.PublicKey) || !k.fork.Equal(k.fork) {
							bad("PrivateKey.Public", "Public() is not the key's public key (or Equal denies that a key equals itself)", nil)
							return
						}
						der2, err := k.fork.Sign(r, digest, crypto.SHA256)
						if err != nil || !stdecdsa.VerifyASN1(&k.std.PublicKey, digest, der2) || !ecdsa.VerifyASN1(&k.fork.PublicKey, digest, der2) {
							bad("PrivateKey.Sign", "a signature made by PrivateKey.Sign does not verify", map[string]any{"signature": core.Hex(der2)})
							return
						}
						c.Class("fork_signature_verifies_under_std")
						sr, ssig, err := stdecdsa.Sign(r, k.std, digest)
						must(err)
						sder, err := stdecdsa.SignASN1(r, k.std, digest)
						must(err)
						if !ecdsa.Verify(&k.fork.PublicKey, digest, sr, ssig) || !ecdsa.VerifyASN1(&k.fork.PublicKey, digest, sder) {
							bad("std-signature-rejected", "a crypto/ecdsa signature does not verify here", map[string]any{"r": sr.Text(16), "s": ssig.Text(16), "signature": core.Hex(sder)})
							return
						}
						c.Class("std_signature_verifies_under_fork")
						c.Distinctf("%s:producer:d%d", name, dl)
					})
					if pan {
						bad("panic:"+where, "panic: "+pv, nil)
					}
				}
			}
			// ---------------- ASN.1
			if c.Next() {
				r := c.CaseRng()
				k := c13MkKey(c.IdxRng("key:"+name, int64(ki)), curve)
				digest := r.Bytes(32)
				vr, vs, err := stdecdsa.Sign(r, k.std, digest)
				must(err)
				good := derSig(vr, vs)
				w := (curve.Params().N.BitLen() + 7) / 8
				k.asn1Both(c, digest, good, "valid")
				ri, si := derInt(vr), derInt(vs)
				seq := func(parts ...[]byte) []byte {
					var body []byte
					for _, p := range parts {
						body = append(body, p...)
					}
					return tlv(0x30, body, 0)
				}
				cases := map[string][]byte{
					"r-nonminimal":          seq(tlv(2, append([]byte{0}, ri...), 0), tlv(2, si, 0)),
					"s-nonminimal":          seq(tlv(2, ri, 0), tlv(2, append([]byte{0}, si...), 0)),
					"r-negative":            seq(tlv(2, derInt(new(big.Int).Neg(vr)), 0), tlv(2, si, 0)),
					"s-negative":            seq(tlv(2, ri, 0), tlv(2, derInt(new(big.Int).Neg(vs)), 0)),
					"r-high-bit-no-pad":     seq(tlv(2, vr.Bytes(), 0), tlv(2, si, 0)),
					"r-empty-integer":       seq(tlv(2, nil, 0), tlv(2, si, 0)),
					"s-empty-integer":       seq(tlv(2, ri, 0), tlv(2, nil, 0)),
					"r-zero":                seq(tlv(2, []byte{0}, 0), tlv(2, si, 0)),
					"s-zero":                seq(tlv(2, ri, 0), tlv(2, []byte{0}, 0)),
					"s-plus-N":              derSig(vr, new(big.Int).Add(vs, N)),
					"r-plus-N":              derSig(new(big.Int).Add(vr, N), vs),
					"s-negated-mod-N":       derSig(vr, new(big.Int).Sub(N, vs)),
					"seq-long-form":         tlv(0x30, append(tlv(2, ri, 0), tlv(2, si, 0)...), 1),
					"seq-nonminimal-length": tlv(0x30, append(tlv(2, ri, 0), tlv(2, si, 0)...), 2),
					"seq-indefinite":        tlv(0x30, append(tlv(2, ri, 0), tlv(2, si, 0)...), 3),
					"int-long-form":         seq(tlv(2, ri, 1), tlv(2, si, 0)),
					"int-nonminimal-length": seq(tlv(2, ri, 0), tlv(2, si, 2)),
					"wrong-seq-tag":         tlv(0x31, append(tlv(2, ri, 0), tlv(2, si, 0)...), 0),
					"wrong-int-tag":         seq(tlv(3, ri, 0), tlv(2, si, 0)),
					"wrong-int-tag-2":       seq(tlv(2, ri, 0), tlv(4, si, 0)),
					"constructed-int":       seq(tlv(0x22, ri, 0), tlv(2, si, 0)),
					"trailing-after-seq":    append(clone(good), 0),
					"trailing-after-seq-2":  append(clone(good), good...),
					"trailing-inside-seq":   seq(tlv(2, ri, 0), tlv(2, si, 0), []byte{0}),
					"third-integer":         seq(tlv(2, ri, 0), tlv(2, si, 0), tlv(2, []byte{1}, 0)),
					"only-one-integer":      seq(tlv(2, ri, 0)),
					"empty-seq":             seq(),
					"empty-input":           {},
					"nested-seq":            seq(seq(tlv(2, ri, 0), tlv(2, si, 0))),
					"swapped":               derSig(vs, vr),
					// the same valid signature in OTHER encodings: none of them is an ASN.1 DER ECDSA-Sig-Value
					"raw-fixed-width-r||s": append(vr.FillBytes(make([]byte, w)), vs.FillBytes(make([]byte, w))...),
					"raw-minimal-r||s":     append(vr.Bytes(), vs.Bytes()...),
					"raw-32bit-lengths":    append(append([]byte{0, 0, 0, byte(len(ri))}, ri...), append([]byte{0, 0, 0, byte(len(si))}, si...)...),
					"der-inside-octet":     tlv(4, good, 0),
					"der-hex-text":         []byte(hex.EncodeToString(good)),
					"raw-fixed-width-s||r": append(vs.FillBytes(make([]byte, w)), vr.FillBytes(make([]byte, w))...),
					"raw-with-04-prefix":   append([]byte{4}, append(vr.FillBytes(make([]byte, w)), vs.FillBytes(make([]byte, w))...)...),
				}
				for cls, sig := range cases {
					k.asn1Both(c, digest, sig, cls)
				}
				for l := 0; l < len(good); l++ {
					k.asn1Both(c, digest, good[:l], fmt.Sprintf("truncated#%d", l))
				}
				if ki == 0 {
					for bit := 0; bit < len(good)*8; bit++ {
						k.asn1Both(c, digest, flipBit(good, bit), fmt.Sprintf("bitflip#%d", bit))
						c.Class("asn1_bitflips")
					}
					c.Exhaustive("single-bit flips and truncations of one valid DER signature per curve")
					c.Sample(name+" DER", map[string]any{"valid": core.Hex(good), "corruption_classes": len(cases)})
				}
				nrand := c.Pick(600, 80000)
				for i := 0; i < nrand; i++ {
					b := r.Bytes(r.IntN(r.Of(12, 80, 160)))
					if i%4 != 0 && len(b) > 3 {
						b[0], b[2] = 0x30, 0x02
						if i%2 == 0 {
							b[1] = byte(len(b) - 2)
						}
						if i%8 == 1 && len(b) > 6 {
							// well-formed outer framing, random integers
							ril, sil := 1+r.IntN(len(b)/2), 1+r.IntN(len(b)/2)
							b = seq(tlv(2, r.Bytes(ril), 0), tlv(2, r.Bytes(sil), 0))
						}
					}
					k.asn1Both(c, digest, b, "random")
				}
			}
		}
		// ---------------- consecutive related calls on caller-owned objects updated in place
		for h := 0; h < c.Pick(6, 300); h++ {
			if c.Next() {
				c13History(c, curve, c.CaseRng(), fmt.Sprint(h))
			}
		}
		// ---------------- constructed signatures whose R has N <= R.x < P (so r = R.x - N "wraps" mod N)
		if c.Next() {
			c13Wrap(c, curve, c.CaseRng())
		}
		// ---------------- constructed special relations and special public keys
		for t := 0; t < c.Pick(2, 60); t++ {
			if c.Next() {
				c13Constructed(c, curve, c.CaseRng())
			}
		}
		// ---------------- entropy faults
		c13Faults(c, curve)
	}
	c13Bulk(c)
	c13TinyCurve(c)
}

// c13Wrap builds valid signatures with r = R.x mod N and R.x >= N: pick R on the curve with x = N+i, any s and
// digest e, and set the public key to Q = r^-1 (sR - eG). Honest signing reaches this with probability ~2^-100.
func c13Wrap(c *core.Ctx, curve elliptic.Curve, r *core.Rand) {
	p := curve.Params()
	name := p.Name
	n := 0
	for i := int64(0); i < 4000 && n < 6; i++ {
		x := new(big.Int).Add(p.N, big.NewInt(i))
		if x.Cmp(p.P) >= 0 {
			break
		}
		enc := make([]byte, 1+(p.BitSize+7)/8)
		enc[0] = 2
		x.FillBytes(enc[1:])
		rx, ry := elliptic.UnmarshalCompressed(curve, enc)
		if rx == nil {
			continue
		}
		rr := new(big.Int).Sub(rx, p.N)
		if rr.Sign() == 0 {
			continue
		}
		n++
		digest := r.Bytes(p.N.BitLen() / 8) // no truncation or shift: e = int(digest)
		e := new(big.Int).SetBytes(digest)
		s := new(big.Int).SetBytes(ScalarBytes(r, p.N, (p.N.BitLen()+7)/8))
		sx, sy := curve.ScalarMult(rx, ry, s.Bytes())
		qx, qy := sx, sy
		if em := new(big.Int).Mod(e, p.N); em.Sign() != 0 {
			ex, ey := curve.ScalarBaseMult(em.Bytes())
			qx, qy = curve.Add(sx, sy, ex, new(big.Int).Sub(p.P, ey))
		}
		rinv := new(big.Int).ModInverse(rr, p.N)
		qx, qy = curve.ScalarMult(qx, qy, rinv.Bytes())
		k := &c13Key{curve: curve, fork: &ecdsa.PrivateKey{PublicKey: ecdsa.PublicKey{Curve: curve, X: qx, Y: qy}}, std: &stdecdsa.PrivateKey{PublicKey: stdecdsa.PublicKey{Curve: curve, X: qx, Y: qy}}}
		if !stdecdsa.Verify(&k.std.PublicKey, digest, rr, s) {
			c.Class("wrap_construction_rejected_by_std")
			continue
		}
		k.verifyBoth(c, digest, rr, s, "r=R.x-N(wrapped)")
		k.asn1Both(c, digest, derSig(rr, s), "wrapped-r")
		c.Class("wrapped_r_signatures")
	}
	if n > 0 {
		c.Sample(name+" wrapped r", map[string]any{"constructed": n})
	}
}

type c13Entry struct {
	name string
	call func(rd *scriptedReader) (err error, outputsNil bool)
}

func c13Faults(c *core.Ctx, curve elliptic.Curve) {
	name := curve.Params().Name
	N := curve.Params().N
	kr := c.IdxRng("faultkey:"+name, 0)
	key := c13MkKey(kr, curve)
	bk, err := ecdsa.CreateKey(curve, ScalarBytes(kr, N, (N.BitLen()+7)/8))
	must(err)
	digest := kr.Bytes(32)
	entries := []c13Entry{
		{"GenerateKey", func(rd *scriptedReader) (error, bool) {
			k, err := ecdsa.GenerateKey(curve, rd)
			if err == nil && (k == nil || k.D == nil || k.D.Sign() <= 0 || k.D.Cmp(N) >= 0 || !curve.IsOnCurve(k.X, k.Y)) {
				return fmt.Errorf("GenerateKey returned an invalid key without error"), false
			}
			return err, k == nil
		}},
		{"Sign", func(rd *scriptedReader) (error, bool) {
			r, s, err := ecdsa.Sign(rd, key.fork, digest)
			if err == nil && !stdecdsa.Verify(&key.std.PublicKey, digest, r, s) {
				return fmt.Errorf("Sign returned an invalid signature without error"), false
			}
			return err, r == nil && s == nil
		}},
		{"SignASN1", func(rd *scriptedReader) (error, bool) {
			sig, err := ecdsa.SignASN1(rd, key.fork, digest)
			if err == nil && !stdecdsa.VerifyASN1(&key.std.PublicKey, digest, sig) {
				return fmt.Errorf("SignASN1 returned an invalid signature without error"), false
			}
			return err, sig == nil
		}},
		{"PrivateKey.Sign", func(rd *scriptedReader) (error, bool) {
			sig, err := key.fork.Sign(rd, digest, crypto.SHA256)
			return err, sig == nil
		}},
		{"BlindKeySign", func(rd *scriptedReader) (error, bool) {
			r, s, err := ecdsa.BlindKeySignWithContext(rd, key.fork, bk, digest, []byte("ctx"))
			return err, r == nil && s == nil
		}},
	}
	for _, e := range entries {
		// measure need on a never-failing reader (max over a few runs: the coin)
		need := 0
		for i := 0; i < 12; i++ {
			rd := &scriptedReader{src: c.IdxRng("need:"+name+e.name, int64(i)), budget: -1}
			e.call(rd)
			if rd.consumed > need {
				need = rd.consumed
			}
		}
		minNeed := need
		if e.name != "GenerateKey" {
			minNeed = need - 1 // without the coin byte
		}
		for f := 0; f <= need+1; f++ {
			for chunking := 0; chunking < 4; chunking++ {
				if !c.Next() {
					continue
				}
				reps := c.Pick(9, 18)
				for rep := 0; rep < reps; rep++ {
					rd := &scriptedReader{src: c.CaseRng(), budget: f, chunking: chunking, fill: rep % 3, errKind: (rep / 3) % 3}
					c.Eval(1)
					c.Note(fmt.Sprintf("%s %s fault=%d chunking=%d", name, e.name, f, chunking))
					var err error
					var outNil bool
					pan, pv, where := core.Guard(func() { err, outNil = e.call(rd) })
					d := map[string]any{"curve": name, "entry": e.name, "fault_after_bytes": f, "chunking": chunking, "fill": []string{"seeded", "0xff", "zero"}[rd.fill], "consumed": rd.consumed, "reader_failed": rd.failed, "need": need}
					key := fmt.Sprintf("%s:fault:%s", name, e.name)
					if pan {
						c.Violation(key+":panic:"+where, "panic under a failing entropy reader: "+pv, d)
						continue
					}
					if err == nil {
						if rd.failed {
							c.Violation(key+":success-after-entropy-failure", e.name+" returned no error although the entropy reader failed", d)
							continue
						}
						if rd.consumed < minNeed {
							c.Violation(key+":success-with-short-entropy", fmt.Sprintf("%s succeeded after consuming %d entropy bytes, it needs %d", e.name, rd.consumed, minNeed), d)
							continue
						}
						c.Class("fault_success_full_entropy")
					} else {
						if !rd.failed {
							d["error"] = err.Error()
							c.Violation(key+":error-without-entropy-failure", e.name+" failed although the entropy reader never failed: "+err.Error(), d)
							continue
						}
						if !outNil {
							c.Violation(key+":output-with-error", e.name+" returned an error together with a key or signature", d)
							continue
						}
						c.Class("fault_error_returned")
					}
				}
				c.Distinctf("%s:fault:%s:f%d:ch%d", name, e.name, f, chunking)
			}
		}
		c.Exhaustive(fmt.Sprintf("%s %s: every fault position 0..%d x 4 chunkings", name, e.name, need+1))
	}
	c.Sample(name+" fault enumeration", map[string]any{"entries": []string{"GenerateKey", "Sign", "SignASN1", "PrivateKey.Sign", "BlindKeySign"}, "chunkings": 4})
}

// c13History: consecutive Verify / VerifyASN1 calls over related inputs - two keys on one curve and their negations
// (same x, other y), valid signatures under each, (r, N-s), the digest with one bit changed, exact repeats - where the
// caller keeps ONE public-key object whose coordinates it updates in place, ONE pair of big integers for (r, s), one
// digest buffer and one signature buffer. Every verdict is compared with crypto/ecdsa on private copies.
func c13History(c *core.Ctx, curve elliptic.Curve, r *core.Rand, tag string) {
	name := curve.Params().Name
	N, P := curve.Params().N, curve.Params().P
	type item struct {
		name   string
		x, y   *big.Int
		digest []byte
		r, s   *big.Int
	}
	var pool []item
	digest := r.Bytes(r.Of(32, 48, 66, 70, 128, 20)) // shorter than, as long as, and longer than the order
	for ki := 0; ki < 2; ki++ {
		k := c13MkKey(r, curve)
		vr, vs, err := stdecdsa.Sign(r, k.std, digest)
		must(err)
		negY := new(big.Int).Sub(P, k.std.Y)
		// a signature valid under the negated key: secret N-d
		nk := stdPriv(curve, new(big.Int).Sub(N, k.std.D))
		nr, ns, err := stdecdsa.Sign(r, nk, digest)
		must(err)
		t := fmt.Sprintf("key%d", ki)
		pool = append(pool,
			item{t + ":valid", k.std.X, k.std.Y, digest, vr, vs},
			item{t + ":negated-key,valid-under-it", k.std.X, negY, digest, nr, ns},
			item{t + ":negated-key,signature-of-the-original", k.std.X, negY, digest, vr, vs},
			item{t + ":original-key,signature-of-the-negated", k.std.X, k.std.Y, digest, nr, ns},
			item{t + ":s-negated", k.std.X, k.std.Y, digest, vr, new(big.Int).Sub(N, vs)},
			item{t + ":digest-bit-flipped", k.std.X, k.std.Y, flipBit(digest, 3), vr, vs},
			item{t + ":r-plus-one", k.std.X, k.std.Y, digest, new(big.Int).Add(vr, big.NewInt(1)), vs},
		)
	}
	pub := &ecdsa.PublicKey{Curve: curve, X: new(big.Int), Y: new(big.Int)}
	rr, ss := new(big.Int), new(big.Int)
	dbuf := make([]byte, 0, 64)
	sbuf := make([]byte, 0, 160)
	var trace []string
	prelude := []int{0, 1, 0, 2, 3, 0, 7, 0, 8, 7}
	for step := 0; step < len(prelude)+12; step++ {
		var it item
		if step < len(prelude) && len(tag)%2 == 0 {
			it = pool[prelude[step]]
		} else {
			it = pool[r.IntN(len(pool))]
		}
		asn1 := step%3 == 2
		trace = append(trace, fmt.Sprintf("%s/asn1=%v", it.name, asn1))
		pub.X.Set(it.x)
		pub.Y.Set(it.y)
		rr.Set(it.r)
		ss.Set(it.s)
		dbuf = append(dbuf[:0], it.digest...)
		want := stdecdsa.Verify(&stdecdsa.PublicKey{Curve: curve, X: new(big.Int).Set(it.x), Y: new(big.Int).Set(it.y)}, clone(it.digest), new(big.Int).Set(it.r), new(big.Int).Set(it.s))
		c.Eval(1)
		var got bool
		pan, pv, _ := core.Guard(func() {
			if asn1 {
				sbuf = append(sbuf[:0], derSig(it.r, it.s)...)
				got = ecdsa.VerifyASN1(pub, dbuf, sbuf)
			} else {
				got = ecdsa.Verify(pub, dbuf, rr, ss)
			}
		})
		d := map[string]any{"curve": name, "calls_in_order": clone2(trace), "pub_x": it.x.Text(16), "pub_y": it.y.Text(16), "digest": core.Hex(it.digest), "r": it.r.Text(16), "s": it.s.Text(16), "tag": tag}
		if pan {
			c.Violation(name+":Verify:history:panic", "Verify panicked: "+pv, d)
			return
		}
		if got != want {
			c.Violation(name+":Verify:history:disagrees", fmt.Sprintf("after the calls before it (same key object updated in place, same (r, s) integers, same buffers) Verify returns %v where crypto/ecdsa returns %v", got, want), d)
			return
		}
		if rr.Cmp(it.r) != 0 || ss.Cmp(it.s) != 0 || pub.X.Cmp(it.x) != 0 || pub.Y.Cmp(it.y) != 0 || !bytesEq(dbuf, it.digest) {
			c.Violation(name+":Verify:history:argument-written", "Verify modified one of its arguments", d)
			return
		}
		c.Class("history_verify_agrees")
	}
	c.Distinctf("%s:history:%s", name, tag)
}

// digestFor returns digest bytes whose hashToInt value on this curve is e (e < N).
func digestFor(curve elliptic.Curve, e *big.Int) []byte {
	bits := curve.Params().N.BitLen()
	nb := (bits + 7) / 8
	if excess := nb*8 - bits; excess > 0 {
		return new(big.Int).Lsh(e, uint(excess)).FillBytes(make([]byte, nb))
	}
	return e.FillBytes(make([]byte, nb))
}

// c13Constructed: valid (key, digest, r, s) quadruples in special relations that honest signing never produces:
//   - the verification equation's two summands are EQUAL points (u1*G == u2*Q, the sum is a doubling),
//   - they are opposite points (the sum is the point at infinity: every implementation rejects),
//   - public keys with a zero coordinate (x = 0 where the curve has such a point), the generator itself, its negation,
//     twice the generator, with signatures forged for the given key from chosen u1, u2.
func c13Constructed(c *core.Ctx, curve elliptic.Curve, r *core.Rand) {
	p := curve.Params()
	N := p.N
	w := (N.BitLen() + 7) / 8
	mkKey := func(x, y *big.Int) *c13Key {
		return &c13Key{curve: curve, fork: &ecdsa.PrivateKey{PublicKey: ecdsa.PublicKey{Curve: curve, X: x, Y: y}}, std: &stdecdsa.PrivateKey{PublicKey: stdecdsa.PublicKey{Curve: curve, X: x, Y: y}}}
	}
	inv := func(x *big.Int) *big.Int { return new(big.Int).ModInverse(x, N) }
	mul := func(a, b *big.Int) *big.Int { z := new(big.Int).Mul(a, b); return z.Mod(z, N) }
	// doubling / infinity: choose e and k; R = kG, r = R.x; d = e/r so that u2*Q = (r/s)*(e/r)*G = (e/s)*G = u1*G;
	// the sum is 2*(e/s)*G, which must equal R = kG: s = 2e/k. With s = -2e/k ... the equal-points case stays; for
	// opposite points take d = -e/r: u2*Q = -(e/s) G, the sum is infinity for every s.
	for t := 0; t < 3; t++ {
		e := new(big.Int).SetBytes(ScalarBytes(r, N, w))
		k := new(big.Int).SetBytes(ScalarBytes(r, N, w))
		kx, _ := curve.ScalarBaseMult(k.Bytes())
		rr := new(big.Int).Mod(kx, N)
		if rr.Sign() == 0 || e.Sign() == 0 {
			continue
		}
		digest := digestFor(curve, e)
		d := mul(e, inv(rr))
		qx, qy := curve.ScalarBaseMult(d.Bytes())
		s := mul(mul(big.NewInt(2), e), inv(k))
		key := mkKey(qx, qy)
		if stdecdsa.Verify(&key.std.PublicKey, digest, rr, s) {
			c.Class("constructed_doubling_case_accepted_by_std")
		}
		key.verifyBoth(c, digest, rr, s, "u1*G==u2*Q(doubling)")
		key.asn1Both(c, digest, derSig(rr, s), "u1*G==u2*Q(doubling)")
		dn := new(big.Int).Sub(N, d)
		nx, ny := curve.ScalarBaseMult(dn.Bytes())
		keyN := mkKey(nx, ny)
		keyN.verifyBoth(c, digest, rr, s, "u1*G==-u2*Q(infinity)")
		keyN.verifyBoth(c, digest, rr, new(big.Int).SetBytes(ScalarBytes(r, N, w)), "u1*G==-u2*Q(infinity)")
	}
	// special public keys with forged signatures: R = u1*G + u2*Q, r = R.x, s = r/u2, e = u1*s
	type pt struct {
		name string
		x, y *big.Int
	}
	var specials []pt
	for _, xv := range []int64{0, 1, 2, 3, 4, 5} {
		enc := make([]byte, 1+(p.BitSize+7)/8)
		enc[0] = 2
		big.NewInt(xv).FillBytes(enc[1:])
		if x, y := elliptic.UnmarshalCompressed(curve, enc); x != nil {
			specials = append(specials, pt{fmt.Sprintf("x=%d", xv), x, y}, pt{fmt.Sprintf("x=%d,other-y", xv), x, new(big.Int).Sub(p.P, y)})
		}
	}
	g2x, g2y := curve.Double(p.Gx, p.Gy)
	specials = append(specials, pt{"generator", p.Gx, p.Gy}, pt{"-generator", p.Gx, new(big.Int).Sub(p.P, p.Gy)}, pt{"2*generator", g2x, g2y})
	for _, sp := range specials {
		key := mkKey(sp.x, sp.y)
		for t := 0; t < 2; t++ {
			u1 := new(big.Int).SetBytes(ScalarBytes(r, N, w))
			u2 := new(big.Int).SetBytes(ScalarBytes(r, N, w))
			ax, ay := curve.ScalarBaseMult(u1.Bytes())
			bx, by := curve.ScalarMult(sp.x, sp.y, u2.Bytes())
			Rx, _ := curve.Add(ax, ay, bx, by)
			rr := new(big.Int).Mod(Rx, N)
			if rr.Sign() == 0 {
				continue
			}
			s := mul(rr, inv(u2))
			e := mul(u1, s)
			digest := digestFor(curve, e)
			if stdecdsa.Verify(&key.std.PublicKey, digest, rr, s) {
				c.Class("special_public_keys_accepted_by_std")
			}
			key.verifyBoth(c, digest, rr, s, "special-public-key:"+sp.name)
			key.asn1Both(c, digest, derSig(rr, s), "special-public-key:"+sp.name)
			key.verifyBoth(c, flipBit(digest, 9), rr, s, "special-public-key:"+sp.name+":other-digest")
		}
	}
	// the shortest signatures there are: r and s of one octet each (an 8-byte DER signature). r must be the x-coordinate of
	// a point R; the key is recovered from (r, s, e): Q = r^-1 (s*R - e*G)
	for rv := int64(1); rv < 128; rv++ {
		enc := make([]byte, 1+(p.BitSize+7)/8)
		enc[0] = 2 + byte(rv&1)
		big.NewInt(rv).FillBytes(enc[1:])
		Rx, Ry := elliptic.UnmarshalCompressed(curve, enc)
		if Rx == nil {
			continue
		}
		for _, sv := range []int64{1, 2, 127, 128, 255} {
			rr, ss := big.NewInt(rv), big.NewInt(sv)
			e := new(big.Int).SetBytes(ScalarBytes(r, N, w))
			digest := digestFor(curve, e)
			sRx, sRy := curve.ScalarMult(Rx, Ry, ss.Bytes())
			eGx, eGy := curve.ScalarBaseMult(new(big.Int).Sub(N, e).Bytes()) // -e*G
			tx, ty := curve.Add(sRx, sRy, eGx, eGy)
			qx, qy := curve.ScalarMult(tx, ty, inv(rr).Bytes())
			if qx.Sign() == 0 && qy.Sign() == 0 {
				continue
			}
			key := mkKey(qx, qy)
			if stdecdsa.Verify(&key.std.PublicKey, digest, rr, ss) {
				c.Class("one_octet_signatures_accepted_by_std")
			}
			key.verifyBoth(c, digest, rr, ss, "one-octet-r-and-s")
			key.asn1Both(c, digest, derSig(rr, ss), "one-octet-r-and-s")
		}
		if rv > 40 && !c.Thorough() {
			break
		}
	}
	// the same key and signature with the key's Curve field holding the generic parameter object (elliptic.CurveParams)
	// instead of the named curve: crypto/ecdsa verifies those through its generic path, with the same verdicts
	gk := c13MkKey(r, curve)
	for t := 0; t < 3; t++ {
		digest := r.Bytes([]int{20, 32, 66}[t])
		rr, ss, err := stdecdsa.Sign(r, gk.std, digest)
		must(err)
		generic := &c13Key{curve: curve, fork: &ecdsa.PrivateKey{PublicKey: ecdsa.PublicKey{Curve: curve.Params(), X: gk.std.X, Y: gk.std.Y}}, std: &stdecdsa.PrivateKey{PublicKey: stdecdsa.PublicKey{Curve: curve, X: gk.std.X, Y: gk.std.Y}}}
		generic.verifyBoth(c, digest, rr, ss, "generic-curve-object:valid")
		generic.verifyBoth(c, flipBit(digest, 1), rr, ss, "generic-curve-object:other-digest")
		generic.asn1Both(c, digest, derSig(rr, ss), "generic-curve-object:valid")
		c.Class("keys_on_generic_curve_objects")
	}
	c.Distinctf("%s:constructed", p.Name)
}

// c13Bulk: many signatures by every ASN.1-producing entry point on the two cheapest curves, each checked by
// crypto/ecdsa.VerifyASN1: r or s with two or more leading zero octets, or with the top bit set at an octet border,
// appear about once per 2^16 / 2^8 signatures and exercise the DER integer encoder's corners.
func c13Bulk(c *core.Ctx) {
	total := c.Pick(220000, 4000000)
	const chunk = 2000
	for lo := 0; lo < total; lo += chunk {
		if !c.Next() {
			continue
		}
		r := c.CaseRng()
		curve := []elliptic.Curve{elliptic.P256(), elliptic.P224()}[(lo/chunk)%2]
		k := c13MkKey(r, curve)
		short := 0
		for i := 0; i < chunk; i++ {
			digest := r.Bytes(32)
			var der []byte
			var err error
			if i%2 == 0 {
				der, err = ecdsa.SignASN1(r, k.fork, digest)
			} else {
				der, err = k.fork.Sign(r, digest, crypto.SHA256)
			}
			if err != nil || !stdecdsa.VerifyASN1(&k.std.PublicKey, digest, der) || !ecdsa.VerifyASN1(&k.fork.PublicKey, digest, der) {
				c.Violation(curve.Params().Name+":bulk-signature-rejected", fmt.Sprintf("a signature produced here is rejected by crypto/ecdsa.VerifyASN1 or by this package's own VerifyASN1 (err=%v)", err),
					map[string]any{"curve": curve.Params().Name, "digest": core.Hex(digest), "signature": core.Hex(der), "private_key": k.fork.D.Text(16)})
				return
			}
			if len(der) <= 2*((curve.Params().N.BitLen()+7)/8)+6-2 {
				short++
			}
		}
		c.Eval(chunk)
		c.ClassN("bulk_signatures_verified", chunk)
		if short > 0 {
			c.ClassN("bulk_signatures_with_a_short_integer", int64(short))
		}
	}
}

// c13TinyCurve: a short-Weierstrass curve with a = -3 over a 17-bit field whose group order is 4 times the prime order
// of the generator (p > 2N: an x-coordinate may exceed the order several times over), driven through the generic
// elliptic.CurveParams arithmetic that both crypto/ecdsa and this package fall back to for curves they do not know.
// Every x-coordinate reduction, bit-length assumption and "subtract N once" shortcut that happens to be right on the
// NIST curves shows here. Verdicts are compared in both directions.
func c13TinyCurve(c *core.Ctx) {
	P := big.NewInt(65539)
	cp := &elliptic.CurveParams{P: P, N: big.NewInt(16363), B: big.NewInt(52), BitSize: 17, Name: "tiny-a3-b52-p65539"}
	// a generator of order N: 4 times the first point found whose multiple is not the identity
	for x := int64(1); x < 65539 && cp.Gx == nil; x++ {
		rhs := new(big.Int).Exp(big.NewInt(x), big.NewInt(3), P)
		rhs.Sub(rhs, big.NewInt(3*x)).Add(rhs, cp.B).Mod(rhs, P)
		y := new(big.Int).ModSqrt(rhs, P)
		if y == nil {
			continue
		}
		cp.Gx, cp.Gy = big.NewInt(x), y // temporarily, so that IsOnCurve etc. work
		gx, gy := cp.ScalarMult(big.NewInt(x), y, []byte{4})
		if gx.Sign() == 0 && gy.Sign() == 0 {
			cp.Gx, cp.Gy = nil, nil
			continue
		}
		if ox, oy := cp.ScalarMult(gx, gy, cp.N.Bytes()); ox.Sign() != 0 || oy.Sign() != 0 {
			cp.Gx, cp.Gy = nil, nil
			continue
		}
		cp.Gx, cp.Gy = gx, gy
	}
	if cp.Gx == nil {
		c.Class("info_tiny_curve_not_constructed")
		return
	}
	n := c.Pick(300, 6000)
	for i := 0; i < n; i++ {
		if !c.Next() {
			continue
		}
		r := c.CaseRng()
		d := new(big.Int).SetInt64(1 + int64(r.IntN(16362)))
		qx, qy := cp.ScalarBaseMult(d.Bytes())
		std := &stdecdsa.PrivateKey{PublicKey: stdecdsa.PublicKey{Curve: cp, X: qx, Y: qy}, D: d}
		fork := &ecdsa.PrivateKey{PublicKey: ecdsa.PublicKey{Curve: cp, X: new(big.Int).Set(qx), Y: new(big.Int).Set(qy)}, D: new(big.Int).Set(d)}
		digest := r.Bytes(r.Of(1, 2, 3, 20, 32))
		det := map[string]any{"curve": cp.Name, "d": d.Text(16), "digest": core.Hex(digest)}
		c.Eval(1)
		pan, pv, where := core.Guard(func() {
			sr, ss, err := stdecdsa.Sign(r, std, digest)
			if err != nil {
				c.Class("info_tiny_curve_std_sign_error")
				return
			}
			det["r"], det["s"] = sr.Text(16), ss.Text(16)
			if !ecdsa.Verify(&fork.PublicKey, digest, sr, ss) {
				c.Violation("tiny-curve:std-signature-rejected", "a crypto/ecdsa signature on a curve with cofactor 4 is rejected by this package's Verify", det)
				return
			}
			fr, fs, err := ecdsa.Sign(r, fork, digest)
			if err != nil {
				c.Violation("tiny-curve:sign-error", "Sign failed on a curve with cofactor 4: "+err.Error(), det)
				return
			}
			det["r"], det["s"] = fr.Text(16), fs.Text(16)
			if !stdecdsa.Verify(&std.PublicKey, digest, fr, fs) {
				c.Violation("tiny-curve:signature-rejected-by-std", "a signature made here on a curve with cofactor 4 is rejected by crypto/ecdsa", det)
				return
			}
			// arbitrary (r, s): the order is so small that a good share of random pairs are valid
			for k := 0; k < 40; k++ {
				rr, s2 := big.NewInt(int64(r.IntN(70000))), big.NewInt(int64(r.IntN(17000)))
				want := stdecdsa.Verify(&std.PublicKey, digest, rr, s2)
				if got := ecdsa.Verify(&fork.PublicKey, digest, rr, s2); got != want {
					det["r"], det["s"] = rr.Text(16), s2.Text(16)
					c.Violation("tiny-curve:Verify:disagrees", fmt.Sprintf("Verify returns %v where crypto/ecdsa returns %v on a curve with cofactor 4", got, want), det)
					return
				}
				if want {
					c.Class("tiny_curve_random_pairs_valid")
				}
			}
			c.Class("tiny_curve_cofactor_4_agrees")
		})
		if pan {
			det["panic"] = pv
			c.Violation("tiny-curve:panic:"+where, "panic on a curve with cofactor 4: "+pv, det)
		}
	}
}

func c13Ones(n int) []byte {
	b := make([]byte, n)
	for i := range b {
		b[i] = 0xff
	}
	return b
}
