package props

import (
	"bytes"
	"crypto/elliptic"
	"fmt"

	"github.com/cloudflare/pat-go/tokens/type3"

	"verifharness/internal/core"
	"verifharness/internal/ref"
)

func init() {
	core.Register(&core.Prop{
		ID:    "C20",
		Level: "exploration",
		Rule: "origin names of every length 0..200 (quick) / 0..4128 (thorough) not ending in 0x00 (seeded content, incl. interior zero bytes and 0x01 endings at block borders): each requested against an issuer that registered exactly that name (must be served) and against issuers that registered a near miss " +
			"{last byte changed, name||\"a\", name minus last byte, name||0x00||\"a\", the empty name} (must be refused); the wire length of each request must equal len(request(\"\")) + 32*(max(1,ceil(len/32))-1), with the base taken from the first observation. " +
			"distinct_nontrivial = distinct (name length, registered-set class) pairs",
		Floors:      []string{"served_registered_hostile_text_names", "served_registered", "refused_near_miss", "length_in_bucket", "block_border_lengths", "empty_name"},
		Assumptions: []string{"names ending in a zero byte are outside the statement"},
		Run:         runC20,
	})
}

func c20Name(r *core.Rand, n int, variant int) string {
	b := r.Bytes(n)
	for i := range b {
		if b[i] == 0 && variant != 1 {
			b[i] = 'z'
		}
	}
	if n > 0 {
		switch variant {
		case 1: // interior zero bytes, non-zero end
			if n > 3 {
				b[n/2], b[n/2+1] = 0, 0
			}
			if b[n-1] == 0 {
				b[n-1] = 'q'
			}
		case 2:
			b[n-1] = 0x01
		}
		if b[n-1] == 0 {
			b[n-1] = 'q'
		}
	}
	return string(b)
}

func runC20(c *core.Ctx) {
	curve := elliptic.P384()
	N := curve.Params().N
	rk := RSAKeys()
	key := rk[4%len(rk)]
	L := c.Pick(200, 4128)
	baseLen := -1
	reqLen := func(name string, r *core.Rand, registered []string) (int, error, error) {
		issuer := type3.NewRateLimitedIssuer(key)
		for _, o := range registered {
			issuer.AddOrigin(o)
		}
		cl := type3.NewRateLimitedClientFromSecret(ScalarBytes(r, N, 48))
		st, err := cl.CreateTokenRequest(r.Bytes(16), r.Bytes(32), ScalarBytes(r, N, 48), issuer.TokenKeyID(), issuer.TokenKey(), name, issuer.NameKey())
		if err != nil {
			return 0, err, nil
		}
		enc := st.Request().Marshal()
		_, _, eerr := issuer.Evaluate(enc)
		return len(enc), nil, eerr
	}
	// base length: the empty name (every worker computes it; it is one create)
	{
		r := c.Rng("base")
		l, err, _ := reqLen("", r, []string{""})
		if err == nil {
			baseLen = l
		}
	}
	c.Info("request_length_for_empty_name", baseLen)
	lengths := []int{}
	for n := 0; n <= L; n++ {
		lengths = append(lengths, n)
	}
	if !c.Thorough() {
		// a few longer names in the quick tier too
		lengths = append(lengths, 255, 256, 257, 258, 511, 512, 513, 1000, 1024, 4096, 4128)
	}
	// the longest names the wire format can carry: the encrypted request is a 16-bit length-prefixed string, which leaves
	// 2038 blocks (65216 bytes) for the padded name; the last two blocks' worth of lengths are all swept
	for n := 65216 - 40; n <= 65216; n++ {
		lengths = append(lengths, n)
	}
	lengths = append(lengths, 32768, 60000, 65000)
	for _, n := range lengths {
		variants := []int{0}
		if n%32 == 0 || n%32 == 1 || n%32 == 31 {
			variants = []int{0, 1, 2}
		}
		for _, variant := range variants {
			if !c.Next() {
				continue
			}
			r := c.CaseRng()
			x := c20Name(r, n, variant)
			c.Note(fmt.Sprintf("origin length %d variant %d", n, variant))
			d := map[string]any{"name_len": n, "name": core.Hex([]byte(x)), "variant": variant}
			blocks := (n + 31) / 32
			if blocks == 0 {
				blocks = 1
			}
			pan, pv, where := core.Guard(func() {
				// registered exactly: served, and the length is the bucket's
				c.Eval(1)
				l, cerr, eerr := reqLen(x, r, []string{x, "decoy.example"})
				if cerr != nil {
					c.Violation("create-error", "CreateTokenRequest failed for a name of length "+fmt.Sprint(n)+": "+cerr.Error(), d)
					return
				}
				if eerr != nil {
					c.Violation("registered-refused", "the issuer refused a request for the registered origin: "+eerr.Error(), d)
					return
				}
				c.Class("served_registered")
				want := baseLen + 32*(blocks-1)
				if baseLen >= 0 && l != want {
					d["request_len"], d["expected_len"] = l, want
					c.Violation("length-not-bucketed", fmt.Sprintf("request for a %d-byte name is %d bytes on the wire, expected %d (= empty-name length + 32*(blocks-1))", n, l, want), d)
					return
				}
				c.Class("length_in_bucket")
				if n%32 <= 1 || n%32 == 31 {
					c.Class("block_border_lengths")
				}
				if n == 0 {
					c.Class("empty_name")
				}
				c.Distinctf("len%d:registered", n)
				// near misses
				miss := map[string]string{"append-a": x + "a", "append-0-a": x + "\x00a", "empty": ""}
				if n <= 4200 {
					// a registered name that differs from the requested one by a multiple of 256 bytes in length
					miss["plus-256-bytes"] = x + string(bytes.Repeat([]byte{'a'}, 256))
					miss["plus-512-bytes-after-zeros"] = x + string(append(make([]byte, 511), 'a'))
					if n > 256 {
						miss["minus-256-bytes"] = x[:n-256]
					}
				}
				if n > 0 {
					b := []byte(x)
					b[n-1] ^= 0x20
					if b[n-1] == 0 {
						b[n-1] = 'r'
					}
					miss["last-byte-changed"] = string(b)
					miss["minus-last-byte"] = x[:n-1]
					b2 := []byte(x)
					b2[0] ^= 1
					miss["first-byte-changed"] = string(b2)
				}
				for cls, reg := range miss {
					if stripZeros(reg) == x {
						continue
					}
					c.Eval(1)
					_, cerr, eerr := reqLen(x, r, []string{reg})
					if cerr != nil {
						continue
					}
					if eerr == nil {
						d["registered"] = core.Hex([]byte(reg))
						c.Violation("near-miss-served:"+cls, "the issuer served a request for an origin that is not registered (registered: "+cls+")", d)
						return
					}
					c.Class("refused_near_miss")
					c.Distinctf("len%d:%s", n, cls)
				}
				if n == 33 {
					c.Sample("origin name", map[string]any{"length": n, "request_len": l, "blocks": blocks})
				}
			})
			if pan {
				d["panic"] = pv
				c.Violation("panic:"+where, "panic: "+pv, d)
			}
		}
	}
	// names that are protocol strings elsewhere in the stack: served when registered, like any other name
	if c.Next() {
		r := c.CaseRng()
		for _, sname := range SpecialStrings {
			if len(sname) > 0 && sname[len(sname)-1] == 0 {
				continue
			}
			c.Eval(1)
			_, cerr, eerr := reqLen(sname, r, []string{sname, "decoy.example"})
			if cerr != nil || eerr != nil {
				c.Violation("registered-refused:protocol-string", fmt.Sprintf("a request for a registered origin whose name is a protocol string elsewhere (%q) was not served: %v %v", sname, cerr, eerr), map[string]any{"name": core.Hex([]byte(sname))})
				continue
			}
			c.Class("served_registered")
		}
	}
	// names that are printf directives, invalid UTF-8, control characters, near-duplicates of each other: all registered
	// on ONE issuer, each served under its own name and recovered exactly (the second value of Evaluate is the request
	// key blinded with THAT origin's index key - checked through reqLen's finalization)
	{
		names := append(HostileNames(), LastByteNames()...)
		for lo := 0; lo < len(names); lo += 40 {
			if !c.Next() {
				continue
			}
			r := c.CaseRng()
			hi := min(lo+40, len(names))
			issuer := type3.NewRateLimitedIssuer(key)
			for _, o := range names[lo:hi] {
				issuer.AddOrigin(o)
			}
			for _, sname := range names[lo:hi] {
				c.Eval(1)
				d := map[string]any{"name": core.Hex([]byte(sname))}
				pan, pv, where := core.Guard(func() {
					cl := type3.NewRateLimitedClientFromSecret(ScalarBytes(r, N, 48))
					st, cerr := cl.CreateTokenRequest(r.Bytes(16), r.Bytes(32), ScalarBytes(r, N, 48), issuer.TokenKeyID(), issuer.TokenKey(), sname, issuer.NameKey())
					if cerr != nil {
						c.Violation("registered-refused:hostile-text", fmt.Sprintf("a request for the registered origin %q could not be created: %v", sname[:min(len(sname), 40)], cerr), d)
						return
					}
					_, brk, eerr := issuer.Evaluate(st.Request().Marshal())
					if eerr != nil {
						c.Violation("registered-refused:hostile-text", fmt.Sprintf("a request for a registered origin whose name is hostile text (%q) was not served: %v", sname[:min(len(sname), 40)], eerr), d)
						return
					}
					// served under THIS name: the second value is the request key blinded with this origin's index key
					ik := issuer.OriginIndexKey(sname)
					qx, qy, ok := ref.ECDecompress(curve, st.Request().RequestKey)
					if ik == nil || !ok {
						return
					}
					bx, by := ref.ECMul(curve, qx, qy, ref.ECDSABlindScalar(curve, ik.D, t3Ctx("IssuerBlind")))
					if !bytes.Equal(brk, ref.ECCompress(curve, bx, by)) {
						c.Violation("served-under-another-name:hostile-text", fmt.Sprintf("the request for %q was answered with another origin's index key", sname[:min(len(sname), 40)]), d)
						return
					}
					c.Class("served_registered_hostile_text_names")
				})
				if pan {
					d["panic"] = pv
					c.Violation("panic:"+where, "panic: "+pv, d)
				}
			}
		}
	}
	c.Exhaustive(fmt.Sprintf("origin name lengths 0..%d", L))
	// padding helpers directly (hook): unpad(pad(x)) == x for every length, pad length
	if c.Next() {
		r := c.CaseRng()
		for n := 0; n <= L; n++ {
			x := c20Name(r, n, n%3)
			p := type3.VerifPadOriginName(x)
			blocks := (n + 31) / 32
			if blocks == 0 {
				blocks = 1
			}
			c.Eval(1)
			if len(p) != 32*blocks || type3.VerifUnpadOriginName(p) != x {
				c.Violation("pad-unpad", fmt.Sprintf("padOriginName/unpadOriginName wrong for length %d: padded to %d bytes", n, len(p)), map[string]any{"name": core.Hex([]byte(x))})
			}
		}
	}
}

func stripZeros(s string) string {
	for len(s) > 0 && s[len(s)-1] == 0 {
		s = s[:len(s)-1]
	}
	return s
}
