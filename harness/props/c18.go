package props

import (
	"bytes"
	"crypto/elliptic"
	"crypto/rsa"
	"crypto/sha256"
	"crypto/x509"
	"encoding/pem"
	"fmt"
	"math/big"

	hpke "github.com/cisco/go-hpke"
	"github.com/cloudflare/circl/oprf"

	"github.com/cloudflare/pat-go/tokens/type1"
	"github.com/cloudflare/pat-go/tokens/type2"
	"github.com/cloudflare/pat-go/tokens/type3"
	"github.com/cloudflare/pat-go/tokens/type5"
	"github.com/cloudflare/pat-go/util"

	"verifharness/internal/core"
	"verifharness/internal/ref"
)

func init() {
	core.Register(&core.Prop{
		ID:    "C18",
		Level: "exploration",
		Rule: "RSA public keys: the 8 fixtures plus synthetic (N, E) with every modulus byte length 1..300 (all DER length-form borders at every nesting level), selected larger ones up to 8200 bits (and ~65536 bytes in the thorough tier), top bit set and clear, exponents {3, 17, 65537, 2^31-1, seeded odd}. " +
			"Oracle: MarshalTokenKeyPSSOID == DER assembled byte by byte by the reference (RFC 9578 RSASSA-PSS AlgorithmIdentifier, own length encoder) and anchored by the Rust vectors' pkS; the legacy form == the reference rsaEncryption SPKI and is parsed by crypto/x509 to the same (N, E); UnmarshalTokenKey inverts both forms. " +
			"Key ids: TokenKeyID() of type 1/2/3/5 issuers == SHA-256(reference serialization) and requests of types 1, 2, 5 carry byte 31 of it (keys whose id has different first and last bytes); type-3 requests carry SHA-256(reference EncapKey encoding) as name key id. " +
			"Related keys in sequence: issuers over the same modulus with different exponents, keys whose hex(N)||hex(E) coincide decoded back to back in both forms, keys decoded from accepted encodings with other PSS parameters / trailing bytes must encode to the prescribed DER (and give its SHA-256 as key id), name keys decoded from encoding||trailing bytes. " +
			"distinct_nontrivial = distinct (modulus byte length, top bit, exponent class) and (issuer type, key) keys",
		Floors:      []string{"pss_der_equals_reference", "legacy_der_equals_reference", "unmarshal_inverts_pss", "unmarshal_inverts_legacy", "x509_accepts_legacy", "rust_pks_anchor", "key_id_type1", "key_id_type2", "key_id_type3", "key_id_type5", "truncated_key_id_last_byte", "name_key_id", "name_key_id_decoded_suites", "key_id_same_modulus_other_exponent", "related_keys_decoded_back_to_back", "decoded_key_encodes_to_prescribed_der", "modulus_containing_pem_block", "key_id_odd_size_moduli", "moduli_with_chosen_leading_octets", "moduli_containing_der_fragments", "earlier_encodings_unchanged", "moduli_with_arithmetic_structure"},
		Assumptions: []string{"encoding needs no factorisation: synthetic moduli are arbitrary positive integers", "go-hpke's X25519 key derivation and crypto/x509 are trusted"},
		Run:         runC18,
	})
}

type c18Kept struct {
	got, snap []byte
	tag       string
}

// c18Earlier holds the last few encodings the marshal functions returned in this worker, with copies.
var c18Earlier []c18Kept

func c18Key(c *core.Ctx, n *big.Int, e int, tag string) {
	c.Eval(1)
	key := &rsa.PublicKey{N: n, E: e}
	d := map[string]any{"modulus": n.Text(16), "exponent": e}
	if len(n.Text(16)) > 600 {
		d["modulus"] = n.Text(16)[:600] + "..."
	}
	pan, pv, where := core.Guard(func() {
		want := ref.SPKIRSAPSS(n, e)
		got, err := util.MarshalTokenKeyPSSOID(key)
		got2, err2 := util.MarshalTokenKey(key, false)
		if err != nil || err2 != nil || !bytes.Equal(got, want) || !bytes.Equal(got2, want) {
			d["got"], d["want"] = core.Hex(got), core.Hex(want)
			c.Violation("MarshalTokenKeyPSSOID:differs", "the RSASSA-PSS token key encoding is not the DER prescribed for Privacy Pass token keys", d)
			return
		}
		c.Class("pss_der_equals_reference")
		// encodings handed out by earlier calls (other keys, small and large) still read as they did: a result must not
		// live in storage that the next call writes
		for _, pv := range c18Earlier {
			if !bytes.Equal(pv.got, pv.snap) {
				d["earlier_key"], d["earlier_now"], d["earlier_was"] = pv.tag, core.Hex(pv.got), core.Hex(pv.snap)
				c.Violation("MarshalTokenKey:earlier-result-changed", "a token key encoding returned by an earlier call changed when another key was encoded", d)
				c18Earlier = nil
				return
			}
		}
		c18Earlier = append(c18Earlier, c18Kept{got, clone(got), tag}, c18Kept{got2, clone(got2), tag})
		if len(c18Earlier) > 12 {
			c18Earlier = c18Earlier[len(c18Earlier)-12:]
		}
		c.Class("earlier_encodings_unchanged")
		back, err := util.UnmarshalTokenKey(clone(got))
		if err != nil || back.N.Cmp(n) != 0 || back.E != e {
			c.Violation("UnmarshalTokenKey:pss-roundtrip", fmt.Sprintf("UnmarshalTokenKey does not invert the RSASSA-PSS form (err=%v)", err), d)
			return
		}
		c.Class("unmarshal_inverts_pss")
		wantL := ref.SPKIRSAEncryption(n, e)
		gotL, err := util.MarshalTokenKey(key, true)
		gotL2, err2 := util.MarshalTokenKeyRSAEncryptionOID(key)
		if err != nil || err2 != nil || !bytes.Equal(gotL, wantL) || !bytes.Equal(gotL2, wantL) {
			d["got"], d["want"] = core.Hex(gotL), core.Hex(wantL)
			c.Violation("MarshalTokenKey:legacy-differs", "the legacy (rsaEncryption) token key encoding differs from the reference SPKI", d)
			return
		}
		c.Class("legacy_der_equals_reference")
		c18Earlier = append(c18Earlier, c18Kept{gotL, clone(gotL), tag}, c18Kept{gotL2, clone(gotL2), tag})
		backL, err := util.UnmarshalTokenKey(clone(gotL))
		if err != nil || backL.N.Cmp(n) != 0 || backL.E != e {
			c.Violation("UnmarshalTokenKey:legacy-roundtrip", fmt.Sprintf("UnmarshalTokenKey does not invert the legacy form (err=%v)", err), d)
			return
		}
		c.Class("unmarshal_inverts_legacy")
		if pk, err := x509.ParsePKIXPublicKey(gotL); err == nil {
			rp, ok := pk.(*rsa.PublicKey)
			if !ok || rp.N.Cmp(n) != 0 || rp.E != e {
				c.Violation("MarshalTokenKey:legacy-x509", "crypto/x509 parses the legacy form to a different key", d)
				return
			}
			c.Class("x509_accepts_legacy")
		} else {
			c.Class("info_x509_rejects_synthetic_modulus")
		}
		c.Distinct(tag)
	})
	if pan {
		d["panic"] = pv
		c.Violation("tokenkey:panic:"+where, "token key codec panicked: "+pv, d)
	}
}

// idStable: the key id handed out is the caller's to keep or overwrite; asking again must give the same id.
func idStable(get func() []byte, want []byte) bool {
	a := get()
	if !bytes.Equal(a, want) {
		return false
	}
	for i := range a {
		a[i] ^= 0xff
	}
	b := get()
	return bytes.Equal(b, want)
}

// c18Related: consecutive operations on RELATED keys, each judged by the stateless reference: issuers over the same
// modulus with different public exponents; keys whose hexadecimal (N, E) concatenations coincide decoded one after
// the other in both SPKI forms; keys decoded from RSASSA-PSS encodings with other parameters or trailing bytes (when
// the decoder accepts them) must still ENCODE to the prescribed DER.
func c18Related(c *core.Ctx, rk []*rsa.PrivateKey) {
	// (a) same modulus, different exponents
	for ki, k := range rk {
		if !c.Next() {
			continue
		}
		for _, order := range [][]int{{65537, 3, 17, 65537, 3}, {3, 65537, 1<<31 - 1, 5, 65537}} {
			for _, e := range order {
				c.Eval(2)
				want := sha256.Sum256(ref.SPKIRSAPSS(k.N, e))
				d := map[string]any{"fixture": ki, "exponent": e, "exponents_in_order": order}
				key := &rsa.PrivateKey{PublicKey: rsa.PublicKey{N: k.N, E: e}}
				pan, pv, where := core.Guard(func() {
					if got := type2.NewBasicPublicIssuer(key).TokenKeyID(); !bytes.Equal(got, want[:]) {
						c.Violation("keyid:type2:same-modulus-other-exponent", "type-2 TokenKeyID of an issuer whose key shares its modulus with an earlier issuer's key is not SHA-256 of ITS serialized public key", d)
						return
					}
					if got := type3.NewRateLimitedIssuer(key).TokenKeyID(); !bytes.Equal(got, want[:]) {
						c.Violation("keyid:type3:same-modulus-other-exponent", "type-3 TokenKeyID of an issuer whose key shares its modulus with an earlier issuer's key is not SHA-256 of ITS serialized public key", d)
						return
					}
					c.Class("key_id_same_modulus_other_exponent")
				})
				if pan {
					c.Violation("keyid:panic:"+where, "panic: "+pv, d)
				}
			}
		}
		c.Distinctf("related:exponents:%d", ki)
	}
	// (b) keys whose hex(N)||hex(E) coincide, decoded back to back
	for ki, k := range rk[:min(len(rk), 4)] {
		if !c.Next() {
			continue
		}
		type ne struct {
			n *big.Int
			e int
		}
		base := ne{k.N, 65537}
		pairs := [][2]ne{}
		// move leading hex digits of E to the end of N
		eh := fmt.Sprintf("%x", base.e) // "10001"
		for cut := 1; cut < len(eh); cut++ {
			n2, _ := new(big.Int).SetString(k.N.Text(16)+eh[:cut], 16)
			var e2 int
			fmt.Sscanf(eh[cut:], "%x", &e2)
			if e2 > 0 {
				pairs = append(pairs, [2]ne{base, {n2, e2}})
			}
		}
		// move trailing hex digits of N to the front of E
		nh := k.N.Text(16)
		for _, cut := range []int{1, 2, 5} {
			n2, _ := new(big.Int).SetString(nh[:len(nh)-cut], 16)
			var e2 int
			fmt.Sscanf(nh[len(nh)-cut:]+"3", "%x", &e2)
			pairs = append(pairs, [2]ne{{k.N, 3}, {n2, e2}})
		}
		for pi, pr := range pairs {
			for _, legacy := range []bool{false, true} {
				for _, order := range [][]int{{0, 1, 0}, {1, 0, 1}} {
					for _, which := range order {
						x := pr[which]
						c.Eval(1)
						var enc []byte
						if legacy {
							enc = ref.SPKIRSAEncryption(x.n, x.e)
						} else {
							enc = ref.SPKIRSAPSS(x.n, x.e)
						}
						d := map[string]any{"fixture": ki, "pair": pi, "legacy_form": legacy, "modulus": x.n.Text(16), "exponent": x.e, "other_modulus": pr[1-which].n.Text(16), "other_exponent": pr[1-which].e}
						pan, pv, where := core.Guard(func() {
							back, err := util.UnmarshalTokenKey(clone(enc))
							if err != nil || back.N.Cmp(x.n) != 0 || back.E != x.e {
								c.Violation("UnmarshalTokenKey:related-keys", fmt.Sprintf("UnmarshalTokenKey does not return the key that was encoded when a key with the same hex(N)||hex(E) was decoded just before (err=%v)", err), d)
								return
							}
							c.Class("related_keys_decoded_back_to_back")
						})
						if pan {
							c.Violation("tokenkey:panic:"+where, "panic: "+pv, d)
						}
					}
				}
			}
		}
		c.Distinctf("related:hexconcat:%d", ki)
	}
	// (b2) a modulus whose bytes contain the PEM armour of ANOTHER valid key (a decoder that also "accepts PEM" must not
	// find it), and key ids of issuers whose modulus is a few bits short of a byte boundary (no DER sign octet)
	if c.Next() {
		r := c.CaseRng()
		other := rk[1%len(rk)]
		for _, legacy := range []bool{false, true} {
			inner := ref.SPKIRSAPSS(other.N, other.E)
			if legacy {
				inner = ref.SPKIRSAEncryption(other.N, other.E)
			}
			pemBlock := pem.EncodeToMemory(&pem.Block{Type: "PUBLIC KEY", Bytes: inner})
			body := append([]byte{0xc3}, r.Bytes(40)...)
			body = append(body, '\n')
			body = append(body, pemBlock...)
			body = append(body, r.Bytes(33)...)
			body[len(body)-1] |= 1
			c18Key(c, new(big.Int).SetBytes(body), 65537, fmt.Sprintf("syn:pem-inside-modulus:legacy=%v", legacy))
			c.Class("modulus_containing_pem_block")
		}
		// moduli whose LEADING octets are what a DER INTEGER minimiser looks at (ff ff.., ff 80.., 80 00.., 00-free,
		// 7f ff..), in several sizes; and moduli that contain the DER fragments a decoder searches the key for (the
		// rsaEncryption and RSASSA-PSS OIDs with their tags, the hash and MGF1 OIDs, NULL parameters, a whole
		// AlgorithmIdentifier of the other form)
		for _, lead := range [][]byte{{0xff, 0xff}, {0xff, 0x80}, {0xff, 0x7f}, {0xff, 0xff, 0xff, 0x80}, {0x80, 0x00}, {0x80, 0x00, 0x00}, {0x7f, 0xff}, {0x01, 0x00}, {0xff, 0x00}, {0xfe, 0xff}, {0x01}} {
			for _, size := range []int{128, 256, 257, 512} {
				body := r.Bytes(size)
				copy(body, lead)
				body[len(body)-1] |= 1
				c18Key(c, new(big.Int).SetBytes(body), []int{65537, 3}[size%2], fmt.Sprintf("syn:leading-octets-%x:%d", lead, size))
				c.Class("moduli_with_chosen_leading_octets")
			}
		}
		// moduli with arithmetic structure (a codec has no business looking at it): perfect squares and cubes of odd numbers,
		// a prime, a product of small primes, 2^k +- 1, a repunit, an even number
		{
			odd := func(n int) *big.Int {
				v := new(big.Int).SetBytes(r.Bytes(n))
				v.SetBit(v, 0, 1)
				v.SetBit(v, 8*n-1, 1)
				return v
			}
			var structured []*big.Int
			for _, n := range []int{32, 64, 128, 129} {
				x := odd(n)
				structured = append(structured, new(big.Int).Mul(x, x), new(big.Int).Exp(odd(n/2), big.NewInt(3), nil), new(big.Int).Exp(odd(n/4), big.NewInt(4), nil))
			}
			structured = append(structured, elliptic.P521().Params().P, elliptic.P384().Params().N)
			sm := big.NewInt(1)
			for _, q := range []int64{3, 5, 7, 11, 13, 17, 19, 23, 29, 31, 37, 41, 43, 47} {
				for k := 0; k < 30; k++ {
					sm.Mul(sm, big.NewInt(q))
				}
			}
			structured = append(structured, sm)
			for _, k := range []uint{512, 1024, 2047, 2048} {
				p2 := new(big.Int).Lsh(big.NewInt(1), k)
				structured = append(structured, new(big.Int).Add(p2, big.NewInt(1)), new(big.Int).Sub(p2, big.NewInt(1)), p2)
			}
			structured = append(structured, new(big.Int).SetBytes(bytes.Repeat([]byte{0x11}, 256)), new(big.Int).Lsh(odd(255), 8))
			for si, n := range structured {
				c18Key(c, n, []int{65537, 3}[si%2], fmt.Sprintf("syn:structured-modulus#%d", si))
				c.Class("moduli_with_arithmetic_structure")
			}
		}
		pa, ra := spkiAlgs()
		frags := [][]byte{
			{0x06, 0x09, 0x2a, 0x86, 0x48, 0x86, 0xf7, 0x0d, 0x01, 0x01, 0x01},                         // OID rsaEncryption
			{0x06, 0x09, 0x2a, 0x86, 0x48, 0x86, 0xf7, 0x0d, 0x01, 0x01, 0x0a},                         // OID RSASSA-PSS
			{0x06, 0x09, 0x2a, 0x86, 0x48, 0x86, 0xf7, 0x0d, 0x01, 0x01, 0x08},                         // OID MGF1
			{0x06, 0x09, 0x60, 0x86, 0x48, 0x01, 0x65, 0x03, 0x04, 0x02, 0x02},                         // OID SHA-384
			{0x2a, 0x86, 0x48, 0x86, 0xf7, 0x0d, 0x01, 0x01, 0x01, 0x05, 0x00},                         // rsaEncryption + NULL
			{0x30, 0x0d, 0x06, 0x09, 0x2a, 0x86, 0x48, 0x86, 0xf7, 0x0d, 0x01, 0x01, 0x01, 0x05, 0x00}, // AlgorithmIdentifier
			pa, ra,
		}
		for fi, frag := range frags {
			for _, at := range []int{1, 60, 256 - len(frag) - 1} {
				if at < 1 {
					continue
				}
				body := r.Bytes(256)
				body[0] |= 0x80
				copy(body[at:], frag)
				body[255] |= 1
				c18Key(c, new(big.Int).SetBytes(body), 65537, fmt.Sprintf("syn:der-fragment-%d-inside-modulus@%d", fi, at))
				c.Class("moduli_containing_der_fragments")
			}
		}
		for bits := 2033; bits <= 2056; bits++ {
			n := new(big.Int).SetBytes(r.Bytes((bits + 7) / 8))
			n.SetBit(n, bits-1, 1)
			for i := bits; i < 8*((bits+7)/8); i++ {
				n.SetBit(n, i, 0)
			}
			n.SetBit(n, 0, 1)
			for _, e := range []int{65537, 3} {
				c.Eval(1)
				want := sha256.Sum256(ref.SPKIRSAPSS(n, e))
				key := &rsa.PrivateKey{PublicKey: rsa.PublicKey{N: n, E: e}}
				d := map[string]any{"modulus_bits": bits, "exponent": e, "modulus": n.Text(16)}
				pan, pv, where := core.Guard(func() {
					if got := type2.NewBasicPublicIssuer(key).TokenKeyID(); !bytes.Equal(got, want[:]) {
						c.Violation("keyid:type2:odd-size-modulus", "type-2 TokenKeyID is not SHA-256 of the serialized public key for a modulus that is not a whole number of bytes", d)
						return
					}
					if got := type3.NewRateLimitedIssuer(key).TokenKeyID(); !bytes.Equal(got, want[:]) {
						c.Violation("keyid:type3:odd-size-modulus", "type-3 TokenKeyID is not SHA-256 of the serialized public key for a modulus that is not a whole number of bytes", d)
						return
					}
					c.Class("key_id_odd_size_moduli")
				})
				if pan {
					c.Violation("keyid:panic:"+where, "panic: "+pv, d)
				}
			}
		}
	}
	// (c) other PSS parameters / trailing bytes: whatever the decoder accepts must re-encode to the prescribed DER
	for ki, k := range rk[:min(len(rk), 4)] {
		if !c.Next() {
			continue
		}
		pres := ref.SPKIRSAPSS(k.N, k.E)
		variants := map[string][]byte{"prescribed": pres, "trailing-bytes": append(clone(pres), 0xde, 0xad, 0xbe, 0xef), "trailing-zero": append(clone(pres), 0)}
		if i := bytes.LastIndex(pres[:80], []byte{0xa2, 0x03, 0x02, 0x01, 0x30}); i >= 0 {
			v := clone(pres)
			v[i+4] = 0x20
			variants["salt-length-32"] = v
			v2 := clone(pres)
			v2[i+4] = 0x00
			variants["salt-length-0"] = v2
		}
		sha384 := []byte{0x60, 0x86, 0x48, 0x01, 0x65, 0x03, 0x04, 0x02, 0x02}
		if bytes.Count(pres[:80], sha384) == 2 {
			v := bytes.Replace(clone(pres[:80]), sha384, []byte{0x60, 0x86, 0x48, 0x01, 0x65, 0x03, 0x04, 0x02, 0x01}, 2)
			variants["sha-256-parameters"] = append(v, pres[80:]...)
			v1 := bytes.Replace(clone(pres[:80]), sha384, []byte{0x60, 0x86, 0x48, 0x01, 0x65, 0x03, 0x04, 0x02, 0x03}, 1)
			variants["sha-512-hash-only"] = append(v1, pres[80:]...)
		}
		names := []string{"prescribed", "salt-length-32", "trailing-bytes", "sha-256-parameters", "salt-length-0", "trailing-zero", "sha-512-hash-only", "prescribed"}
		for _, name := range names {
			enc, ok := variants[name]
			if !ok {
				continue
			}
			c.Eval(1)
			d := map[string]any{"fixture": ki, "variant": name, "encoding_head": core.Hex(enc[:min(len(enc), 90)])}
			pan, pv, where := core.Guard(func() {
				back, err := util.UnmarshalTokenKey(clone(enc))
				if err != nil {
					c.Class("nonprescribed_encoding_rejected")
					return
				}
				if back.N.Cmp(k.N) != 0 || back.E != k.E {
					c.Violation("UnmarshalTokenKey:variant-decodes-to-other-key", "an accepted RSASSA-PSS encoding decodes to another key", d)
					return
				}
				got, err := util.MarshalTokenKeyPSSOID(back)
				if err != nil || !bytes.Equal(got, pres) {
					d["got_head"] = core.Hex(got[:min(len(got), 90)])
					c.Violation("MarshalTokenKeyPSSOID:decoded-key-encodes-differently", "a key decoded from an accepted encoding ("+name+") does not encode to the DER prescribed for Privacy Pass token keys", d)
					return
				}
				id := sha256.Sum256(pres)
				if got := type2.NewBasicPublicIssuer(&rsa.PrivateKey{PublicKey: *back}).TokenKeyID(); !bytes.Equal(got, id[:]) {
					c.Violation("keyid:type2:decoded-key", "the key id of a key decoded from an accepted encoding ("+name+") is not SHA-256 of the prescribed serialization", d)
					return
				}
				c.Class("decoded_key_encodes_to_prescribed_der")
			})
			if pan {
				c.Violation("tokenkey:panic:"+where, "panic: "+pv, d)
			}
		}
		c.Distinctf("related:variants:%d", ki)
	}
}

func runC18(c *core.Ctx) {
	rk := RSAKeys()
	c18Related(c, rk)
	// ---- DER: fixtures
	for i, k := range rk {
		if c.Next() {
			c18Key(c, k.N, k.E, fmt.Sprintf("fixture:%d", i))
			if i == 0 {
				c.Sample("fixture key DER", map[string]any{"pss_form": core.Hex(ref.SPKIRSAPSS(k.N, k.E))})
			}
		}
	}
	// ---- DER: synthetic moduli
	exps := []int{3, 17, 65537, 1<<31 - 1, 1 << 31, 1<<32 + 1, 1<<62 + 1, 0, 1, 2, 127, 128, 255, 256, 32767, 32768, 65535, 65536, 1<<63 - 1}
	var lens []int
	for l := 1; l <= 300; l++ {
		lens = append(lens, l)
	}
	lens = append(lens, 384, 512, 1024, 1025, 65450, 65453, 65454, 65455, 65534, 65535, 65536)
	if c.Thorough() {
		for l := 65380; l <= 65560; l += 4 {
			lens = append(lens, l)
		}
		lens = append(lens, 70000)
	}
	reps := c.Pick(2, 60)
	for _, l := range lens {
		for rep := 0; rep < reps; rep++ {
			if !c.Next() {
				continue
			}
			r := c.CaseRng()
			b := r.Bytes(l)
			top := rep % 2
			if top == 0 {
				b[0] |= 0x80
			} else {
				b[0] &= 0x7f
				if b[0] == 0 {
					b[0] = 1
				}
			}
			b[l-1] |= 1
			e := exps[(l+rep/2)%len(exps)]
			eclass := fmt.Sprint(e)
			if rep%7 == 6 {
				e = (r.IntN(1<<30) << 1) | 1
				eclass = "seeded"
			}
			c18Key(c, new(big.Int).SetBytes(b), e, fmt.Sprintf("syn:len%d:top%d:e%s", l, top, eclass))
		}
	}
	// bit lengths that are not byte multiples
	for bitsN := 8; bitsN <= 8200; bitsN += c.Pick(97, 7) {
		if !c.Next() {
			continue
		}
		r := c.CaseRng()
		n := new(big.Int).SetBytes(r.Bytes((bitsN + 7) / 8))
		n.SetBit(n, bitsN-1, 1)
		for i := bitsN; i < 8*((bitsN+7)/8); i++ {
			n.SetBit(n, i, 0)
		}
		n.SetBit(n, 0, 1)
		c18Key(c, n, 65537, fmt.Sprintf("syn:bits%d", bitsN))
	}
	// ---- Rust anchor
	if c.Next() {
		if vs, err := LoadRustVectors(); err == nil {
			for vi, v := range vs {
				for ii, is := range v.Issuance {
					c.Eval(1)
					switch is.Type {
					case 2:
						got, _ := util.MarshalTokenKeyPSSOID(&is.Key2.PublicKey)
						if !bytes.Equal(got, is.PkS) || !bytes.Equal(ref.SPKIRSAPSS(is.Key2.N, is.Key2.E), is.PkS) {
							c.Violation("rust:pkS-differs", "the token key encoding differs from the Rust implementation's pkS", map[string]any{"vector": vi, "issuance": ii, "got": core.Hex(got), "want": core.Hex(is.PkS)})
							continue
						}
						// the token's key id field is SHA-256(pkS)
						id := sha256.Sum256(is.PkS)
						if !bytes.Equal(is.Token[66:98], id[:]) || !bytes.Equal(type2.NewBasicPublicIssuer(is.Key2).TokenKeyID(), id[:]) {
							c.Violation("rust:key-id-differs", "TokenKeyID differs from SHA-256(pkS) / the key id in the Rust token", map[string]any{"vector": vi, "issuance": ii})
							continue
						}
						c.Class("rust_pks_anchor")
					case 1:
						id := sha256.Sum256(is.PkS)
						if !bytes.Equal(is.Token[66:98], id[:]) || !bytes.Equal(type1.NewBasicPrivateIssuer(is.Key1).TokenKeyID(), id[:]) {
							c.Violation("rust:key-id-differs", "TokenKeyID differs from SHA-256(pkS) / the key id in the Rust token", map[string]any{"vector": vi, "issuance": ii})
							continue
						}
						c.Class("rust_pks_anchor")
					}
					c.Distinctf("rust:%d:%d", vi, ii)
				}
			}
		}
	}
	// ---- key ids
	nk := c.Pick(24, 2000)
	for i := 0; i < nk; i++ {
		if !c.Next() {
			continue
		}
		r := c.CaseRng()
		c.Eval(4)
		pan, pv, where := core.Guard(func() {
			// type 1 and type 5: resample until first and last id byte differ
			for _, suite := range []oprf.Suite{oprf.SuiteP384, oprf.SuiteRistretto255} {
				var key *oprf.PrivateKey
				var id []byte
				for {
					key = VOPRFKey(suite, r.Bytes(32))
					id = RefVOPRFKeyID(key)
					if id[0] != id[31] {
						break
					}
				}
				d := map[string]any{"suite": suite.Identifier(), "key_id": core.Hex(id)}
				if suite == oprf.SuiteP384 {
					iss := type1.NewBasicPrivateIssuer(FreshVOPRFKey(suite, key))
					if !idStable(iss.TokenKeyID, id) {
						c.Violation("keyid:type1", "type-1 TokenKeyID is not (or does not stay) SHA-256 of the serialized public key", d)
						return
					}
					c.Class("key_id_type1")
					st, err := type1.NewBasicPrivateClient().CreateTokenRequest(r.Bytes(8), r.Bytes(32), iss.TokenKeyID(), iss.TokenKey())
					if err != nil || st.Request().TokenKeyID != id[31] || st.Request().Marshal()[2] != id[31] || st.Request().TruncatedTokenKeyID() != id[31] || st.Request().Type() != 1 {
						c.Violation("truncated-keyid:type1", "a type-1 request does not carry the last byte of the key id", d)
						return
					}
					c.Class("truncated_key_id_last_byte")
				} else {
					iss := type5.NewBatchedPrivateIssuer(FreshVOPRFKey(suite, key))
					if !idStable(iss.TokenKeyID, id) {
						c.Violation("keyid:type5", "type-5 TokenKeyID is not (or does not stay) SHA-256 of the serialized public key", d)
						return
					}
					c.Class("key_id_type5")
					st, err := type5.NewBatchedPrivateClient().CreateTokenRequest(r.Bytes(8), [][]byte{r.Bytes(32)}, iss.TokenKeyID(), iss.TokenKey())
					if err != nil || st.Request().TokenKeyID != id[31] || st.Request().Marshal()[2] != id[31] || st.Request().TruncatedTokenKeyID() != id[31] || st.Request().Type() != 5 || iss.Type() != 5 {
						c.Violation("truncated-keyid:type5", "a type-5 request does not carry the last byte of the key id", d)
						return
					}
					c.Class("truncated_key_id_last_byte")
				}
			}
			// type 2 and type 3 over the fixtures
			key := rk[i%len(rk)]
			idA := sha256.Sum256(ref.SPKIRSAPSS(key.N, key.E))
			id := idA[:]
			d := map[string]any{"fixture": i % len(rk), "key_id": core.Hex(id)}
			iss2 := type2.NewBasicPublicIssuer(key)
			if !idStable(iss2.TokenKeyID, id) {
				c.Violation("keyid:type2", "type-2 TokenKeyID is not SHA-256 of the RSASSA-PSS SPKI", d)
				return
			}
			c.Class("key_id_type2")
			if id[0] != id[31] {
				st, err := type2.NewBasicPublicClient().CreateTokenRequest(r.Bytes(8), r.Bytes(32), iss2.TokenKeyID(), iss2.TokenKey())
				if err != nil || st.Request().TokenKeyID != id[31] || st.Request().Marshal()[2] != id[31] || st.Request().TruncatedTokenKeyID() != id[31] || st.Request().Type() != 2 {
					c.Violation("truncated-keyid:type2", "a type-2 request does not carry the last byte of the key id", d)
					return
				}
				c.Class("truncated_key_id_last_byte")
			}
			iss3 := type3.NewRateLimitedIssuer(key)
			if !idStable(iss3.TokenKeyID, id) {
				c.Violation("keyid:type3", "type-3 TokenKeyID is not SHA-256 of the RSASSA-PSS SPKI", d)
				return
			}
			c.Class("key_id_type3")
			// name key id
			iss3.AddOrigin("origin.example")
			enc := iss3.NameKey().Marshal()
			if len(enc) != 39 || enc[1] != 0 || enc[2] != 0x20 || enc[35] != 0 || enc[36] != 1 || enc[37] != 0 || enc[38] != 1 {
				c.Violation("namekey:layout", "the name key encoding is not key_id||kem||public key||kdf||aead with the fixed suite", map[string]any{"encoding": core.Hex(enc)})
				return
			}
			curve := elliptic.P384()
			cl := type3.NewRateLimitedClientFromSecret(ScalarBytes(r, curve.Params().N, 48))
			st, err := cl.CreateTokenRequest(r.Bytes(8), r.Bytes(32), ScalarBytes(r, curve.Params().N, 48), iss3.TokenKeyID(), iss3.TokenKey(), "origin.example", iss3.NameKey())
			nkid := sha256.Sum256(enc)
			if err != nil || !bytes.Equal(st.Request().NameKeyID, nkid[:]) || !bytes.Equal(st.Request().Marshal()[51:83], nkid[:]) {
				c.Violation("namekeyid:issuer-key", "a type-3 request does not carry SHA-256 of the serialized name key", d)
				return
			}
			// a name key derived from a seed: the reference encoding is assembled from go-hpke's public key bytes
			seed := r.Bytes(32)
			pk, err := type3.CreatePrivateEncapKeyFromSeed(seed)
			if err != nil {
				c.Violation("namekey:create", err.Error(), nil)
				return
			}
			suite, _ := hpke.AssembleCipherSuite(hpke.DHKEM_X25519, hpke.KDF_HKDF_SHA256, hpke.AEAD_AESGCM128)
			_, hp, err := suite.KEM.DeriveKeyPair(seed)
			must(err)
			refEnc := append([]byte{1, 0, 0x20}, suite.KEM.SerializePublicKey(hp)...)
			refEnc = append(refEnc, 0, 1, 0, 1)
			if !bytes.Equal(pk.Public().Marshal(), refEnc) {
				c.Violation("namekey:encoding", "EncapKey.Marshal differs from the reference encoding", map[string]any{"got": core.Hex(pk.Public().Marshal()), "want": core.Hex(refEnc)})
				return
			}
			st2, err := cl.CreateTokenRequest(r.Bytes(8), r.Bytes(32), ScalarBytes(r, curve.Params().N, 48), iss3.TokenKeyID(), iss3.TokenKey(), "origin.example", pk.Public())
			nk2 := sha256.Sum256(refEnc)
			if err != nil || !bytes.Equal(st2.Request().NameKeyID, nk2[:]) {
				c.Violation("namekeyid:seeded-key", "a type-3 request does not carry SHA-256 of the reference EncapKey encoding", d)
				return
			}
			// name keys received as bytes with every KDF/AEAD id the HPKE library knows: the request must carry
			// SHA-256 of exactly the bytes the client was given
			for kdf := byte(1); kdf <= 3; kdf++ {
				for aead := byte(1); aead <= 3; aead++ {
					b := clone(enc)
					b[36], b[38] = kdf, aead
					nk, err := type3.UnmarshalEncapKey(clone(b))
					if err != nil {
						continue
					}
					st3, err := cl.CreateTokenRequest(r.Bytes(8), r.Bytes(32), ScalarBytes(r, curve.Params().N, 48), iss3.TokenKeyID(), iss3.TokenKey(), "origin.example", nk)
					want := sha256.Sum256(b)
					if err != nil || !bytes.Equal(st3.Request().NameKeyID, want[:]) {
						c.Violation("namekeyid:decoded-key", "a type-3 request made with a name key decoded from bytes does not carry SHA-256 of those bytes", map[string]any{"name_key": core.Hex(b), "kdf_id": kdf, "aead_id": aead})
						return
					}
					c.Class("name_key_id_decoded_suites")
				}
			}
			// a name key decoded from its encoding followed by other bytes (if the decoder accepts that): the request carries
			// SHA-256 of the key's serialization, i.e. of what Marshal returns for it, and the issuer owning the key serves it
			for _, tail := range [][]byte{{0}, {0xde, 0xad}, enc} {
				nk, err := type3.UnmarshalEncapKey(append(clone(enc), tail...))
				if err != nil {
					c.Class("name_key_with_trailing_bytes_rejected")
					continue
				}
				st4, err := cl.CreateTokenRequest(r.Bytes(8), r.Bytes(32), ScalarBytes(r, curve.Params().N, 48), iss3.TokenKeyID(), iss3.TokenKey(), "origin.example", nk)
				want := sha256.Sum256(nk.Marshal())
				if err != nil || !bytes.Equal(st4.Request().NameKeyID, want[:]) || !bytes.Equal(nk.Marshal(), enc) {
					c.Violation("namekeyid:decoded-with-trailing-bytes", "a type-3 request made with a name key decoded from its encoding followed by other bytes does not carry SHA-256 of the serialized name key", map[string]any{"name_key": core.Hex(enc), "trailing": core.Hex(tail)})
					return
				}
				if _, _, err := iss3.Evaluate(st4.Request().Marshal()); err != nil {
					c.Violation("namekeyid:decoded-with-trailing-bytes-not-served", "the issuer owning the name key refuses a request made with that key decoded from its encoding followed by other bytes: "+err.Error(), map[string]any{"name_key": core.Hex(enc), "trailing": core.Hex(tail)})
					return
				}
				c.Class("name_key_with_trailing_bytes_consistent")
			}
			c.Class("name_key_id")
			c.Distinctf("keyid:%d", i)
			if i < 1 {
				c.Sample("key ids", map[string]any{"type2_key_id": core.Hex(id), "name_key_id": core.Hex(nkid[:])})
			}
		})
		if pan {
			c.Violation("keyid:panic:"+where, "panic: "+pv, nil)
		}
	}
}
