package props

import (
	"bytes"
	"crypto/elliptic"
	"crypto/rsa"
	"encoding/hex"
	"encoding/json"
	"fmt"
	"math/big"
	"os"
	"path/filepath"
	"sort"
	"time"

	"github.com/cloudflare/circl/group"
	"github.com/cloudflare/circl/oprf"

	"github.com/cloudflare/pat-go/tokens"
	"github.com/cloudflare/pat-go/tokens/type1"
	"github.com/cloudflare/pat-go/tokens/type2"
	"github.com/cloudflare/pat-go/tokens/type3"
	"github.com/cloudflare/pat-go/tokens/type5"

	"verifharness/internal/core"
	"verifharness/internal/ref"
)

// Long-lived sessions: ONE client object, ONE issuer object, ONE issuer-side request object and ONE receive
// buffer serve a sequence of honest issuance runs whose inputs are related to the run before (same challenge and
// a new nonce, same nonce and a new challenge, an exact repeat, one byte changed), and the caller hands every
// argument over in buffers it refills IN PLACE between runs (and scribbles over right after the call that took
// them). Each run must still satisfy the C01 oracle for ITS OWN inputs: anything a client or issuer remembers from
// an earlier run, or keeps by reference instead of by value, shows as a token for the wrong challenge/nonce or a
// response the client cannot finalize.

type c01Adapter struct {
	name    string
	typ     uint16
	authLen int
	kid     []byte
	// create makes a request from the caller's buffers and returns the request encoding and the finalizer
	create func(chal []byte, nonces [][]byte, kid []byte, r *core.Rand, fixedBlind bool, keepBlind bool) (req func() []byte, fin func([]byte) ([]tokens.Token, error), err error)
	// evaluate is the issuer side: decode rx (into the long-lived object when reuseObj) and evaluate
	evaluate func(rx []byte, reuseObj bool) ([]byte, error)
	// valid is the reference validity check of one token for (nonce, challenge)
	valid func(tok tokens.Token, nonce, chal []byte) error
	batch bool
}

func c01RunSession(c *core.Ctx, a *c01Adapter, r *core.Rand, steps int, tag string) {
	chalBuf := make([]byte, 0, 256)
	kidBuf := clone(a.kid)
	nonceBufs := [][]byte{make([]byte, 32), make([]byte, 32), make([]byte, 32)}
	rx := make([]byte, 0, 8192)
	tx := make([]byte, 0, 8192)
	var prevChal []byte
	var prevNonces [][]byte
	var trace []string
	for step := 0; step < steps; step++ {
		mode := r.IntN(6)
		if step == 0 {
			mode = 0
		}
		nb := 1
		if a.batch {
			nb = 1 + r.IntN(3)
		}
		var chal []byte
		var nonces [][]byte
		switch mode {
		case 0: // unrelated
			chal = r.Bytes(r.Of(0, 1, 32, 33, 70))
		case 1, 5: // same challenge, new nonce(s)
			chal = clone(prevChal)
		case 2: // new challenge of the same length, same nonce(s)
			chal = r.Bytes(len(prevChal))
			nonces = prevNonces
		case 3: // exact repeat
			chal, nonces = clone(prevChal), prevNonces
		case 4: // one byte of the challenge changed
			chal = clone(prevChal)
			if len(chal) > 0 {
				chal[r.IntN(len(chal))] ^= 0x01
			} else {
				chal = []byte{1}
			}
			nonces = prevNonces
		}
		if nonces == nil || len(nonces) != nb {
			nonces = nil
			for j := 0; j < nb; j++ {
				nonces = append(nonces, r.Bytes(32))
			}
		}
		trace = append(trace, fmt.Sprintf("mode%d/clen%d/n%d", mode, len(chal), nb))
		// the caller's buffers, refilled in place
		chalBuf = append(chalBuf[:0], chal...)
		var nArgs [][]byte
		for j := range nonces {
			copy(nonceBufs[j], nonces[j])
			nArgs = append(nArgs, nonceBufs[j])
		}
		c.Eval(1)
		d := map[string]any{"type": a.name, "runs_so_far": clone2(trace), "challenge": core.Hex(chal), "tag": tag}
		bad := func(cls, what string) {
			c.Violation(a.name+":session:"+cls, a.name+" honest issuance in a long-lived session (objects and argument buffers reused): "+what, d)
		}
		stop := false
		pan, pv, where := core.Guard(func() {
			req, fin, err := a.create(chalBuf, nArgs, kidBuf, r, step%2 == 1 || mode >= 2, mode >= 2 && mode <= 4 && step > 1)
			if err != nil {
				bad("create-error", "CreateTokenRequest failed: "+err.Error())
				stop = true
				return
			}
			rx = append(rx[:0], req()...)
			// the caller is done with its argument buffers: it reuses them at once
			if step%3 != 2 {
				for i := range chalBuf {
					chalBuf[i] ^= 0xa5
				}
				for _, nb := range nArgs {
					for i := range nb {
						nb[i] ^= 0x5a
					}
				}
			}
			resp, err := a.evaluate(rx, step%2 == 0)
			if err != nil {
				bad("evaluate-error", "Evaluate failed: "+err.Error())
				stop = true
				return
			}
			tx = append(tx[:0], resp...)
			toks, err := fin(tx)
			if err != nil {
				bad("finalize-error", "Finalize failed: "+err.Error())
				stop = true
				return
			}
			if len(toks) != len(nonces) {
				bad("token-count", fmt.Sprintf("%d tokens for %d nonces", len(toks), len(nonces)))
				stop = true
				return
			}
			for j, tok := range toks {
				if cls, dd := checkTokenLayout(tok, a.typ, nonces[j], chal, a.kid, a.authLen); cls != "" {
					for k, v := range dd {
						d[k] = v
					}
					bad(cls, "the token is not type||nonce||SHA-256(challenge)||key id||authenticator for THIS run's challenge and nonce")
					stop = true
					return
				}
				if err := a.valid(tok, nonces[j], chal); err != nil {
					bad("token-invalid", "the token does not verify under the issuer key: "+err.Error())
					stop = true
					return
				}
			}
		})
		if pan {
			bad("panic:"+where, "panic: "+pv)
			return
		}
		if stop {
			return
		}
		prevChal, prevNonces = chal, nonces
		c.Class("session_runs_valid")
	}
	c.Distinctf("session:%s:%s", a.name, tag)
}

func c01Adapters(r *core.Rand, k1, k5 *oprf.PrivateKey, rk *rsa.PrivateKey) []*c01Adapter {
	var out []*c01Adapter
	{
		issuer := type1.NewBasicPrivateIssuer(k1)
		client := type1.NewBasicPrivateClient()
		obj := new(type1.BasicPrivateTokenRequest)
		kid := issuer.TokenKeyID()
		blindBuf := make([]byte, 48)
		have := false
		out = append(out, &c01Adapter{name: "type1", typ: 1, authLen: 48, kid: kid,
			create: func(chal []byte, nonces [][]byte, kidArg []byte, r *core.Rand, fixed bool, keep bool) (func() []byte, func([]byte) ([]tokens.Token, error), error) {
				var st type1.BasicPrivateTokenRequestState
				var err error
				if fixed {
					if !keep || !have {
						copy(blindBuf, c01EdgeScalar(r, 4+r.IntN(4), group.P384))
						have = true
					}
					st, err = client.CreateTokenRequestWithBlind(chal, nonces[0], kidArg, issuer.TokenKey(), blindBuf)
				} else {
					st, err = client.CreateTokenRequest(chal, nonces[0], kidArg, issuer.TokenKey())
				}
				if err != nil {
					return nil, nil, err
				}
				return func() []byte { return st.Request().Marshal() }, func(b []byte) ([]tokens.Token, error) {
					t, err := st.FinalizeToken(b)
					return []tokens.Token{t}, err
				}, nil
			},
			evaluate: func(rx []byte, reuse bool) ([]byte, error) {
				o := obj
				if !reuse {
					o = new(type1.BasicPrivateTokenRequest)
				}
				if !o.Unmarshal(rx) {
					return nil, fmt.Errorf("issuer-side decoder rejected the request bytes")
				}
				return issuer.Evaluate(o)
			},
			valid: func(tok tokens.Token, nonce, chal []byte) error {
				if !bytes.Equal(tok.Authenticator, RefVOPRF(oprf.SuiteP384, k1, ref.TokenBytes(1, nonce, chal, kid, nil))) {
					return fmt.Errorf("authenticator != VOPRF(key, token input)")
				}
				return issuer.Verify(tok)
			}})
	}
	{
		issuer := type2.NewBasicPublicIssuer(rk)
		client := type2.NewBasicPublicClient()
		obj := new(type2.BasicPublicTokenRequest)
		kid := issuer.TokenKeyID()
		blindBuf := make([]byte, 256)
		saltBuf := make([]byte, 48)
		have := false
		out = append(out, &c01Adapter{name: "type2", typ: 2, authLen: 256, kid: kid,
			create: func(chal []byte, nonces [][]byte, kidArg []byte, r *core.Rand, fixed bool, keep bool) (func() []byte, func([]byte) ([]tokens.Token, error), error) {
				var st type2.BasicPublicTokenRequestState
				var err error
				if fixed {
					if !keep || !have {
						copy(blindBuf, RSABlind(r, 5+r.IntN(3), rk))
						copy(saltBuf, r.Bytes(48))
						have = true
					}
					st, err = client.CreateTokenRequestWithBlind(chal, nonces[0], kidArg, issuer.TokenKey(), blindBuf, saltBuf)
				} else {
					st, err = client.CreateTokenRequest(chal, nonces[0], kidArg, issuer.TokenKey())
				}
				if err != nil {
					return nil, nil, err
				}
				return func() []byte { return st.Request().Marshal() }, func(b []byte) ([]tokens.Token, error) {
					t, err := st.FinalizeToken(b)
					return []tokens.Token{t}, err
				}, nil
			},
			evaluate: func(rx []byte, reuse bool) ([]byte, error) {
				o := obj
				if !reuse {
					o = new(type2.BasicPublicTokenRequest)
				}
				if !o.Unmarshal(rx) {
					return nil, fmt.Errorf("issuer-side decoder rejected the request bytes")
				}
				return issuer.Evaluate(o)
			},
			valid: func(tok tokens.Token, nonce, chal []byte) error {
				return ref.VerifyRSAToken(&rk.PublicKey, ref.TokenBytes(2, nonce, chal, kid, nil), tok.Authenticator)
			}})
	}
	{
		issuer := type5.NewBatchedPrivateIssuer(k5)
		client := type5.NewBatchedPrivateClient()
		obj := new(type5.BatchedPrivateTokenRequest)
		kid := issuer.TokenKeyID()
		blindBufs := [][]byte{make([]byte, 32), make([]byte, 32), make([]byte, 32)}
		have := make([]bool, 3)
		out = append(out, &c01Adapter{name: "type5", typ: 5, authLen: 64, kid: kid, batch: true,
			create: func(chal []byte, nonces [][]byte, kidArg []byte, r *core.Rand, fixed bool, keep bool) (func() []byte, func([]byte) ([]tokens.Token, error), error) {
				var st type5.BatchedPrivateTokenRequestState
				var err error
				if fixed {
					var bl [][]byte
					for j := range nonces {
						if !keep || !have[j] {
							copy(blindBufs[j], c01EdgeScalar(r, 4+r.IntN(4), group.Ristretto255))
							have[j] = true
						}
						bl = append(bl, blindBufs[j])
					}
					st, err = client.CreateTokenRequestWithBlinds(chal, nonces, kidArg, issuer.TokenKey(), bl)
				} else {
					st, err = client.CreateTokenRequest(chal, nonces, kidArg, issuer.TokenKey())
				}
				if err != nil {
					return nil, nil, err
				}
				return func() []byte { return st.Request().Marshal() }, st.FinalizeTokens, nil
			},
			evaluate: func(rx []byte, reuse bool) ([]byte, error) {
				o := obj
				if !reuse {
					o = new(type5.BatchedPrivateTokenRequest)
				}
				if !o.Unmarshal(rx) {
					return nil, fmt.Errorf("issuer-side decoder rejected the request bytes")
				}
				return issuer.Evaluate(o)
			},
			valid: func(tok tokens.Token, nonce, chal []byte) error {
				if !bytes.Equal(tok.Authenticator, RefVOPRF(oprf.SuiteRistretto255, k5, ref.TokenBytes(5, nonce, chal, kid, nil))) {
					return fmt.Errorf("authenticator != VOPRF(key, token input)")
				}
				return issuer.Verify(tok)
			}})
	}
	{
		curve := elliptic.P384()
		issuer := type3.NewRateLimitedIssuer(rk)
		origins := []string{"origin.example", "origin.example2", "", "another.example"}
		for _, o := range origins {
			issuer.AddOrigin(o)
		}
		client := type3.NewRateLimitedClientFromSecret(ScalarBytes(r, curve.Params().N, 48))
		kid := issuer.TokenKeyID()
		blindBuf := make([]byte, 48)
		n := 0
		out = append(out, &c01Adapter{name: "type3", typ: 3, authLen: 256, kid: kid,
			create: func(chal []byte, nonces [][]byte, kidArg []byte, r *core.Rand, fixed bool, keep bool) (func() []byte, func([]byte) ([]tokens.Token, error), error) {
				n++
				if !keep || n == 1 {
					copy(blindBuf, ScalarBytes(r, curve.Params().N, 48)) // otherwise: the same request blind as in the run before
				}
				st, err := client.CreateTokenRequest(chal, nonces[0], blindBuf, kidArg, issuer.TokenKey(), origins[r.IntN(len(origins))], issuer.NameKey())
				if err != nil {
					return nil, nil, err
				}
				return func() []byte { return st.Request().Marshal() }, func(b []byte) ([]tokens.Token, error) {
					t, err := st.FinalizeToken(b)
					return []tokens.Token{t}, err
				}, nil
			},
			evaluate: func(rx []byte, reuse bool) ([]byte, error) {
				resp, _, err := issuer.Evaluate(rx)
				return resp, err
			},
			valid: func(tok tokens.Token, nonce, chal []byte) error {
				return ref.VerifyRSAToken(&rk.PublicKey, ref.TokenBytes(3, nonce, chal, kid, nil), tok.Authenticator)
			}})
	}
	return out
}

func c01Sessions(c *core.Ctx, k1, k5 []*oprf.PrivateKey, rk []*rsa.PrivateKey) {
	// token keys whose modulus is 256 octets but only 2041 / 2045 / 2047 bits long, for the RSA-based types
	for oi, ok := range OddRSAKeys() {
		for ai := 1; ai < 4; ai += 2 {
			if !c.Next() {
				continue
			}
			r := c.CaseRng()
			a := c01Adapters(r, k1[0], k5[0], ok)[ai]
			before := c.ViolationCount()
			c01RunSession(c, a, r, c.Pick(4, 10), fmt.Sprintf("modulus-%d-bits", ok.N.BitLen()))
			if c.ViolationCount() == before {
				c.Class("runs_with_moduli_shorter_than_2048_bits")
				c.Distinctf("odd-modulus:%d:%s", oi, a.name)
			}
		}
	}
	n := c.Pick(6, 300)
	for s := 0; s < n; s++ {
		for ai := 0; ai < 4; ai++ {
			if !c.Next() {
				continue
			}
			r := c.CaseRng()
			a := c01Adapters(r, k1[s%len(k1)], k5[s%len(k5)], rk[s%len(rk)])[ai]
			c01RunSession(c, a, r, c.Pick(10, 16), fmt.Sprint(s))
		}
	}
}

// ---- partial collisions (fixture) ------------------------------------------------------------------

type collPair struct {
	Kind                                               string `json:"kind"`
	NonceA, BlindA, NonceB, BlindB, ElementA, ElementB string
}

type collFixture struct {
	KeySeed    string     `json:"key_seed"`
	Challenge  string     `json:"challenge"`
	RSAFixture int        `json:"rsa_fixture"`
	Type5      []collPair `json:"type5"`
	Type1      []collPair `json:"type1"`
	Type2      []collPair `json:"type2"`
}

func unhexs(s string) []byte {
	b, err := hex.DecodeString(s)
	if err != nil {
		panic(err)
	}
	return b
}

func loadCollisions() *collFixture {
	f := new(collFixture)
	b, err := os.ReadFile(filepath.Join(core.VerifDir(), "fixtures", "partial-collisions.json"))
	must(err)
	must(json.Unmarshal(b, f))
	return f
}

// c01Collisions: honest batches (type 5) and consecutive honest runs on one issuer (types 1, 2) whose blinded
// elements are DIFFERENT but agree in their leading or trailing 32 bits (pairs found once by cmd/mkcollisions and
// re-derived here). Honest flows never meet such a pair by chance; a duplicate guard, memo or index keyed by part
// of an element treats them as one.
func c01Collisions(c *core.Ctx) {
	f := loadCollisions()
	seed, chal := unhexs(f.KeySeed), unhexs(f.Challenge)
	k5 := VOPRFKey(oprf.SuiteRistretto255, seed)
	for pi, p := range f.Type5 {
		for order := 0; order < 2; order++ {
			if !c.Next() {
				continue
			}
			r := c.CaseRng()
			issuer := type5.NewBatchedPrivateIssuer(k5)
			kid := issuer.TokenKeyID()
			nonces := [][]byte{unhexs(p.NonceA), r.Bytes(32), unhexs(p.NonceB)}
			blinds := [][]byte{unhexs(p.BlindA), c01EdgeScalar(r, 5, group.Ristretto255), unhexs(p.BlindB)}
			if order == 1 {
				nonces[0], nonces[2] = nonces[2], nonces[0]
				blinds[0], blinds[2] = blinds[2], blinds[0]
			}
			c.Eval(1)
			d := map[string]any{"pair": p.Kind, "nonces": []string{core.Hex(nonces[0]), core.Hex(nonces[1]), core.Hex(nonces[2])}, "blinds": []string{core.Hex(blinds[0]), core.Hex(blinds[1]), core.Hex(blinds[2])}, "challenge": f.Challenge, "key_seed": f.KeySeed}
			bad := func(cls, what string) {
				c.Violation("type5:partial-collision:"+cls, "type-5 honest issuance of a batch with two different blinded elements that agree in their "+p.Kind+": "+what, d)
			}
			pan, pv, where := core.Guard(func() {
				st, err := type5.NewBatchedPrivateClient().CreateTokenRequestWithBlinds(chal, nonces, kid, issuer.TokenKey(), blinds)
				if err != nil {
					bad("create-error", err.Error())
					return
				}
				els := st.Request().BlindedReq
				a, b := els[0], els[2]
				if bytes.Equal(a, b) || !(bytes.Equal(a[:4], b[:4]) || bytes.Equal(a[28:], b[28:])) {
					c.Class("info_collision_fixture_stale")
					return
				}
				dec := new(type5.BatchedPrivateTokenRequest)
				if !dec.Unmarshal(clone(st.Request().Marshal())) {
					bad("request-undecodable", "issuer-side decoder rejected the client's request bytes")
					return
				}
				resp, err := issuer.Evaluate(dec)
				if err != nil {
					bad("evaluate-error", "Evaluate refused an honest batch of distinct requests: "+err.Error())
					return
				}
				toks, err := st.FinalizeTokens(clone(resp))
				if err != nil || len(toks) != 3 {
					bad("finalize-error", fmt.Sprintf("FinalizeTokens: %v (%d tokens)", err, len(toks)))
					return
				}
				for j, tok := range toks {
					if cls, _ := checkTokenLayout(tok, 5, nonces[j], chal, kid, 64); cls != "" {
						bad(cls, "token layout")
						return
					}
					if !bytes.Equal(tok.Authenticator, RefVOPRF(oprf.SuiteRistretto255, k5, ref.TokenBytes(5, nonces[j], chal, kid, nil))) {
						bad("token-invalid", fmt.Sprintf("token %d is not the VOPRF evaluation of its input", j))
						return
					}
				}
				c.Class("partial_collision_batches_valid")
				c.Distinctf("collision:type5:%d:%d", pi, order)
			})
			if pan {
				bad("panic:"+where, pv)
			}
		}
	}
	// types 1 and 2: the two requests one after the other on the same issuer and the same issuer-side object
	k1 := VOPRFKey(oprf.SuiteP384, seed)
	for pi, p := range f.Type1 {
		if !c.Next() {
			continue
		}
		c.Eval(2)
		issuer := type1.NewBasicPrivateIssuer(k1)
		kid := issuer.TokenKeyID()
		obj := new(type1.BasicPrivateTokenRequest)
		d := map[string]any{"pair": p.Kind, "nonce_a": p.NonceA, "nonce_b": p.NonceB, "blind_a": p.BlindA, "blind_b": p.BlindB, "key_seed": f.KeySeed}
		pan, pv, where := core.Guard(func() {
			for _, x := range [][2]string{{p.NonceA, p.BlindA}, {p.NonceB, p.BlindB}, {p.NonceA, p.BlindA}} {
				nonce := unhexs(x[0])
				st, err := type1.NewBasicPrivateClient().CreateTokenRequestWithBlind(chal, nonce, kid, issuer.TokenKey(), unhexs(x[1]))
				must(err)
				if !obj.Unmarshal(clone(st.Request().Marshal())) {
					c.Violation("type1:partial-collision:request-undecodable", "issuer-side decoder rejected an honest request", d)
					return
				}
				resp, err := issuer.Evaluate(obj)
				if err != nil {
					c.Violation("type1:partial-collision:evaluate-error", "Evaluate refused an honest request that follows one with a partially equal blinded element: "+err.Error(), d)
					return
				}
				tok, err := st.FinalizeToken(resp)
				if err != nil || !bytes.Equal(tok.Authenticator, RefVOPRF(oprf.SuiteP384, k1, ref.TokenBytes(1, nonce, chal, kid, nil))) {
					c.Violation("type1:partial-collision:token-invalid", fmt.Sprintf("the run after a partially equal blinded element does not give a valid token (%v)", err), d)
					return
				}
			}
			c.Class("partial_collision_runs_valid")
			c.Distinctf("collision:type1:%d", pi)
		})
		if pan {
			c.Violation("type1:partial-collision:panic:"+where, pv, d)
		}
	}
	rk := RSAKeys()[f.RSAFixture]
	for pi, p := range f.Type2 {
		if !c.Next() {
			continue
		}
		c.Eval(2)
		issuer := type2.NewBasicPublicIssuer(rk)
		kid := issuer.TokenKeyID()
		obj := new(type2.BasicPublicTokenRequest)
		d := map[string]any{"pair": p.Kind, "nonce_a": p.NonceA, "nonce_b": p.NonceB, "rsa_fixture": f.RSAFixture}
		pan, pv, where := core.Guard(func() {
			for _, x := range [][2]string{{p.NonceA, p.BlindA}, {p.NonceB, p.BlindB}, {p.NonceA, p.BlindA}} {
				nonce := unhexs(x[0])
				bs := bytes.SplitN([]byte(x[1]), []byte(":"), 2)
				st, err := type2.NewBasicPublicClient().CreateTokenRequestWithBlind(chal, nonce, kid, issuer.TokenKey(), unhexs(string(bs[0])), unhexs(string(bs[1])))
				must(err)
				if !obj.Unmarshal(clone(st.Request().Marshal())) {
					c.Violation("type2:partial-collision:request-undecodable", "issuer-side decoder rejected an honest request", d)
					return
				}
				resp, err := issuer.Evaluate(obj)
				if err != nil {
					c.Violation("type2:partial-collision:evaluate-error", "Evaluate refused an honest request that follows one with a partially equal blinded message: "+err.Error(), d)
					return
				}
				tok, err := st.FinalizeToken(resp)
				if err != nil || ref.VerifyRSAToken(&rk.PublicKey, ref.TokenBytes(2, nonce, chal, kid, nil), tok.Authenticator) != nil {
					c.Violation("type2:partial-collision:token-invalid", fmt.Sprintf("the run after a partially equal blinded message does not give a valid token (%v)", err), d)
					return
				}
			}
			c.Class("partial_collision_runs_valid")
			c.Distinctf("collision:type2:%d", pi)
		})
		if pan {
			c.Violation("type2:partial-collision:panic:"+where, pv, d)
		}
	}
}

// c01Type3ResponseNonces: the type-3 response starts with a random 16-byte nonce chosen by the issuer. Responses
// are rebuilt here for every value of the nonce's first two bytes (quick: the values around the response's own
// length fields plus a seeded sample), correctly encrypted under the per-request key with the honest blind
// signature as plaintext: every one of them is a response an honest issuer sends with probability 2^-16 each, and
// must finalize to the valid token.
func c01Type3ResponseNonces(c *core.Ctx, rk *rsa.PrivateKey) {
	curve := elliptic.P384()
	setup := c.Rng("t3nonce")
	seed := setup.Bytes(32)
	issuer, err := type3.VerifNewRateLimitedIssuerWithNameKey(type3.NewRateLimitedIssuer(rk), seed)
	must(err)
	issuer.AddOrigin("origin.example")
	chal, nonce := setup.Bytes(32), setup.Bytes(32)
	st, err := type3.NewRateLimitedClientFromSecret(ScalarBytes(setup, curve.Params().N, 48)).CreateTokenRequest(chal, nonce, ScalarBytes(setup, curve.Params().N, 48), issuer.TokenKeyID(), issuer.TokenKey(), "origin.example", issuer.NameKey())
	must(err)
	req := clone(st.Request().Marshal())
	resp, _, err := issuer.Evaluate(req)
	must(err)
	sealer, err := newT3ResponseSealer(seed, req)
	must(err)
	good, err := sealer.open(resp)
	must(err)
	kid := issuer.TokenKeyID()
	var prefixes []int
	if c.Thorough() {
		for v := 0; v < 65536; v++ {
			prefixes = append(prefixes, v)
		}
	} else {
		L := len(resp)
		for _, v := range []int{0, 1, L, L - 1, L - 2, L - 3, L - 4, L - 16, L - 18, 256, 255, 254, 272, 270, 0xffff, 0x4000 | L, 0x4000 | (L - 2), 0x8000, 0xc000} {
			if v >= 0 && v < 65536 {
				prefixes = append(prefixes, v)
			}
		}
		for i := 0; i < 600; i++ {
			prefixes = append(prefixes, setup.IntN(65536))
		}
	}
	const chunk = 256
	for lo := 0; lo < len(prefixes); lo += chunk {
		if !c.Next() {
			continue
		}
		r := c.CaseRng()
		for _, v := range prefixes[lo:min(lo+chunk, len(prefixes))] {
			rn := r.Bytes(16)
			rn[0], rn[1] = byte(v>>8), byte(v)
			b := sealer.seal(rn, good)
			c.Eval(1)
			var tok tokens.Token
			var ferr error
			pan, pv, where := core.Guard(func() { tok, ferr = st.FinalizeToken(b) })
			d := map[string]any{"response": core.Hex(b), "response_nonce": core.Hex(rn), "response_len": len(b)}
			switch {
			case pan:
				c.Violation("type3:response-nonce:panic:"+where, "FinalizeToken panicked on an honest response: "+pv, d)
			case ferr != nil:
				c.Violation("type3:response-nonce:finalize-error", fmt.Sprintf("an honest response whose random nonce starts with %04x is refused: %v", v, ferr), d)
			case ref.VerifyRSAToken(&rk.PublicKey, ref.TokenBytes(3, nonce, chal, kid, nil), tok.Authenticator) != nil:
				c.Violation("type3:response-nonce:token-invalid", fmt.Sprintf("an honest response whose random nonce starts with %04x finalizes to an invalid token", v), d)
			default:
				c.Class("type3_response_nonce_prefixes_valid")
			}
		}
	}
	if c.Thorough() {
		c.Exhaustive("every value of the first two bytes of the type-3 response nonce")
	}
}

// c01Type2ConstructedResponses: honest type-2 runs whose RESPONSE (the blind signature z) is a chosen integer -
// N-1, N-2^64, values sharing their top 64 bits with N, values with leading zero bytes, 1, 2 - which honest runs meet
// with probability 2^-64 or less. The client's blind is solved for with the issuer's private key (the harness holds
// it): a request made with blind 1 shows the encoded message m, then r = ((z^e) / m)^d gives a request whose blinded
// message is z^e, to which the issuer's answer is z. Everything else is the ordinary flow and oracle.
func c01Type2ConstructedResponses(c *core.Ctx, rk *rsa.PrivateKey) {
	N := rk.N
	e := big.NewInt(int64(rk.E))
	one := big.NewInt(1)
	sub := func(k uint) *big.Int { return new(big.Int).Sub(N, new(big.Int).Lsh(one, k)) }
	top := new(big.Int).Rsh(N, uint(N.BitLen()-64))
	topOnly := new(big.Int).Lsh(top, uint(N.BitLen()-64))
	targets := map[string]*big.Int{
		"N-1": new(big.Int).Sub(N, one), "N-2": new(big.Int).Sub(N, big.NewInt(2)), "N-2^64": sub(64), "N-2^64-1": new(big.Int).Sub(sub(64), one), "N-2^64+1": new(big.Int).Add(sub(64), one),
		"N-2^128": sub(128), "N-2^1024": sub(1024), "top-64-bits-of-N,rest-zero": topOnly, "top-64-bits-of-N,rest-zero,+1": new(big.Int).Add(topOnly, one),
		"N-with-low-64-bits-cleared": new(big.Int).Lsh(new(big.Int).Rsh(N, 64), 64),
		"1":                          big.NewInt(1), "2": big.NewInt(2), "2^64": new(big.Int).Lsh(one, 64), "2^2039": new(big.Int).Lsh(one, 2039), "2^2040-1": new(big.Int).Sub(new(big.Int).Lsh(one, 2040), one), "2^1984+5": new(big.Int).Add(new(big.Int).Lsh(one, 1984), big.NewInt(5)),
	}
	names := make([]string, 0, len(targets))
	for k := range targets {
		names = append(names, k)
	}
	sort.Strings(names)
	issuer := type2.NewBasicPublicIssuer(rk)
	kid := issuer.TokenKeyID()
	for _, name := range names {
		if !c.Next() {
			continue
		}
		z := targets[name]
		if z.Sign() <= 0 || z.Cmp(N) >= 0 {
			continue
		}
		r := c.CaseRng()
		chal, nonce, salt := r.Bytes(20), r.Bytes(32), r.Bytes(48)
		c.Eval(1)
		d := map[string]any{"response_value": name, "challenge": core.Hex(chal), "nonce": core.Hex(nonce), "salt": core.Hex(salt)}
		bad := func(cls, what string) {
			c.Violation("type2:constructed-response:"+cls, "type-2 honest issuance whose blind signature is the integer "+name+": "+what, d)
		}
		pan, pv, where := core.Guard(func() {
			st1, err := type2.NewBasicPublicClient().CreateTokenRequestWithBlind(chal, nonce, kid, issuer.TokenKey(), one.FillBytes(make([]byte, 256)), salt)
			must(err)
			m := new(big.Int).SetBytes(st1.Request().BlindedReq)
			target := new(big.Int).Exp(z, e, N)
			q := new(big.Int).Mul(target, new(big.Int).ModInverse(m, N))
			q.Mod(q, N)
			blind := new(big.Int).Exp(q, rk.D, N)
			var st type2.BasicPublicTokenRequestState
			okBlind := false
			for _, b := range []*big.Int{blind, new(big.Int).ModInverse(blind, N)} {
				st, err = type2.NewBasicPublicClient().CreateTokenRequestWithBlind(chal, nonce, kid, issuer.TokenKey(), b.FillBytes(make([]byte, 256)), salt)
				if err == nil && new(big.Int).SetBytes(st.Request().BlindedReq).Cmp(target) == 0 {
					okBlind = true
					d["blind"] = b.Text(16)
					break
				}
			}
			if !okBlind {
				c.Class("info_constructed_blind_not_reproduced")
				return
			}
			dec := new(type2.BasicPublicTokenRequest)
			if !dec.Unmarshal(clone(st.Request().Marshal())) {
				bad("request-undecodable", "issuer-side decoder rejected the request")
				return
			}
			resp, err := issuer.Evaluate(dec)
			if err != nil {
				bad("evaluate-error", "Evaluate failed: "+err.Error())
				return
			}
			if new(big.Int).SetBytes(resp).Cmp(z) != 0 {
				c.Class("info_constructed_response_differs")
			} else {
				c.Class("type2_constructed_response_values")
			}
			tok, err := st.FinalizeToken(clone(resp))
			if err != nil {
				d["response"] = core.Hex(resp)
				bad("finalize-error", "FinalizeToken refused the honest response: "+err.Error())
				return
			}
			if cls, _ := checkTokenLayout(tok, 2, nonce, chal, kid, 256); cls != "" {
				bad(cls, "token layout")
				return
			}
			if err := ref.VerifyRSAToken(&rk.PublicKey, ref.TokenBytes(2, nonce, chal, kid, nil), tok.Authenticator); err != nil {
				bad("token-invalid", err.Error())
				return
			}
			c.Distinctf("type2:constructed:%s", name)
		})
		if pan {
			bad("panic:"+where, pv)
		}
	}
}

// c01AcrossSuspension: a stream of honest runs on one issuer during which the whole process is suspended for 2.6 s
// (SIGSTOP/SIGCONT: for the code, time jumps and nothing else happens). Every run still completes with a valid token;
// an issuer or client that gives up because "too much time has passed" refuses the run that was in flight.
func c01AcrossSuspension(c *core.Ctx, k1, k5 *oprf.PrivateKey, rk *rsa.PrivateKey) {
	for ai := 0; ai < 4; ai++ {
		if !c.Next() {
			continue
		}
		r := c.CaseRng()
		a := c01Adapters(r, k1, k5, rk)[ai]
		frozen := freezeSelfAfter(30*time.Millisecond, 2600*time.Millisecond)
		before := c.ViolationCount()
		for k := 0; k < 12; k++ { // each session is 10 runs: the stream outlasts the suspension
			c01RunSession(c, a, r, 10, fmt.Sprintf("suspension-%d", k))
			select {
			case <-frozen:
				k = 100
			default:
			}
		}
		<-frozen
		c01RunSession(c, a, r, 4, "after-suspension")
		if c.ViolationCount() == before {
			c.Class("runs_complete_across_a_process_suspension")
		}
	}
}

// c01ExtremeElements: honest type-5 runs in which a blinded element (request side) or an evaluated element (response
// side) has an extreme canonical encoding - top bytes 7f ff, low bytes 00 00, top bytes 00 00 (found once by
// cmd/mkextremes, re-derived here). Alone and inside a batch, first and last.
func c01ExtremeElements(c *core.Ctx) {
	var fx struct {
		KeySeed   string `json:"key_seed"`
		Challenge string `json:"challenge"`
		Type5     []struct {
			Kind, Side, Nonce, Blind, Element string
		} `json:"type5"`
	}
	b, err := os.ReadFile(filepath.Join(core.VerifDir(), "fixtures", "type5-extreme-elements.json"))
	must(err)
	must(json.Unmarshal(b, &fx))
	k5 := VOPRFKey(oprf.SuiteRistretto255, unhexs(fx.KeySeed))
	chal := unhexs(fx.Challenge)
	for fi, e := range fx.Type5 {
		for shape := 0; shape < 3; shape++ {
			if !c.Next() {
				continue
			}
			r := c.CaseRng()
			issuer := type5.NewBatchedPrivateIssuer(k5)
			kid := issuer.TokenKeyID()
			nonces := [][]byte{unhexs(e.Nonce)}
			blinds := [][]byte{unhexs(e.Blind)}
			switch shape {
			case 1: // first of three
				nonces = append(nonces, r.Bytes(32), r.Bytes(32))
				blinds = append(blinds, c01EdgeScalar(r, 5, group.Ristretto255), c01EdgeScalar(r, 6, group.Ristretto255))
			case 2: // last of three
				nonces = append([][]byte{r.Bytes(32), r.Bytes(32)}, nonces...)
				blinds = append([][]byte{c01EdgeScalar(r, 5, group.Ristretto255), c01EdgeScalar(r, 6, group.Ristretto255)}, blinds...)
			}
			c.Eval(1)
			d := map[string]any{"element_kind": e.Kind, "side": e.Side, "shape": shape, "nonce": e.Nonce, "blind": e.Blind, "key_seed": fx.KeySeed}
			bad := func(cls, what string) {
				c.Violation("type5:extreme-element:"+cls, "type-5 honest issuance in which a "+e.Side+" element has an extreme encoding ("+e.Kind+"): "+what, d)
			}
			pan, pv, where := core.Guard(func() {
				st, err := type5.NewBatchedPrivateClient().CreateTokenRequestWithBlinds(chal, nonces, kid, issuer.TokenKey(), blinds)
				if err != nil {
					bad("create-error", err.Error())
					return
				}
				dec := new(type5.BatchedPrivateTokenRequest)
				if !dec.Unmarshal(clone(st.Request().Marshal())) {
					bad("request-undecodable", "issuer-side decoder rejected the client's request bytes")
					return
				}
				resp, err := issuer.Evaluate(dec)
				if err != nil {
					bad("evaluate-error", "Evaluate refused an honest request: "+err.Error())
					return
				}
				// the fixture still describes what it says?
				idx := map[int]int{0: 0, 1: 0, 2: 2}[shape]
				have := st.Request().BlindedReq[idx]
				if e.Side == "response" {
					_, k := refVarintDec(resp)
					if k > 0 && len(resp) >= k+32*(idx+1) {
						have = resp[k+32*idx : k+32*(idx+1)]
					}
				}
				if hex.EncodeToString(have) != e.Element {
					c.Class("info_extreme_element_fixture_stale")
				}
				toks, err := st.FinalizeTokens(clone(resp))
				if err != nil || len(toks) != len(nonces) {
					bad("finalize-error", fmt.Sprintf("FinalizeTokens: %v (%d tokens)", err, len(toks)))
					return
				}
				for j, tok := range toks {
					if !bytes.Equal(tok.Authenticator, RefVOPRF(oprf.SuiteRistretto255, k5, ref.TokenBytes(5, nonces[j], chal, kid, nil))) || issuer.Verify(tok) != nil {
						bad("token-invalid", fmt.Sprintf("token %d is not the VOPRF evaluation of its input", j))
						return
					}
				}
				c.Class("extreme_element_encodings_valid")
				c.Distinctf("extreme:%d:%d", fi, shape)
			})
			if pan {
				bad("panic:"+where, pv)
			}
		}
	}
}

// c01TransientEntropyFaults: one single read of the entropy source fails - the k-th one made by an issuer's first
// evaluation, for every k that evaluation reaches - and the source works again afterwards. Whatever the faulted call
// returned, the same issuer and client then complete honest runs.
func c01TransientEntropyFaults(c *core.Ctx, k1, k5 *oprf.PrivateKey, rk *rsa.PrivateKey) {
	for ai := 0; ai < 4; ai++ {
		for k := 1; k <= 24; k++ {
			if !c.Next() {
				continue
			}
			r := c.CaseRng()
			a := c01Adapters(r, k1, k5, rk)[ai]
			chal, nonces := r.Bytes(10), [][]byte{r.Bytes(32)}
			reached := false
			pan, _, _ := core.Guard(func() {
				req, _, err := a.create(clone(chal), nonces, clone(a.kid), r, false, false)
				if err != nil {
					return
				}
				rx := clone(req())
				reached = withEntropyFaultAtRead(k, func() { a.evaluate(rx, true) })
			})
			if pan {
				c.Class("faulted_call_panicked_not_judged")
				reached = true
			}
			if !reached {
				c.Class("evaluation_makes_fewer_reads_than_the_fault_index")
				continue
			}
			before := c.ViolationCount()
			c01RunSession(c, a, r, 4, fmt.Sprintf("after-transient-entropy-fault-at-read-%d", k))
			if c.ViolationCount() == before {
				c.Class("issuer_serves_after_a_transient_entropy_fault")
				c.Distinctf("transient-fault:%s:read-%d", a.name, k)
			}
		}
	}
}

// c01EntropyFaultOnFirstUse: the entropy source fails during the very FIRST evaluation of a fresh issuer (and during
// the first request creation / finalization of a fresh client); whatever that call returns, once the source works
// again the same objects serve honest runs. One-time initialisation that failed must not have been recorded as done.
func c01EntropyFaultOnFirstUse(c *core.Ctx, k1, k5 *oprf.PrivateKey, rk *rsa.PrivateKey) {
	for ai := 0; ai < 4; ai++ {
		for _, okBytes := range []int{0, 7, 40} {
			if !c.Next() {
				continue
			}
			r := c.CaseRng()
			a := c01Adapters(r, k1, k5, rk)[ai]
			chal, nonces := r.Bytes(10), [][]byte{r.Bytes(32)}
			pan, pv, where := core.Guard(func() {
				// a request made while entropy works, evaluated while it does not
				req, _, err := a.create(clone(chal), nonces, clone(a.kid), r, false, false)
				if err != nil {
					return
				}
				rx := clone(req())
				withFailingEntropy(okBytes, func() { a.evaluate(rx, true) })
			})
			// and a client whose first creation happens without entropy
			pan2, _, _ := core.Guard(func() {
				withFailingEntropy(okBytes, func() { a.create(clone(chal), nonces, clone(a.kid), r, false, false) })
			})
			pan = pan || pan2
			if pan {
				// circl's group arithmetic panics when the reader it is given fails (type 1 and type 5 evaluation); the
				// statement says nothing about a run without entropy, so the faulted call itself is not judged: only
				// what the same objects do afterwards
				_, _ = pv, where
				c.Class("faulted_call_panicked_not_judged")
			}
			before := c.ViolationCount()
			c01RunSession(c, a, r, 5, fmt.Sprintf("after-entropy-fault-%d", okBytes))
			if c.ViolationCount() == before {
				c.Class("issuer_serves_after_entropy_fault_on_first_use")
			}
		}
	}
}
