package props

import (
	"bytes"
	"crypto/sha512"
	"encoding/binary"

	"github.com/cloudflare/circl/group"
	"github.com/cloudflare/circl/oprf"

	"verifharness/internal/core"
)

// A malicious holder of the type-5 issuer key tries to make the client accept a response in which one element is
// NOT a group-element encoding (and the others need not be honest). It prepares its batch proof with the same group
// arithmetic the verifying client would use on what a decoder leaves behind for the refused bytes: composites M and
// Z' = sum d_j * E_j as the verifier computes them, a commitment t3 computed the same way, challenge and response from
// the key. The forgery is submitted only if re-running the verifier's equations confirms it would verify; a correct
// client never gets that far, because it refuses the undecodable element.

func lp16(b []byte) []byte {
	out := make([]byte, 2, 2+len(b))
	binary.BigEndian.PutUint16(out, uint16(len(b)))
	return append(out, b...)
}

func encEl(e group.Element) []byte {
	b, err := e.MarshalBinaryCompress()
	if err != nil {
		return nil
	}
	return b
}

// forgeType5Response returns response bytes (varint length || elements || proof) for the given blinded elements, or
// nil if no forgery that the verifier's own equations accept could be built. badAt is the slot that carries the
// invalid encoding bad; otherKey evaluates the remaining elements (nil: the advertised key).
func forgeType5Response(r *core.Rand, key *oprf.PrivateKey, blindedEnc [][]byte, badAt int, bad []byte, wrongOthers bool) []byte {
	g := group.Ristretto255
	kb, err := key.MarshalBinary()
	if err != nil {
		return nil
	}
	k := g.NewScalar()
	if k.UnmarshalBinary(kb) != nil {
		return nil
	}
	pkEnc, err := key.Public().MarshalBinary()
	if err != nil {
		return nil
	}
	n := len(blindedEnc)
	blinded := make([]group.Element, n)
	for i := range blinded {
		blinded[i] = g.NewElement()
		if blinded[i].UnmarshalBinary(blindedEnc[i]) != nil {
			return nil
		}
	}
	k2 := g.NewScalar().SetUint64(7)
	k2.Add(k2, k)
	evals := make([]group.Element, n)
	evalEnc := make([][]byte, n)
	wire := make([][]byte, n)
	for i := range evals {
		if i == badAt {
			evals[i] = g.NewElement()
			if evals[i].UnmarshalBinary(bad) == nil {
				return nil // not an invalid encoding after all
			}
			evalEnc[i] = encEl(evals[i]) // what the verifier hashes for the left-over element
			wire[i] = bad
			continue
		}
		kk := k
		if wrongOthers {
			kk = k2
		}
		evals[i] = g.NewElement().Mul(blinded[i], kk)
		evalEnc[i] = encEl(evals[i])
		wire[i] = evalEnc[i]
	}
	for _, e := range evalEnc {
		if e == nil {
			return nil
		}
	}
	dst := append(append([]byte("OPRFV1-"), oprf.VerifiableMode, '-'), []byte("ristretto255-SHA512")...)
	h2sDST := append([]byte("HashToScalar-"), dst...)
	seedDST := append([]byte("Seed-"), dst...)
	h := sha512.New()
	h.Write(lp16(pkEnc))
	h.Write(lp16(seedDST))
	seed := h.Sum(nil)
	M, Z := g.Identity(), g.Identity()
	for j := range blinded {
		in := lp16(seed)
		idx := []byte{0, 0}
		binary.BigEndian.PutUint16(idx, uint16(j))
		in = append(in, idx...)
		in = append(in, lp16(encEl(blinded[j]))...)
		in = append(in, lp16(evalEnc[j])...)
		in = append(in, []byte("Composite")...)
		dj := g.HashToScalar(in, h2sDST)
		M.Add(M, g.NewElement().Mul(blinded[j], dj))
		Z.Add(Z, g.NewElement().Mul(evals[j], dj))
	}
	rn := g.HashToScalar(r.Bytes(64), []byte("forge-nonce"))
	t2 := g.NewElement().MulGen(rn)
	// the verifier will compute t3 = s*M + c*Z; predict it with a placeholder challenge (exact when Z = k*M, and
	// independent of the challenge when the arithmetic on the left-over element absorbs)
	c0 := g.NewScalar().SetUint64(1)
	s0 := g.NewScalar().Sub(rn, g.NewScalar().Mul(c0, k))
	t3 := g.NewElement().Add(g.NewElement().Mul(M, s0), g.NewElement().Mul(Z, c0))
	var in []byte
	for _, a := range [][]byte{pkEnc, encEl(M), encEl(Z), encEl(t2), encEl(t3)} {
		if a == nil {
			return nil
		}
		in = append(in, lp16(a)...)
	}
	in = append(in, []byte("Challenge")...)
	c := g.HashToScalar(in, h2sDST)
	s := g.NewScalar().Sub(rn, g.NewScalar().Mul(c, k))
	// would the verifier's equations hold?
	pk := g.NewElement()
	if pk.UnmarshalBinary(pkEnc) != nil {
		return nil
	}
	vt2 := g.NewElement().Add(g.NewElement().MulGen(s), g.NewElement().Mul(pk, c))
	vt3 := g.NewElement().Add(g.NewElement().Mul(M, s), g.NewElement().Mul(Z, c))
	if !bytes.Equal(encEl(vt2), encEl(t2)) || !bytes.Equal(encEl(vt3), encEl(t3)) {
		return nil
	}
	cEnc, _ := c.MarshalBinary()
	sEnc, _ := s.MarshalBinary()
	body := bytes.Join(wire, nil)
	out := refVarintEnc(uint64(len(body)))
	out = append(out, body...)
	out = append(out, cEnc...)
	return append(out, sEnc...)
}

// ristrettoInvalidEncodings: 32-byte strings that are not ristretto255 encodings.
func ristrettoInvalidEncodings(r *core.Rand) [][]byte {
	out := [][]byte{bytes.Repeat([]byte{0xff}, 32)}
	one := make([]byte, 32)
	one[0] = 1 // odd ("negative") field element
	out = append(out, one)
	p := make([]byte, 32) // the field prime itself: non-canonical
	for i := range p {
		p[i] = 0xff
	}
	p[0], p[31] = 0xed, 0x7f
	out = append(out, p)
	g := group.Ristretto255
	for len(out) < 6 {
		b := r.Bytes(32)
		if g.NewElement().UnmarshalBinary(b) != nil {
			out = append(out, b)
		}
	}
	return out
}
