package props

import (
	"crypto/elliptic"
	"fmt"
	"math/big"

	"github.com/cloudflare/pat-go/ecdsa"
	"github.com/cloudflare/pat-go/tokens"
	"github.com/cloudflare/pat-go/tokens/type1"
	"github.com/cloudflare/pat-go/tokens/type3"
	"github.com/cloudflare/pat-go/tokens/type5"

	"verifharness/internal/core"
)

// memCache is a ClientStateCache that records its calls.
type memCache struct {
	m    map[string]*type3.ClientState
	gets int
	puts []string
}

func newMemCache() *memCache { return &memCache{m: map[string]*type3.ClientState{}} }

func (c *memCache) Get(id string) (*type3.ClientState, bool) {
	c.gets++
	s, ok := c.m[id]
	return s, ok
}

func (c *memCache) Put(id string, s *type3.ClientState) {
	c.puts = append(c.puts, id)
	c.m[id] = s
}

type c03Args struct {
	att        *type3.RateLimitedAttester
	attCache   *memCache
	req3       *type3.RateLimitedTokenRequest
	blind      []byte
	clientKey  []byte
	brk        []byte
	iss1       *type1.BasicPrivateIssuer
	iss5       *type5.BatchedPrivateIssuer
	tok1, tok5 tokens.Token
	nameKeyEnc []byte
}

// hostileKeyEncodings: byte strings offered where a compressed P-384 point is expected.
func hostileKeyEncodings(r *core.Rand, valid []byte) [][]byte {
	curve := elliptic.P384()
	p := curve.Params().P
	out := [][]byte{nil, {}, {2}, {3}, {0}, {4}, valid, valid[:48], append(clone(valid), 0), make([]byte, 49), make([]byte, 48), make([]byte, 97)}
	// off-curve x
	for x := int64(1); ; x++ {
		b := make([]byte, 49)
		b[0] = 2
		big.NewInt(x).FillBytes(b[1:])
		if xx, _ := elliptic.UnmarshalCompressed(curve, b); xx == nil {
			out = append(out, b)
			break
		}
	}
	// x = P, x = P+1, x = 2^384-1
	for _, v := range []*big.Int{p, new(big.Int).Add(p, big.NewInt(1)), new(big.Int).Sub(new(big.Int).Lsh(big.NewInt(1), 384), big.NewInt(1))} {
		b := make([]byte, 49)
		b[0] = 3
		v.FillBytes(b[1:])
		out = append(out, b)
	}
	// non-canonical field elements x + P for the smallest x that are x-coordinates of curve points (x = 0 included
	// where the curve has such a point), with both sign bytes: the same residue as a valid point's x, not a valid encoding
	{
		lim := new(big.Int).Sub(new(big.Int).Lsh(big.NewInt(1), 384), p)
		found := 0
		for x := int64(0); found < 4 && big.NewInt(x).Cmp(lim) < 0 && x < 200; x++ {
			b := make([]byte, 49)
			b[0] = 2
			big.NewInt(x).FillBytes(b[1:])
			if xx, _ := elliptic.UnmarshalCompressed(curve, b); xx == nil {
				continue
			}
			found++
			for _, pf := range []byte{2, 3} {
				e := make([]byte, 49)
				e[0] = pf
				new(big.Int).Add(p, big.NewInt(x)).FillBytes(e[1:])
				out = append(out, e)
			}
		}
	}
	// wrong prefix bytes on a valid x
	for _, pf := range []byte{0, 1, 4, 5, 6, 7, 0xff} {
		b := clone(valid)
		b[0] = pf
		out = append(out, b)
	}
	// uncompressed form of a valid point
	x, y := elliptic.UnmarshalCompressed(curve, valid)
	out = append(out, elliptic.Marshal(curve, x, y))
	out = append(out, r.Bytes(49), r.Bytes(200), r.Bytes(65536))
	return out
}

func hostileScalarEncodings(r *core.Rand, valid []byte) [][]byte {
	n := elliptic.P384().Params().N
	nb := make([]byte, 48)
	n.FillBytes(nb)
	ff := make([]byte, 48)
	for i := range ff {
		ff[i] = 0xff
	}
	nm1 := make([]byte, 48)
	new(big.Int).Sub(n, big.NewInt(1)).FillBytes(nm1)
	return [][]byte{nil, {}, {0}, {1}, make([]byte, 48), nb, nm1, ff, valid, append([]byte{0, 0}, valid...), valid[:47], r.Bytes(49), r.Bytes(200), append(clone(nb), nb...), r.Bytes(65536)}
}

func (w *c03World) argCall(name, family string, desc string, f func() bool) {
	c := w.c
	c.Note(name + " " + family + " " + desc)
	var accepted bool
	before := allocBytes()
	pan, pv, where := core.Guard(func() { accepted = f() })
	delta := allocBytes() - before
	c.Eval(1)
	if pan {
		c.Violation("panic:"+name+":"+where, fmt.Sprintf("%s panicked on peer-controlled arguments (%s): %s at %s", name, family, pv, where),
			map[string]any{"target": name, "family": family, "arguments": desc, "panic": pv, "where": where})
		c.Distinctf("%s:panic:%s", name, family)
		return
	}
	c.Class("calls_returned")
	if delta > w.allocC+w.allocSlope*70000 {
		c.Violation("alloc:"+name, fmt.Sprintf("%s allocated %d bytes", name, delta), map[string]any{"target": name, "family": family, "arguments": desc, "allocated": delta})
	}
	if accepted {
		c.Class("outcome_accept")
		c.Distinctf("%s:accept:%s", name, family)
	} else {
		c.Class("outcome_reject")
		c.Distinctf("%s:reject:%s", name, family)
	}
}

func short(b []byte) string {
	if len(b) > 120 {
		return core.Hex(b[:120]) + fmt.Sprintf("...(%d)", len(b))
	}
	return core.Hex(b)
}

func (w *c03World) argTargets() {
	c := w.c
	a := w.arg
	anon := []byte("anon-origin")
	honest := *a.req3

	// ---- attester.VerifyRequest, one argument hostile at a time, then pairs
	if c.Next() {
		r := c.CaseRng()
		for _, b := range hostileScalarEncodings(r, a.blind) {
			b := b
			w.argCall("type3.Attester.VerifyRequest", "arg-blind", "blindKeyEnc="+short(b), func() bool { return a.att.VerifyRequest(honest, b, a.clientKey, anon) == nil })
		}
		for _, k := range hostileKeyEncodings(r, a.clientKey) {
			k := k
			w.argCall("type3.Attester.VerifyRequest", "arg-clientkey", "clientKeyEnc="+short(k), func() bool { return a.att.VerifyRequest(honest, a.blind, k, anon) == nil })
		}
		// Fields of the request struct: only shapes the wire decoder can produce
		// (49-byte key, 32-byte key id, 1..65535-byte ciphertext, 96-byte signature),
		// with hostile content. A hand-built struct of another shape is not peer data.
		for _, k := range hostileKeyEncodings(r, honest.RequestKey) {
			if len(k) != 49 {
				continue
			}
			q := honest
			q.RequestKey = k
			w.argCall("type3.Attester.VerifyRequest", "arg-requestkey", "RequestKey="+short(k), func() bool { return a.att.VerifyRequest(q, a.blind, a.clientKey, anon) == nil })
		}
		nb := make([]byte, 48)
		elliptic.P384().Params().N.FillBytes(nb)
		for fill := 0; fill < 6; fill++ {
			sig := make([]byte, 96)
			switch fill {
			case 1:
				for i := range sig {
					sig[i] = 0xff
				}
			case 2:
				copy(sig, honest.Signature)
				copy(sig[48:], nb) // s = N
			case 3:
				copy(sig, nb) // r = N
				copy(sig[48:], honest.Signature[48:])
			case 4:
				copy(sig, honest.Signature[:48]) // s = 0
			case 5:
				copy(sig, r.Bytes(96))
			}
			q := honest
			q.Signature = sig
			w.argCall("type3.Attester.VerifyRequest", "arg-signature", fmt.Sprintf("Signature fill=%d", fill), func() bool { return a.att.VerifyRequest(q, a.blind, a.clientKey, anon) == nil })
		}
		for _, l := range []int{1, 31, 33, 65535} {
			q := honest
			q.NameKeyID = r.Bytes(32)
			q.EncryptedTokenRequest = r.Bytes(l)
			w.argCall("type3.Attester.VerifyRequest", "arg-ciphertext", fmt.Sprintf("EncryptedTokenRequest len=%d", l), func() bool { return a.att.VerifyRequest(q, a.blind, a.clientKey, anon) == nil })
		}
		w.argCall("type3.Attester.VerifyRequest", "arg-honest", "honest", func() bool { return a.att.VerifyRequest(honest, a.blind, a.clientKey, anon) == nil })
	}
	// ---- attester.FinalizeIndex
	if c.Next() {
		r := c.CaseRng()
		// make sure the client is known, so the deeper path is reached
		a.att.VerifyRequest(honest, a.blind, a.clientKey, anon)
		for _, k := range hostileKeyEncodings(r, a.clientKey) {
			k := k
			w.argCall("type3.Attester.FinalizeIndex", "arg-clientkey", "clientKey="+short(k), func() bool { _, err := a.att.FinalizeIndex(k, a.blind, a.brk, anon); return err == nil })
		}
		for _, b := range hostileScalarEncodings(r, a.blind) {
			b := b
			w.argCall("type3.Attester.FinalizeIndex", "arg-blind", "blindEnc="+short(b), func() bool { _, err := a.att.FinalizeIndex(a.clientKey, b, a.brk, anon); return err == nil })
		}
		for _, k := range hostileKeyEncodings(r, a.brk) {
			k := k
			w.argCall("type3.Attester.FinalizeIndex", "arg-blindedrequestkey", "blindedRequestKeyEnc="+short(k), func() bool { _, err := a.att.FinalizeIndex(a.clientKey, a.blind, k, anon); return err == nil })
		}
		for _, an := range [][]byte{nil, {}, r.Bytes(1), r.Bytes(70000)} {
			an := an
			w.argCall("type3.Attester.FinalizeIndex", "arg-anon", fmt.Sprintf("anonOriginId len=%d", len(an)), func() bool { _, err := a.att.FinalizeIndex(a.clientKey, a.blind, a.brk, an); return err == nil })
		}
	}
	// ---- seeded combinations for both attester entry points
	n := c.Pick(40, 600)
	for i := 0; i < n; i++ {
		if !c.Next() {
			continue
		}
		r := c.CaseRng()
		ks := hostileKeyEncodings(r, a.clientKey)
		ss := hostileScalarEncodings(r, a.blind)
		rk := hostileKeyEncodings(r, honest.RequestKey)
		k, s, q := ks[r.IntN(len(ks))], ss[r.IntN(len(ss))], honest
		if x := rk[r.IntN(len(rk))]; len(x) == 49 {
			q.RequestKey = x
		}
		if r.Coin(2) {
			q.Signature = r.Bytes(96)
		}
		w.argCall("type3.Attester.VerifyRequest", "arg-combo", fmt.Sprintf("clientKey=%s blind=%s RequestKey=%s siglen=%d", short(k), short(s), short(q.RequestKey), len(q.Signature)),
			func() bool { return a.att.VerifyRequest(q, s, k, anon) == nil })
		bk := hostileKeyEncodings(r, a.brk)
		b := bk[r.IntN(len(bk))]
		w.argCall("type3.Attester.FinalizeIndex", "arg-combo", fmt.Sprintf("clientKey=%s blind=%s brk=%s", short(k), short(s), short(b)),
			func() bool { _, err := a.att.FinalizeIndex(k, s, b, anon); return err == nil })
	}
	// ---- issuer Verify on token values with hostile field lengths
	if c.Next() {
		r := c.CaseRng()
		for _, l := range []int{0, 1, 31, 33, 48, 64, 65536} {
			for f := 0; f < 4; f++ {
				t1, t5 := cloneToken(a.tok1), cloneToken(a.tok5)
				for _, t := range []*tokens.Token{&t1, &t5} {
					v := r.Bytes(l)
					if l == 0 && f%2 == 0 {
						v = nil
					}
					switch f {
					case 0:
						t.Nonce = v
					case 1:
						t.Context = v
					case 2:
						t.KeyID = v
					case 3:
						t.Authenticator = v
					}
				}
				w.argCall("type1.Issuer.Verify", "arg-token-fields", fmt.Sprintf("field %d len %d", f, l), func() bool { return a.iss1.Verify(t1) == nil })
				w.argCall("type5.Issuer.Verify", "arg-token-fields", fmt.Sprintf("field %d len %d", f, l), func() bool { return a.iss5.Verify(t5) == nil })
			}
		}
		w.argCall("type1.Issuer.Verify", "arg-token-fields", "zero token", func() bool { return a.iss1.Verify(tokens.Token{}) == nil })
		w.argCall("type5.Issuer.Verify", "arg-token-fields", "zero token", func() bool { return a.iss5.Verify(tokens.Token{}) == nil })
	}
	// ---- UnmarshalEncapKey under every KEM id (and KDF / AEAD ids)
	step := c.Pick(64, 1)
	for lo := 0; lo < 65536; lo += 4096 {
		if !c.Next() {
			continue
		}
		for id := lo; id < lo+4096; id++ {
			if id%step != 0 && id > 0x40 {
				continue
			}
			for _, l := range []int{len(a.nameKeyEnc), 140, 3} {
				b := make([]byte, l)
				copy(b, a.nameKeyEnc)
				if l >= 3 {
					b[1], b[2] = byte(id>>8), byte(id)
				}
				if l > len(a.nameKeyEnc) {
					// room for the larger KEM public keys; KDF/AEAD ids at the tail
					b[l-4], b[l-3], b[l-2], b[l-1] = 0, 1, 0, 1
				}
				w.invoke(&c03Target{name: "type3.UnmarshalEncapKey(kem id)", call: func(b []byte) bool {
					k, err := type3.UnmarshalEncapKey(b)
					if err != nil {
						return false
					}
					k.Marshal()
					return true
				}}, "tag", b)
			}
		}
	}
	if c.Next() {
		// all public-key sizes the HPKE library knows, with every KDF/AEAD id 0..5 and 0xffff
		for _, kem := range []int{0x10, 0x11, 0x12, 0x20, 0x21, 0x30, 0xfffe, 0xffff} {
			for _, sz := range []int{32, 33, 56, 65, 97, 133, 564} {
				for kdf := 0; kdf < 5; kdf++ {
					for aead := 0; aead < 5; aead++ {
						b := []byte{1, byte(kem >> 8), byte(kem)}
						b = append(b, c.CaseRng().Bytes(sz)...)
						b = append(b, 0, byte(kdf), 0, byte(aead))
						w.invoke(&c03Target{name: "type3.UnmarshalEncapKey(kem id)", call: func(b []byte) bool {
							k, err := type3.UnmarshalEncapKey(b)
							if err != nil {
								return false
							}
							k.Marshal()
							return true
						}}, "tag", b)
					}
				}
			}
		}
	}
	// ---- ecdsa.Verify with hostile integers
	if c.Next() {
		r := c.CaseRng()
		curve := elliptic.P384()
		key, err := ecdsa.GenerateKey(curve, r)
		must(err)
		N := curve.Params().N
		vals := []*big.Int{big.NewInt(0), big.NewInt(1), big.NewInt(-1), new(big.Int).Neg(N), N, new(big.Int).Add(N, big.NewInt(1)), new(big.Int).Sub(N, big.NewInt(1)), new(big.Int).Lsh(big.NewInt(1), 4096), new(big.Int).SetBytes(r.Bytes(48))}
		for _, rr := range vals {
			for _, ss := range vals {
				for _, dl := range []int{0, 1, 48, 200} {
					d := r.Bytes(dl)
					rr, ss := rr, ss
					w.argCall("ecdsa.Verify", "arg-integers", fmt.Sprintf("r=%s s=%s digest len %d", rr.Text(16), ss.Text(16), dl), func() bool { return ecdsa.Verify(&key.PublicKey, d, rr, ss) })
				}
			}
		}
	}
}
