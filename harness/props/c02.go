package props

import (
	"bytes"
	"crypto/elliptic"
	"crypto/rsa"
	"fmt"
	"strings"

	"github.com/cloudflare/circl/oprf"

	"github.com/cloudflare/pat-go/tokens"
	"github.com/cloudflare/pat-go/tokens/type1"
	"github.com/cloudflare/pat-go/tokens/type2"
	"github.com/cloudflare/pat-go/tokens/type3"
	"github.com/cloudflare/pat-go/tokens/type5"

	"verifharness/internal/core"
	"verifharness/internal/ref"
)

func init() {
	core.Register(&core.Prop{
		ID:    "C02",
		Level: "exploration",
		Rule: "FinalizeToken(s) on (request state, response) pairs for types 1,2,3,5: honest responses, every single-bit flip of each honest response (exhaustive), the full cross-pairing matrix of K states x K responses over 2-3 issuer keys, truncations/extensions, " +
			"and for type 5 every single-element drop, duplication, adjacent and seeded swaps, appended element, foreign proof, and the same attacks carried out by a malicious holder of the issuer key (honest evaluations, with valid batch proofs, of shortened / permuted / duplicated / extended copies of the request's element list). Universal oracle on every call: a nil error implies the token verifies under the key the request was created for (circl FullEvaluate / crypto/rsa.VerifyPSS) and carries that request's type, nonce, SHA-256(challenge) and key id. " +
			"Rejection oracle: every listed corruption must return an error. Lifecycle part: up to 4 requests of one type outstanding at once, created and finalized (garbage, bit-flipped and honest responses, evaluated from the wire bytes captured at creation) in seeded interleavings; every honest finalization must succeed with the token of its own request. distinct_nontrivial = distinct (type, corruption class, state, position) keys",
		// (the rejected_by_* classes are recognised from error texts and therefore only reported, not required)
		Floors: []string{"accepted_valid",
			"type1_bitflips", "type2_bitflips", "type3_bitflips", "type5_bitflips", "cross_pair_rejected", "type5_drop_rejected", "type5_dup_rejected", "type5_swap_rejected", "type5_valid_proof_prefix_rejected", "type5_valid_proof_permuted_rejected", "type5_undecodable_element_rejected", "lifecycle_sequences", "lifecycle_honest_finalized", "lifecycle_decryptable_wrong_signature", "misshapen_arguments_refused_at_creation", "odd_salt_lengths", "client_object_reused_across_keys"},
		Assumptions: []string{"single-bit flips change the mathematical response (argued in DESIGN.md C02); nonces in a batch are distinct so swaps are never of equal elements"},
		Run:         runC02,
	})
}

// finalizer abstracts one outstanding request of any type.
type c02State struct {
	typ       uint16
	label     string
	keyIdx    int
	nonces    [][]byte
	challenge []byte
	keyID     []byte
	finalize  func(resp []byte) ([]tokens.Token, error)
	verifyTok func(tok tokens.Token) error // independent verifier under the request's key
	authLen   int
}

func classifyErr(err error) string {
	s := err.Error()
	switch {
	case strings.Contains(s, "proof verification failed"):
		return "rejected_by_proof"
	case strings.Contains(s, "message authentication failed"):
		return "rejected_by_aead"
	case strings.Contains(s, "invalid batch token response list") || strings.Contains(s, "invalid batch token response encoding") || strings.Contains(s, "proof encoding") || strings.Contains(s, "invalid token response encoding"):
		return "rejected_by_decode"
	case strings.Contains(s, "invalid batch token response"):
		return "rejected_by_count"
	case strings.Contains(s, "verification error"):
		return "rejected_by_rsa_check"
	case strings.Contains(s, "unexpected input size") || strings.Contains(s, "invalid message length"):
		return "rejected_by_decode"
	case strings.Contains(s, "does not encode") || strings.Contains(s, "unmarshal") || strings.Contains(s, "short buffer") || strings.Contains(s, "invalid") || strings.Contains(s, "decod") || strings.Contains(s, "encoding"):
		return "rejected_by_decode"
	}
	return "rejected_other"
}

// c02Call finalizes and applies both oracles.
func c02Call(c *core.Ctx, st *c02State, resp []byte, class string, mustReject bool) {
	c.Eval(1)
	c.Note(fmt.Sprintf("Finalize type%d %s", st.typ, class))
	var toks []tokens.Token
	var err error
	in := clone(resp)
	pan, pv, where := core.Guard(func() { toks, err = st.finalize(in) })
	detail := map[string]any{"type": st.typ, "state": st.label, "class": class, "response": core.Hex(resp), "challenge": core.Hex(st.challenge), "key_index": st.keyIdx}
	ck := classKey(class)
	if pan {
		detail["panic"] = pv
		c.Violation(fmt.Sprintf("type%d:finalize-panic:%s", st.typ, where), "finalization panicked instead of returning an error: "+pv+" at "+where, detail)
		return
	}
	if err != nil {
		cls := classifyErr(err)
		c.Class(cls)
		if cls == "rejected_other" {
			c.Sample("error not classified: "+err.Error(), map[string]any{"type": st.typ, "class": class})
		}
		return
	}
	// nil error: universal oracle
	if len(toks) != len(st.nonces) {
		c.Violation(fmt.Sprintf("type%d:accepted-wrong-count:%s", st.typ, ck), fmt.Sprintf("finalization returned %d tokens for %d requested", len(toks), len(st.nonces)), detail)
		return
	}
	for j, tok := range toks {
		if cls, d := checkTokenLayout(tok, st.typ, st.nonces[j], st.challenge, st.keyID, st.authLen); cls != "" {
			detail["token_problem"], detail["index"] = d, j
			c.Violation(fmt.Sprintf("type%d:accepted-foreign-token:%s", st.typ, ck), "finalization succeeded with a token that does not carry its request's type/nonce/challenge digest/key id ("+cls+")", detail)
			return
		}
		if verr := st.verifyTok(tok); verr != nil {
			detail["token"], detail["index"] = core.Hex(tok.Marshal()), j
			c.Violation(fmt.Sprintf("type%d:accepted-invalid-token:%s", st.typ, ck), "finalization succeeded with a token that does not verify under the issuer key of the request: "+verr.Error(), detail)
			return
		}
	}
	if mustReject {
		c.Violation(fmt.Sprintf("type%d:accepted-corrupted-response:%s", st.typ, ck), "finalization accepted a response that must be rejected ("+class+")", detail)
		return
	}
	c.Class("accepted_valid")
}

type c02Pair struct {
	st   *c02State
	resp []byte
}

func runC02(c *core.Ctx) {
	K := c.Pick(4, 24)
	setup := c.Rng("setup")
	rk := RSAKeys()

	// ---- type 1
	var p1 []c02Pair
	{
		keys := []*oprf.PrivateKey{VOPRFKey(oprf.SuiteP384, setup.Bytes(32)), VOPRFKey(oprf.SuiteP384, setup.Bytes(32)), VOPRFKey(oprf.SuiteP384, setup.Bytes(32))}
		for i := 0; i < K; i++ {
			r := c.IdxRng("t1", int64(i))
			ki := i % len(keys)
			key := keys[ki]
			issuer := type1.NewBasicPrivateIssuer(key)
			challenge, nonce := r.Bytes(r.IntN(70)), r.Bytes(32)
			st, err := type1.NewBasicPrivateClient().CreateTokenRequest(challenge, nonce, issuer.TokenKeyID(), issuer.TokenKey())
			must(err)
			resp, err := issuer.Evaluate(st.Request())
			must(err)
			kid := issuer.TokenKeyID()
			p1 = append(p1, c02Pair{&c02State{typ: 1, label: fmt.Sprintf("t1#%d", i), keyIdx: ki, nonces: [][]byte{nonce}, challenge: challenge, keyID: kid, authLen: 48,
				finalize: func(b []byte) ([]tokens.Token, error) {
					t, err := st.FinalizeToken(b)
					if err != nil {
						return nil, err
					}
					return []tokens.Token{t}, nil
				},
				verifyTok: func(t tokens.Token) error {
					if !bytes.Equal(t.Authenticator, RefVOPRF(oprf.SuiteP384, key, ref.TokenBytes(1, nonce, challenge, kid, nil))) {
						return fmt.Errorf("authenticator != VOPRF(key, token input)")
					}
					return nil
				}}, resp})
		}
	}
	// ---- type 2
	var p2 []c02Pair
	for i := 0; i < K; i++ {
		r := c.IdxRng("t2", int64(i))
		ki := i % 3
		key := rk[ki]
		issuer := type2.NewBasicPublicIssuer(key)
		challenge, nonce := r.Bytes(r.IntN(70)), r.Bytes(32)
		st, err := type2.NewBasicPublicClient().CreateTokenRequest(challenge, nonce, issuer.TokenKeyID(), issuer.TokenKey())
		must(err)
		resp, err := issuer.Evaluate(st.Request())
		must(err)
		kid := issuer.TokenKeyID()
		p2 = append(p2, c02Pair{&c02State{typ: 2, label: fmt.Sprintf("t2#%d", i), keyIdx: ki, nonces: [][]byte{nonce}, challenge: challenge, keyID: kid, authLen: 256,
			finalize: func(b []byte) ([]tokens.Token, error) {
				t, err := st.FinalizeToken(b)
				if err != nil {
					return nil, err
				}
				return []tokens.Token{t}, nil
			},
			verifyTok: rsaTokVerifier(&key.PublicKey, 2, nonce, challenge, kid)}, resp})
	}
	// ---- type 3
	var p3 []c02Pair
	{
		curve := elliptic.P384()
		issuers := []*type3.RateLimitedIssuer{type3.NewRateLimitedIssuer(rk[0]), type3.NewRateLimitedIssuer(rk[1]), type3.NewRateLimitedIssuer(rk[0])}
		for _, is := range issuers {
			is.AddOrigin("origin.example")
		}
		for i := 0; i < K; i++ {
			r := c.IdxRng("t3", int64(i))
			ki := i % len(issuers)
			issuer := issuers[ki]
			key := []*rsa.PrivateKey{rk[0], rk[1], rk[0]}[ki]
			challenge, nonce := r.Bytes(r.IntN(70)), r.Bytes(32)
			client := type3.NewRateLimitedClientFromSecret(ScalarBytes(r, curve.Params().N, 48))
			st, err := client.CreateTokenRequest(challenge, nonce, ScalarBytes(r, curve.Params().N, 48), issuer.TokenKeyID(), issuer.TokenKey(), "origin.example", issuer.NameKey())
			must(err)
			resp, _, err := issuer.Evaluate(st.Request().Marshal())
			must(err)
			kid := issuer.TokenKeyID()
			p3 = append(p3, c02Pair{&c02State{typ: 3, label: fmt.Sprintf("t3#%d", i), keyIdx: ki, nonces: [][]byte{nonce}, challenge: challenge, keyID: kid, authLen: 256,
				finalize: func(b []byte) ([]tokens.Token, error) {
					t, err := st.FinalizeToken(b)
					if err != nil {
						return nil, err
					}
					return []tokens.Token{t}, nil
				},
				verifyTok: rsaTokVerifier(&key.PublicKey, 3, nonce, challenge, kid)}, resp})
		}
	}
	// ---- type 5
	var p5 []c02Pair
	var p5n []int
	// p5mal[i](idx) is what a MALICIOUS holder of the issuer key answers: the honest evaluation, with a valid batch
	// proof, of the list made of the request's blinded elements idx[0], idx[1], ...
	var p5mal []func(idx []int) ([]byte, error)
	// p5forge[i](badAt, bad, wrongOthers): a forged response with an undecodable element (see c02forge.go), or nil
	var p5forge []func(r *core.Rand, badAt int, bad []byte, wrongOthers bool) []byte
	{
		keys := []*oprf.PrivateKey{VOPRFKey(oprf.SuiteRistretto255, setup.Bytes(32)), VOPRFKey(oprf.SuiteRistretto255, setup.Bytes(32))}
		sizes := []int{1, 2, 3, 5, 2, 3, 4, 8, 3, 2, 6, 3}
		for i := 0; i < K; i++ {
			r := c.IdxRng("t5", int64(i))
			ki := i % len(keys)
			key := keys[ki]
			issuer := type5.NewBatchedPrivateIssuer(key)
			challenge := r.Bytes(r.IntN(70))
			nb := sizes[i%len(sizes)]
			nonces := make([][]byte, nb)
			for j := range nonces {
				nonces[j] = r.Bytes(32)
			}
			st, err := type5.NewBatchedPrivateClient().CreateTokenRequest(challenge, nonces, issuer.TokenKeyID(), issuer.TokenKey())
			must(err)
			resp, err := issuer.Evaluate(st.Request())
			must(err)
			kid := issuer.TokenKeyID()
			p5 = append(p5, c02Pair{&c02State{typ: 5, label: fmt.Sprintf("t5#%d(n=%d)", i, nb), keyIdx: ki, nonces: nonces, challenge: challenge, keyID: kid, authLen: 64,
				finalize: st.FinalizeTokens,
				verifyTok: func(t tokens.Token) error {
					for _, n := range nonces {
						if bytes.Equal(n, t.Nonce) {
							if bytes.Equal(t.Authenticator, RefVOPRF(oprf.SuiteRistretto255, key, ref.TokenBytes(5, n, challenge, kid, nil))) {
								return nil
							}
						}
					}
					return fmt.Errorf("authenticator != VOPRF(key, token input)")
				}}, resp})
			p5n = append(p5n, nb)
			blindedReq := st.Request().BlindedReq
			reqKeyID := st.Request().TokenKeyID
			p5forge = append(p5forge, func(r *core.Rand, badAt int, bad []byte, wrongOthers bool) []byte {
				return forgeType5Response(r, key, blindedReq, badAt, bad, wrongOthers)
			})
			p5mal = append(p5mal, func(idx []int) ([]byte, error) {
				var list [][]byte
				for _, j := range idx {
					list = append(list, clone(blindedReq[j]))
				}
				return issuer.Evaluate(&type5.BatchedPrivateTokenRequest{TokenKeyID: reqKeyID, BlindedReq: list})
			})
		}
	}

	groups := []struct {
		name  string
		pairs []c02Pair
	}{{"type1", p1}, {"type2", p2}, {"type3", p3}, {"type5", p5}}

	for _, g := range groups {
		for i, p := range g.pairs {
			// honest
			if c.Next() {
				c02Call(c, p.st, p.resp, "honest", false)
				c02Call(c, p.st, p.resp, "honest-again", false)
				c.Distinctf("%s:honest:%d", g.name, i)
				c.Sample(g.name+" honest response", map[string]any{"state": p.st.label, "response_len": len(p.resp)})
			}
			// exhaustive bit flips, in chunks of 256 bits
			nbits := len(p.resp) * 8
			for lo := 0; lo < nbits; lo += 256 {
				if !c.Next() {
					continue
				}
				for bit := lo; bit < lo+256 && bit < nbits; bit++ {
					b := clone(p.resp)
					b[bit/8] ^= 1 << uint(bit%8)
					c02Call(c, p.st, b, fmt.Sprintf("bitflip#%d", bit), true)
					c.Class(g.name + "_bitflips")
				}
				c.Distinctf("%s:bitflip:%d:%d", g.name, i, lo)
			}
			// truncations / extensions
			if c.Next() {
				for _, l := range []int{0, 1, 15, 16, 17, 48, 49, 50, len(p.resp) - 1} {
					if l >= 0 && l < len(p.resp) {
						c02Call(c, p.st, p.resp[:l], fmt.Sprintf("truncated#%d", l), true)
					}
				}
				c.Distinctf("%s:trunc:%d", g.name, i)
			}
			// cross pairing
			if c.Next() {
				for j, q := range g.pairs {
					if j == i {
						continue
					}
					cls := "foreign-response-same-key"
					if q.st.keyIdx != p.st.keyIdx {
						cls = "foreign-response-other-key"
					}
					c02Call(c, p.st, q.resp, cls+fmt.Sprintf("#%d", j), true)
					c.Class("cross_pair_rejected")
					c.Distinctf("%s:cross:%d:%d", g.name, i, j)
				}
			}
		}
		c.Exhaustive("single-bit flips of every honest " + g.name + " response; full cross-pairing matrix")
	}

	// ---- type 5 structure attacks
	for i, p := range p5 {
		if !c.Next() {
			continue
		}
		nb := p5n[i]
		r := c.CaseRng()
		pfx, elems, proof := splitType5Response(p.resp, nb)
		_ = pfx
		build := func(es [][]byte, pr []byte) []byte {
			body := bytes.Join(es, nil)
			out := refVarintEnc(uint64(len(body)))
			out = append(out, body...)
			return append(out, pr...)
		}
		// sanity: rebuilding the honest one is accepted
		c02Call(c, p.st, build(elems, proof), "rebuilt-honest", false)
		for d := 0; d < nb; d++ {
			es := append(append([][]byte{}, elems[:d]...), elems[d+1:]...)
			c02Call(c, p.st, build(es, proof), fmt.Sprintf("drop#%d", d), true)
			c.Class("type5_drop_rejected")
		}
		for d := 0; d < nb; d++ {
			for s := 0; s < nb; s++ {
				if s == d {
					continue
				}
				es := append([][]byte{}, elems...)
				es[d] = elems[s]
				c02Call(c, p.st, build(es, proof), fmt.Sprintf("dup#%d<-%d", d, s), true)
				c.Class("type5_dup_rejected")
			}
		}
		for a := 0; a+1 < nb; a++ {
			es := append([][]byte{}, elems...)
			es[a], es[a+1] = es[a+1], es[a]
			c02Call(c, p.st, build(es, proof), fmt.Sprintf("swap#%d", a), true)
			c.Class("type5_swap_rejected")
		}
		if nb >= 3 {
			for k := 0; k < 4; k++ {
				a, b := r.IntN(nb), r.IntN(nb)
				if a == b {
					continue
				}
				es := append([][]byte{}, elems...)
				es[a], es[b] = es[b], es[a]
				c02Call(c, p.st, build(es, proof), fmt.Sprintf("swap#%d,%d", a, b), true)
				c.Class("type5_swap_rejected")
			}
		}
		// appended element (copy of the first / a fresh valid element from another response)
		c02Call(c, p.st, build(append(append([][]byte{}, elems...), elems[0]), proof), "extra-element", true)
		// proof of another batch
		for j, q := range p5 {
			if j != i {
				_, _, pr2 := splitType5Response(q.resp, p5n[j])
				c02Call(c, p.st, build(elems, pr2), fmt.Sprintf("foreign-proof#%d", j), true)
			}
		}
		// the same structure attacks by a malicious holder of the issuer key: each response is an honest evaluation, WITH A
		// VALID PROOF, of a shortened / permuted / duplicated / extended copy of the request's element list
		{
			all := make([]int, nb)
			for j := range all {
				all[j] = j
			}
			try := func(idx []int, cls, floor string) {
				resp, err := p5mal[i](idx)
				if err != nil {
					return
				}
				same := len(idx) == nb
				for j := range idx {
					same = same && idx[j] == j
				}
				if same {
					return
				}
				c02Call(c, p.st, resp, "issuer-evaluated-"+cls, true)
				c.Class(floor)
			}
			for n := 1; n < nb; n++ {
				try(all[:n], fmt.Sprintf("prefix#%d", n), "type5_valid_proof_prefix_rejected")
				try(all[nb-n:], fmt.Sprintf("suffix#%d", n), "type5_valid_proof_prefix_rejected")
			}
			for d := 0; d < nb && nb > 1; d++ {
				idx := append(append([]int{}, all[:d]...), all[d+1:]...)
				try(idx, fmt.Sprintf("without#%d", d), "type5_valid_proof_prefix_rejected")
				dup := append([]int{}, all...)
				dup[d] = all[(d+1)%nb]
				try(dup, fmt.Sprintf("duplicate#%d", d), "type5_valid_proof_permuted_rejected")
			}
			for a := 0; a+1 < nb; a++ {
				sw := append([]int{}, all...)
				sw[a], sw[a+1] = sw[a+1], sw[a]
				try(sw, fmt.Sprintf("swap#%d", a), "type5_valid_proof_permuted_rejected")
			}
			if nb > 1 {
				rot := append(append([]int{}, all[1:]...), all[0])
				try(rot, "rotation", "type5_valid_proof_permuted_rejected")
				rev := make([]int, nb)
				for j := range rev {
					rev[j] = nb - 1 - j
				}
				try(rev, "reversed", "type5_valid_proof_permuted_rejected")
			}
			try(append(append([]int{}, all...), 0), "extended-by-first", "type5_valid_proof_permuted_rejected")
		}
		// the identity element (32 zero bytes: a VALID encoding) in every slot, with the honest proof: refused, and not
		// "accepted" with a nil result
		for slot := 0; slot < nb; slot++ {
			es := append([][]byte{}, elems...)
			es[slot] = make([]byte, 32)
			c02Call(c, p.st, build(es, proof), fmt.Sprintf("identity-element#%d", slot), true)
			c.Class("type5_identity_element_rejected")
		}
		{
			es := make([][]byte, nb)
			for j := range es {
				es[j] = make([]byte, 32)
			}
			c02Call(c, p.st, build(es, proof), "all-identity-elements", true)
			c02Call(c, p.st, build(es, make([]byte, 64)), "all-identity-elements-zero-proof", true)
		}
		// an element that is not a group-element encoding, in every slot, with (a) the honest proof and (b) a proof a
		// malicious key holder forges with the verifier's own arithmetic on what the decoder leaves behind
		for slot := 0; slot < nb; slot++ {
			for _, badEnc := range ristrettoInvalidEncodings(r) {
				es := append([][]byte{}, elems...)
				es[slot] = badEnc
				c02Call(c, p.st, build(es, proof), fmt.Sprintf("undecodable-element#%d", slot), true)
				c.Class("type5_undecodable_element_rejected")
				for _, wrongOthers := range []bool{false, true} {
					if f := p5forge[i](r, slot, badEnc, wrongOthers); f != nil {
						c02Call(c, p.st, f, fmt.Sprintf("undecodable-element-with-forged-proof#%d", slot), true)
						c.Class("type5_forged_proofs_submitted")
					} else {
						c.Class("type5_no_forgery_possible")
					}
				}
			}
		}
		// non-minimal varint prefix with the honest content: same mathematical response, accepted or rejected both fine;
		// only the universal oracle applies
		body := bytes.Join(elems, nil)
		nm := []byte{0x80, 0, byte(len(body) >> 8), byte(len(body))}
		c02Call(c, p.st, append(append(nm, body...), proof...), "non-minimal-varint", false)
		// trailing bytes after the proof: universal oracle only
		c02Call(c, p.st, append(clone(p.resp), 0), "trailing-byte", false)
		c.Distinctf("type5:structure:%d", i)
		c.Sample("type5 structure attacks", map[string]any{"state": p.st.label, "elements": nb})
	}
	c02Lifecycle(c)
	c02HostileCreationArguments(c)
	c02Extra(c)
}

func rsaTokVerifier(pub *rsa.PublicKey, typ uint16, nonce, challenge, kid []byte) func(tokens.Token) error {
	return func(t tokens.Token) error {
		return ref.VerifyRSAToken(pub, ref.TokenBytes(typ, nonce, challenge, kid, nil), t.Authenticator)
	}
}

// splitType5Response cuts varint || 32n element bytes || 64 proof bytes with the harness's own parser.
func splitType5Response(resp []byte, n int) (prefix []byte, elems [][]byte, proof []byte) {
	v, k := refVarintDec(resp)
	if k < 0 || int(v) != 32*n || len(resp) != k+32*n+64 {
		panic(fmt.Sprintf("unexpected type-5 response shape: len=%d n=%d", len(resp), n))
	}
	for i := 0; i < n; i++ {
		elems = append(elems, resp[k+32*i:k+32*(i+1)])
	}
	return resp[:k], elems, resp[k+32*n:]
}

// ---------------------------------------------------------------- lifecycle interleavings
//
// Several requests outstanding at once, created and finalized in interleaved
// order, with failing finalizations in between: every successful finalization
// must still return the token of *its own* request. (State shared between
// requests - pooled buffers, package-level scratch - only shows this way.)

type lcReq struct {
	st   *c02State
	eval func() ([]byte, error)
	// decryptableBad (type 3): a response that decrypts under this request's key but carries a wrong blind signature
	decryptableBad func(r *core.Rand) []byte
}

func c02Lifecycle(c *core.Ctx) {
	setup := c.Rng("lifecycle-setup")
	rk := RSAKeys()
	curve := elliptic.P384()
	k1 := VOPRFKey(oprf.SuiteP384, setup.Bytes(32))
	k5 := VOPRFKey(oprf.SuiteRistretto255, setup.Bytes(32))
	seed3 := setup.Bytes(32)
	iss3, err3 := type3.VerifNewRateLimitedIssuerWithNameKey(type3.NewRateLimitedIssuer(rk[2]), seed3)
	must(err3)
	iss3.AddOrigin("origin.example")
	factories := map[string]func(r *core.Rand) *lcReq{
		"type1": func(r *core.Rand) *lcReq {
			iss := type1.NewBasicPrivateIssuer(k1)
			ch, nonce, kid := r.Bytes(r.IntN(40)), r.Bytes(32), iss.TokenKeyID()
			st, err := type1.NewBasicPrivateClient().CreateTokenRequest(ch, nonce, kid, iss.TokenKey())
			must(err)
			wire := clone(st.Request().Marshal())
			return &lcReq{&c02State{typ: 1, label: "t1", nonces: [][]byte{nonce}, challenge: ch, keyID: kid, authLen: 48,
				finalize: func(b []byte) ([]tokens.Token, error) {
					t, err := st.FinalizeToken(b)
					if err != nil {
						return nil, err
					}
					return []tokens.Token{t}, nil
				},
				verifyTok: func(t tokens.Token) error {
					if !bytes.Equal(t.Authenticator, RefVOPRF(oprf.SuiteP384, k1, ref.TokenBytes(1, nonce, ch, kid, nil))) {
						return fmt.Errorf("authenticator != VOPRF(key, token input)")
					}
					return nil
				}},
				func() ([]byte, error) {
					q := new(type1.BasicPrivateTokenRequest)
					if !q.Unmarshal(clone(wire)) {
						return nil, fmt.Errorf("undecodable")
					}
					return iss.Evaluate(q)
				}, nil}
		},
		"type2": func(r *core.Rand) *lcReq {
			key := rk[0]
			iss := type2.NewBasicPublicIssuer(key)
			ch, nonce, kid := r.Bytes(r.IntN(40)), r.Bytes(32), iss.TokenKeyID()
			st, err := type2.NewBasicPublicClient().CreateTokenRequest(ch, nonce, kid, iss.TokenKey())
			must(err)
			wire := clone(st.Request().Marshal())
			return &lcReq{&c02State{typ: 2, label: "t2", nonces: [][]byte{nonce}, challenge: ch, keyID: kid, authLen: 256,
				finalize: func(b []byte) ([]tokens.Token, error) {
					t, err := st.FinalizeToken(b)
					if err != nil {
						return nil, err
					}
					return []tokens.Token{t}, nil
				},
				verifyTok: rsaTokVerifier(&key.PublicKey, 2, nonce, ch, kid)},
				func() ([]byte, error) {
					q := new(type2.BasicPublicTokenRequest)
					if !q.Unmarshal(clone(wire)) {
						return nil, fmt.Errorf("undecodable")
					}
					return iss.Evaluate(q)
				}, nil}
		},
		"type5": func(r *core.Rand) *lcReq {
			iss := type5.NewBatchedPrivateIssuer(k5)
			ch, kid := r.Bytes(r.IntN(40)), iss.TokenKeyID()
			nb := 1 + r.IntN(4)
			nonces := make([][]byte, nb)
			for i := range nonces {
				nonces[i] = r.Bytes(32)
			}
			st, err := type5.NewBatchedPrivateClient().CreateTokenRequest(ch, nonces, kid, iss.TokenKey())
			must(err)
			wire := clone(st.Request().Marshal())
			return &lcReq{&c02State{typ: 5, label: "t5", nonces: nonces, challenge: ch, keyID: kid, authLen: 64,
				finalize: st.FinalizeTokens,
				verifyTok: func(t tokens.Token) error {
					for _, n := range nonces {
						if bytes.Equal(n, t.Nonce) && bytes.Equal(t.Authenticator, RefVOPRF(oprf.SuiteRistretto255, k5, ref.TokenBytes(5, n, ch, kid, nil))) {
							return nil
						}
					}
					return fmt.Errorf("authenticator != VOPRF(key, token input)")
				}},
				func() ([]byte, error) {
					q := new(type5.BatchedPrivateTokenRequest)
					if !q.Unmarshal(clone(wire)) {
						return nil, fmt.Errorf("undecodable")
					}
					return iss.Evaluate(q)
				}, nil}
		},
		"type3": func(r *core.Rand) *lcReq {
			key := rk[2]
			ch, nonce, kid := r.Bytes(r.IntN(40)), r.Bytes(32), iss3.TokenKeyID()
			cl := type3.NewRateLimitedClientFromSecret(ScalarBytes(r, curve.Params().N, 48))
			st, err := cl.CreateTokenRequest(ch, nonce, ScalarBytes(r, curve.Params().N, 48), kid, iss3.TokenKey(), "origin.example", iss3.NameKey())
			must(err)
			wire := clone(st.Request().Marshal())
			return &lcReq{&c02State{typ: 3, label: "t3", nonces: [][]byte{nonce}, challenge: ch, keyID: kid, authLen: 256,
				finalize: func(b []byte) ([]tokens.Token, error) {
					t, err := st.FinalizeToken(b)
					if err != nil {
						return nil, err
					}
					return []tokens.Token{t}, nil
				},
				verifyTok: rsaTokVerifier(&key.PublicKey, 3, nonce, ch, kid)},
				func() ([]byte, error) {
					resp, _, err := iss3.Evaluate(clone(wire))
					return resp, err
				},
				func(r *core.Rand) []byte {
					sealer, err := newT3ResponseSealer(seed3, wire)
					if err != nil {
						return nil
					}
					payload := r.Bytes(256)
					if r.Coin(2) {
						if resp, _, err := iss3.Evaluate(clone(wire)); err == nil {
							if good, err := sealer.open(resp); err == nil {
								payload = flipBit(good, r.IntN(len(good)*8))
							}
						}
					}
					return sealer.seal(r.Bytes(16), payload)
				}}
		},
	}
	n := c.Pick(40, 6000)
	for _, name := range []string{"type1", "type2", "type3", "type5"} {
		mk := factories[name]
		for i := 0; i < n; i++ {
			if !c.Next() {
				continue
			}
			r := c.CaseRng()
			var live []*lcReq
			var script []string
			steps := 6 + r.IntN(10)
			for s := 0; s < steps; s++ {
				op := r.IntN(5)
				if len(live) == 0 || (op == 0 && len(live) < 4) {
					q := mk(r)
					q.st.label = fmt.Sprintf("%s#%d", q.st.label, len(live))
					live = append(live, q)
					script = append(script, "create "+q.st.label)
					continue
				}
				q := live[r.IntN(len(live))]
				switch op {
				case 4: // a response that decrypts but carries a wrong blind signature (type 3), else garbage
					if q.decryptableBad != nil {
						if b := q.decryptableBad(r); b != nil {
							script = append(script, "finalize-decryptable-but-wrong "+q.st.label)
							c02Call(c, q.st, b, "lifecycle:decryptable-wrong-signature", true)
							c.Class("lifecycle_decryptable_wrong_signature")
							continue
						}
					}
					script = append(script, "finalize-garbage "+q.st.label)
					c02Call(c, q.st, r.Bytes(r.Of(0, 5, 97, 145, 256, 288)), "lifecycle:garbage", true)
				case 1: // garbage response
					script = append(script, "finalize-garbage "+q.st.label)
					c02Call(c, q.st, r.Bytes(r.Of(0, 5, 97, 145, 256, 288)), "lifecycle:garbage", true)
				case 2: // corrupted honest response
					resp, err := q.eval()
					if err != nil {
						c.Violation(name+":lifecycle:evaluate-error", "the issuer refused an honest request in an interleaved run: "+err.Error(), map[string]any{"script": script})
						continue
					}
					script = append(script, "finalize-bitflip "+q.st.label)
					c02Call(c, q.st, flipBit(resp, r.IntN(len(resp)*8-24)), "lifecycle:bitflip", false)
				default: // honest response: must succeed and belong to this request
					resp, err := q.eval()
					if err != nil {
						c.Violation(name+":lifecycle:evaluate-error", "the issuer refused an honest request in an interleaved run: "+err.Error(), map[string]any{"script": script})
						continue
					}
					script = append(script, "finalize-honest "+q.st.label)
					before := c.Cases()
					_ = before
					c02CallExpectSuccess(c, q.st, resp, script)
				}
			}
			c.Class("lifecycle_sequences")
			c.Distinctf("%s:lifecycle:%d", name, i)
			if i == 0 {
				c.Sample(name+" interleaved lifecycle", script)
			}
		}
	}
}

// c02CallExpectSuccess: an honest response to a still outstanding request must finalize, to that request's token.
func c02CallExpectSuccess(c *core.Ctx, st *c02State, resp []byte, script []string) {
	c.Eval(1)
	var toks []tokens.Token
	var err error
	pan, pv, where := core.Guard(func() { toks, err = st.finalize(clone(resp)) })
	d := map[string]any{"type": st.typ, "state": st.label, "script": script, "response": core.Hex(resp)}
	if pan {
		c.Violation(fmt.Sprintf("type%d:lifecycle:panic:%s", st.typ, where), "finalization panicked: "+pv, d)
		return
	}
	if err != nil {
		c.Violation(fmt.Sprintf("type%d:lifecycle:honest-rejected", st.typ), "the honest response to an outstanding request was rejected after other requests were created or finalized in between: "+err.Error(), d)
		return
	}
	if len(toks) != len(st.nonces) {
		c.Violation(fmt.Sprintf("type%d:lifecycle:wrong-count", st.typ), "wrong number of tokens", d)
		return
	}
	for j, tok := range toks {
		if cls, dd := checkTokenLayout(tok, st.typ, st.nonces[j], st.challenge, st.keyID, st.authLen); cls != "" {
			d["token_problem"], d["index"] = dd, j
			c.Violation(fmt.Sprintf("type%d:lifecycle:foreign-token", st.typ), "finalization returned a token that does not carry its own request's nonce/challenge digest/key id ("+cls+")", d)
			return
		}
		if verr := st.verifyTok(tok); verr != nil {
			c.Violation(fmt.Sprintf("type%d:lifecycle:invalid-token", st.typ), "finalization returned a token that does not verify: "+verr.Error(), d)
			return
		}
	}
	// the tokens are the caller's now: it may reuse their buffers; later finalizations must not depend on them
	for _, tok := range toks {
		for _, f := range [][]byte{tok.Nonce, tok.Context, tok.KeyID, tok.Authenticator} {
			for k := range f {
				f[k] ^= 0x5a
			}
		}
	}
	c.Class("lifecycle_honest_finalized")
	c.Class("accepted_valid")
}

// ---------------------------------------------------------------- further request shapes
//
// (a) type-2 requests made with caller-supplied salts of other lengths than 48: whatever FinalizeToken returns
// without error must still be a token a standard RSASSA-PSS(SHA-384, salt 48) verifier accepts.
// (b) one client object (as returned by the constructors) used for several issuer keys, including two keys whose
// truncated key ids collide: each request must be finalized against its own issuer key only.
func c02Extra(c *core.Ctx) {
	rk := RSAKeys()
	n := c.Pick(3, 40)
	for i := 0; i < n; i++ {
		if !c.Next() {
			continue
		}
		r := c.CaseRng()
		key := rk[i%len(rk)]
		iss := type2.NewBasicPublicIssuer(key)
		for _, sl := range []int{0, 1, 20, 32, 47, 48, 49, 64} {
			ch, nonce, kid, salt := r.Bytes(r.IntN(30)), r.Bytes(32), iss.TokenKeyID(), r.Bytes(sl)
			c.Eval(1)
			var st type2.BasicPublicTokenRequestState
			var err error
			pan, pv, _ := core.Guard(func() {
				st, err = type2.NewBasicPublicClient().CreateTokenRequestWithBlind(ch, nonce, kid, iss.TokenKey(), RSABlind(r, 5+i, key), salt)
			})
			if pan {
				c.Violation("type2:odd-salt:panic", "CreateTokenRequestWithBlind panicked: "+pv, map[string]any{"salt_len": sl})
				continue
			}
			if err != nil {
				c.Class("odd_salt_refused_at_creation")
				continue
			}
			resp, err := iss.Evaluate(st.Request())
			if err != nil {
				continue
			}
			state := &c02State{typ: 2, label: fmt.Sprintf("t2-salt%d", sl), nonces: [][]byte{nonce}, challenge: ch, keyID: kid, authLen: 256,
				finalize: func(b []byte) ([]tokens.Token, error) {
					t, err := st.FinalizeToken(b)
					if err != nil {
						return nil, err
					}
					return []tokens.Token{t}, nil
				},
				verifyTok: rsaTokVerifier(&key.PublicKey, 2, nonce, ch, kid)}
			c02Call(c, state, resp, fmt.Sprintf("honest-response-salt-length#%d", sl), false)
			c.Class("odd_salt_lengths")
		}
		c.Distinctf("oddsalt:%d", i)
	}
	// (b) client objects reused across issuer keys
	m := c.Pick(4, 60)
	for i := 0; i < m; i++ {
		if !c.Next() {
			continue
		}
		r := c.CaseRng()
		// type 1: two keys with colliding last key-id byte
		kA := VOPRFKey(oprf.SuiteP384, r.Bytes(32))
		var kB *oprf.PrivateKey
		for {
			kB = VOPRFKey(oprf.SuiteP384, r.Bytes(32))
			if lastByte(RefVOPRFKeyID(kB)) == lastByte(RefVOPRFKeyID(kA)) {
				break
			}
		}
		issA, issB := type1.NewBasicPrivateIssuer(kA), type1.NewBasicPrivateIssuer(kB)
		cl := type1.NewBasicPrivateClient()
		chA, nA, chB, nB := r.Bytes(10), r.Bytes(32), r.Bytes(10), r.Bytes(32)
		stA, err := cl.CreateTokenRequest(chA, nA, issA.TokenKeyID(), issA.TokenKey())
		must(err)
		stB, err := cl.CreateTokenRequest(chB, nB, issB.TokenKeyID(), issB.TokenKey())
		must(err)
		mk1 := func(st type1.BasicPrivateTokenRequestState, key *oprf.PrivateKey, ch, nonce, kid []byte, label string) *c02State {
			return &c02State{typ: 1, label: label, nonces: [][]byte{nonce}, challenge: ch, keyID: kid, authLen: 48,
				finalize: func(b []byte) ([]tokens.Token, error) {
					t, err := st.FinalizeToken(b)
					if err != nil {
						return nil, err
					}
					return []tokens.Token{t}, nil
				},
				verifyTok: func(t tokens.Token) error {
					if !bytes.Equal(t.Authenticator, RefVOPRF(oprf.SuiteP384, key, ref.TokenBytes(1, nonce, ch, kid, nil))) {
						return fmt.Errorf("authenticator != VOPRF(key, token input)")
					}
					return nil
				}}
		}
		sA := mk1(stA, kA, chA, nA, issA.TokenKeyID(), "t1-clientreuse-A")
		sB := mk1(stB, kB, chB, nB, issB.TokenKeyID(), "t1-clientreuse-B")
		rB, err := issB.Evaluate(stB.Request())
		must(err)
		rBwrong, err := issA.Evaluate(stB.Request()) // evaluated under the other key with the same truncated id
		must(err)
		rA, err := issA.Evaluate(stA.Request())
		must(err)
		c02Call(c, sB, rBwrong, "same-client-object:response-under-colliding-key", true)
		c02CallExpectSuccess(c, sB, rB, []string{"one client object", "request for key A", "request for key B (same truncated key id)", "honest response for B"})
		c02CallExpectSuccess(c, sA, rA, []string{"one client object", "request for key A", "request for key B (same truncated key id)", "honest response for A"})
		c.Class("client_object_reused_across_keys")
		c.Distinctf("clientreuse:t1:%d", i)
		// type 5 likewise
		k5A := VOPRFKey(oprf.SuiteRistretto255, r.Bytes(32))
		var k5B *oprf.PrivateKey
		for {
			k5B = VOPRFKey(oprf.SuiteRistretto255, r.Bytes(32))
			if lastByte(RefVOPRFKeyID(k5B)) == lastByte(RefVOPRFKeyID(k5A)) {
				break
			}
		}
		i5A, i5B := type5.NewBatchedPrivateIssuer(k5A), type5.NewBatchedPrivateIssuer(k5B)
		cl5 := type5.NewBatchedPrivateClient()
		nonces := [][]byte{r.Bytes(32), r.Bytes(32)}
		ch5 := r.Bytes(10)
		_, err = cl5.CreateTokenRequest(r.Bytes(5), [][]byte{r.Bytes(32)}, i5A.TokenKeyID(), i5A.TokenKey())
		must(err)
		st5, err := cl5.CreateTokenRequest(ch5, nonces, i5B.TokenKeyID(), i5B.TokenKey())
		must(err)
		kid5 := i5B.TokenKeyID()
		s5 := &c02State{typ: 5, label: "t5-clientreuse-B", nonces: nonces, challenge: ch5, keyID: kid5, authLen: 64, finalize: st5.FinalizeTokens,
			verifyTok: func(t tokens.Token) error {
				for _, nn := range nonces {
					if bytes.Equal(nn, t.Nonce) && bytes.Equal(t.Authenticator, RefVOPRF(oprf.SuiteRistretto255, k5B, ref.TokenBytes(5, nn, ch5, kid5, nil))) {
						return nil
					}
				}
				return fmt.Errorf("authenticator != VOPRF(key, token input)")
			}}
		r5wrong, err := i5A.Evaluate(st5.Request())
		must(err)
		r5, err := i5B.Evaluate(st5.Request())
		must(err)
		c02Call(c, s5, r5wrong, "same-client-object:response-under-colliding-key", true)
		c02CallExpectSuccess(c, s5, r5, []string{"one type-5 client object", "request for key A", "request for key B (same truncated key id)", "honest response for B"})
		// type 2: one client object, two keys
		cl2 := type2.NewBasicPublicClient()
		k2A, k2B := rk[i%len(rk)], rk[(i+1)%len(rk)]
		i2A, i2B := type2.NewBasicPublicIssuer(k2A), type2.NewBasicPublicIssuer(k2B)
		_, err = cl2.CreateTokenRequest(r.Bytes(5), r.Bytes(32), i2A.TokenKeyID(), i2A.TokenKey())
		must(err)
		ch2, n2 := r.Bytes(10), r.Bytes(32)
		st2, err := cl2.CreateTokenRequest(ch2, n2, i2B.TokenKeyID(), i2B.TokenKey())
		must(err)
		s2 := &c02State{typ: 2, label: "t2-clientreuse-B", nonces: [][]byte{n2}, challenge: ch2, keyID: i2B.TokenKeyID(), authLen: 256,
			finalize: func(b []byte) ([]tokens.Token, error) {
				t, err := st2.FinalizeToken(b)
				if err != nil {
					return nil, err
				}
				return []tokens.Token{t}, nil
			},
			verifyTok: rsaTokVerifier(&k2B.PublicKey, 2, n2, ch2, i2B.TokenKeyID())}
		if r2wrong, err := i2A.Evaluate(st2.Request()); err == nil {
			c02Call(c, s2, r2wrong, "same-client-object:response-under-other-key", true)
		}
		r2, err := i2B.Evaluate(st2.Request())
		must(err)
		c02CallExpectSuccess(c, s2, r2, []string{"one type-2 client object", "request for key A", "request for key B", "honest response for B"})
	}
}
