// Package props holds one monitor per property (C01..C20).
package props

import (
	"crypto/rsa"
	"crypto/sha256"
	"crypto/x509"
	"encoding/json"
	"encoding/pem"
	"fmt"
	"math/big"
	"os"
	"os/exec"
	"path/filepath"
	"sort"
	"strings"
	"sync"
	"syscall"
	"time"

	"github.com/cloudflare/circl/oprf"

	"github.com/cloudflare/pat-go/tokens"

	"verifharness/internal/core"
)

var (
	rsaOnce sync.Once
	rsaKeys []*rsa.PrivateKey
)

// RSAKeys returns the committed RSA-2048 fixtures.
// OddRSAKeys returns the fixtures whose modulus is 256 octets long but has 2041, 2045 or 2047 bits: keys that
// rsa.GenerateKey(2048) never produces, that are perfectly good token keys (256-byte signatures), and on which every
// "bits/8" that rounds down goes wrong.
func OddRSAKeys() []*rsa.PrivateKey {
	var out []*rsa.PrivateKey
	for _, bits := range []int{2041, 2045, 2047} {
		b, err := os.ReadFile(filepath.Join(core.VerifDir(), "fixtures", fmt.Sprintf("rsa-odd-%d.pem", bits)))
		if err != nil {
			panic(err)
		}
		blk, _ := pem.Decode(b)
		k, err := x509.ParsePKCS8PrivateKey(blk.Bytes)
		if err != nil {
			panic(err)
		}
		rk := k.(*rsa.PrivateKey)
		if rk.N.BitLen() != bits {
			panic("odd RSA fixture has an unexpected modulus size")
		}
		rk.Precompute()
		out = append(out, rk)
	}
	return out
}

func RSAKeys() []*rsa.PrivateKey {
	rsaOnce.Do(func() {
		files, _ := filepath.Glob(filepath.Join(core.VerifDir(), "fixtures", "rsa2048-*.pem"))
		sort.Strings(files)
		for _, f := range files {
			b, err := os.ReadFile(f)
			if err != nil {
				panic(err)
			}
			blk, _ := pem.Decode(b)
			k, err := x509.ParsePKCS8PrivateKey(blk.Bytes)
			if err != nil {
				panic(err)
			}
			rk := k.(*rsa.PrivateKey)
			rk.Precompute()
			rsaKeys = append(rsaKeys, rk)
		}
		if len(rsaKeys) < 4 {
			panic("RSA fixtures missing under " + core.VerifDir() + "/fixtures")
		}
		// one key with three prime factors (PKCS#1 with otherPrimeInfos), appended last so that the indices of the
		// two-prime fixtures stay what they were
		if b, err := os.ReadFile(filepath.Join(core.VerifDir(), "fixtures", "multiprime3-rsa2048.pem")); err == nil {
			blk, _ := pem.Decode(b)
			mk, err := x509.ParsePKCS1PrivateKey(blk.Bytes)
			if err != nil {
				panic(err)
			}
			mk.Precompute()
			rsaKeys = append(rsaKeys, mk)
		}
	})
	return rsaKeys
}

// VOPRFKey derives a VOPRF private key from seed bytes (deterministic).
func VOPRFKey(suite oprf.Suite, seed []byte) *oprf.PrivateKey {
	k, err := oprf.DeriveKey(suite, oprf.VerifiableMode, seed, []byte("verif fixture"))
	if err != nil {
		panic(err)
	}
	return k
}

// FreshVOPRFKey returns a new key object with the same value (so the object
// under test has never been used: its lazy public-key cache is empty).
func FreshVOPRFKey(suite oprf.Suite, k *oprf.PrivateKey) *oprf.PrivateKey {
	b, err := k.MarshalBinary()
	if err != nil {
		panic(err)
	}
	n := new(oprf.PrivateKey)
	if err := n.UnmarshalBinary(suite, b); err != nil {
		panic(err)
	}
	return n
}

// RefVOPRF is the reference authenticator: circl's FullEvaluate called directly.
func RefVOPRF(suite oprf.Suite, k *oprf.PrivateKey, input []byte) []byte {
	out, err := oprf.NewVerifiableServer(suite, k).FullEvaluate(input)
	if err != nil {
		return nil
	}
	return out
}

// RefVOPRFKeyID is SHA-256 of the serialized (compressed) public key.
func RefVOPRFKeyID(k *oprf.PrivateKey) []byte {
	b, err := k.Public().MarshalBinary()
	if err != nil {
		panic(err)
	}
	h := sha256.Sum256(b)
	return h[:]
}

var challengeLens = []int{0, 1, 31, 32, 33, 55, 56, 63, 64, 65, 127, 128, 1000, 65535}

// GenChallenge returns challenge bytes for index i: boundary lengths first,
// then marshalled TokenChallenges and seeded random strings.
func GenChallenge(r *core.Rand, i int) []byte {
	if i < len(challengeLens) {
		return r.Bytes(challengeLens[i])
	}
	if i%3 == 0 {
		tc := tokens.TokenChallenge{
			TokenType:       uint16(r.Of(1, 2, 3, 5)),
			IssuerName:      string(alnum(r, 1+r.IntN(40))),
			RedemptionNonce: r.Bytes(r.Of(0, 32)),
			OriginInfo:      []string{string(alnum(r, r.IntN(30)))},
		}
		enc := tc.Marshal()
		if i%2 == 0 {
			// a well-formed TokenChallenge followed by further bytes: still just bytes to be hashed as they are
			enc = append(enc, r.Bytes(1+r.IntN(5))...)
		}
		return enc
	}
	return r.Bytes(r.IntN(r.Of(40, 300, 4096)))
}

func alnum(r *core.Rand, n int) []byte {
	const cs = "abcdefghijklmnopqrstuvwxyz0123456789.-"
	b := make([]byte, n)
	for i := range b {
		b[i] = cs[r.IntN(len(cs))]
	}
	return b
}

// GenNonce returns a 32-byte nonce; indexes 0 and 1 are the all-zero and all-0xff ones.
func GenNonce(r *core.Rand, i int) []byte {
	switch i {
	case 0:
		return make([]byte, 32)
	case 1:
		b := make([]byte, 32)
		for j := range b {
			b[j] = 0xff
		}
		return b
	}
	return r.Bytes(32)
}

// ScalarBytes returns a scalar in [1, order-1] as fixed-width big-endian bytes.
func ScalarBytes(r *core.Rand, order *big.Int, width int) []byte {
	x := new(big.Int).SetBytes(r.Bytes(width + 8))
	x.Mod(x, new(big.Int).Sub(order, big.NewInt(1)))
	x.Add(x, big.NewInt(1))
	out := make([]byte, width)
	x.FillBytes(out)
	return out
}

// RSABlind returns blind bytes for blind RSA with fixed blinds: edge values
// (1, 2, N-1, a value with leading zero bytes) for small j, seeded otherwise.
// All are < N and invertible mod N.
func RSABlind(r *core.Rand, j int, key *rsa.PrivateKey) []byte {
	n := key.N
	k := (n.BitLen() + 7) / 8
	out := make([]byte, k)
	switch j % 8 {
	case 0:
		big.NewInt(1).FillBytes(out)
	case 1:
		big.NewInt(2).FillBytes(out)
	case 2:
		new(big.Int).Sub(n, big.NewInt(1)).FillBytes(out)
	case 3:
		copy(out[k-20:], r.Bytes(20)) // leading zero bytes
		out[k-1] |= 1
	case 4:
		// short encodings (fewer bytes than the modulus), also with a first byte larger than the modulus' first byte
		switch (j / 8) % 3 {
		case 0:
			return []byte{3}
		case 1:
			return []byte{0xfd}
		default:
			b := make([]byte, k-1)
			for i := range b {
				b[i] = 0xff
			}
			return b
		}
	default:
		x := new(big.Int).SetBytes(r.Bytes(k + 8))
		x.Mod(x, new(big.Int).Sub(n, big.NewInt(2)))
		x.Add(x, big.NewInt(2))
		x.FillBytes(out)
	}
	return out
}

func clone(b []byte) []byte {
	if b == nil {
		return nil
	}
	// exact capacity: a read or reslice beyond len must panic, not see spare bytes
	out := make([]byte, len(b))
	copy(out, b)
	return out
}

func errStr(err error) string {
	if err == nil {
		return ""
	}
	return err.Error()
}

// loadJSON reads a JSON file of the repository (test vectors).
func loadJSON(rel string, v any) error {
	b, err := os.ReadFile(filepath.Join(repoDir(), rel))
	if err != nil {
		return err
	}
	return json.Unmarshal(b, v)
}

func repoDir() string {
	if d := os.Getenv("VERIF_REPO"); d != "" {
		return d
	}
	return "/repo"
}

func must(err error) {
	if err != nil {
		panic(err)
	}
}

var _ = fmt.Sprintf

// SpecialStrings are byte strings with a meaning somewhere in the protocol stack (domain-separation tags, labels,
// RFC 8032 dom2 prefix, HPKE labels): as message, context, challenge or origin content they are ordinary bytes
// and must be treated as such.
var SpecialStrings = []string{
	"SigEd25519 no Ed25519 collisions", "SigEd25519 no Ed25519 collisions\x00\x00", "SigEd448", "ECDSA Key Blind", "ClientBlind", "IssuerBlind", "IssuerOriginAlias",
	"TokenRequest", "TokenResponse", "key", "nonce", "HPKE-v1", "OPRFV1-", "HashToGroup-OPRFV1-\x01-P384-SHA384", "Finalize", "DeriveKeyPair", "Seed-", "PrivateToken", "\x00", "\x00\x03ClientBlind",
}

// HostileNames are origin names (or any other peer-chosen text) that mean something to code which formats, logs,
// truncates or compares text: printf directives, invalid and truncated UTF-8, runs of continuation bytes, control
// characters, very repetitive content. As names they are ordinary bytes. None ends in a zero byte.
func HostileNames() []string {
	out := []string{
		"%s%s%s%s%s%s%n", "%d", "%v%+v%#v%T", "%!(EXTRA string=x)", "%[2]*d", "%*d", "%.99999d", "%999999[1]d", strings.Repeat("%999999[1]d", 100), strings.Repeat("%0999999d", 40),
		strings.Repeat("%x", 300), "100%", "%", "%%", "%\x00d", "{{.}}", "${jndi:ldap://x/a}", "$(reboot)", "`id`", "'; DROP TABLE origins;--",
		strings.Repeat("\xbf", 65), strings.Repeat("\xbf", 64), strings.Repeat("\x80", 200), strings.Repeat("\xff", 100), "\xc0\xaf", "\xed\xa0\x80", strings.Repeat("\xf0\x9f", 60),
		strings.Repeat("a", 63) + "\xe2\x82\xac", strings.Repeat("a", 62) + "\xf0\x9f\x98\x80", strings.Repeat("a", 64) + "\xbf\xbf\xbf", "\xe2\x82", "\xef\xbb\xbforigin.example",
		"origin.example\n", "origin.example\r\nX-Injected: 1", "\x1b[2J", "a\x00b", "\x00a", " origin.example", "origin.example ", "ORIGIN.EXAMPLE", "origin.example.", "origin\u3002example",
		"xn--origin-example", "origin.example:443", "https://origin.example/", "origin.example,other.example", ",", ",origin.example", "origin.example,",
	}
	for b := 1; b < 256; b++ {
		out = append(out, strings.Repeat(string([]byte{byte(b)}), 65+b%7))
	}
	return out
}

// LastByteNames returns names of 1, 31, 32, 33 and 64 bytes ending in every byte value but zero (the padding byte):
// the last byte of a name is the one an unpadding routine looks at.
func LastByteNames() []string {
	var out []string
	for b := 1; b < 256; b++ {
		for _, n := range []int{1, 31, 32, 33, 64} {
			name := []byte(strings.Repeat("n", n))
			name[n-1] = byte(b)
			if n >= 2 && b%2 == 0 {
				name[n-2] = 0 // and a zero byte right before it
			}
			out = append(out, string(name))
		}
	}
	return out
}

// freezeSelfAfter stops this whole worker process (SIGSTOP) after the given delay and has it continued (SIGCONT, sent
// by a helper shell) after the given duration: for everything inside the process, wall-clock time jumps while no work
// is done - what a starved or suspended process sees. Calls in flight at that moment must simply finish afterwards;
// code that gives up, or answers differently, because "too much time has passed" shows.
func freezeSelfAfter(delay, d time.Duration) (done chan struct{}) {
	done = make(chan struct{})
	go func() {
		defer close(done)
		time.Sleep(delay)
		cmd := exec.Command("/bin/sh", "-c", fmt.Sprintf("sleep %.2f; kill -CONT %d", d.Seconds(), os.Getpid()))
		if cmd.Start() != nil {
			return
		}
		syscall.Kill(os.Getpid(), syscall.SIGSTOP)
		cmd.Wait()
	}()
	return done
}
