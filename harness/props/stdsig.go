package props

import (
	stdecdsa "crypto/ecdsa"
	"crypto/elliptic"
	"io"
	"math/big"
)

// stdPriv builds a standard-library ECDSA key from a scalar.
func stdPriv(curve elliptic.Curve, d *big.Int) *stdecdsa.PrivateKey {
	dd := new(big.Int).Mod(d, curve.Params().N)
	x, y := curve.ScalarBaseMult(dd.Bytes())
	return &stdecdsa.PrivateKey{PublicKey: stdecdsa.PublicKey{Curve: curve, X: x, Y: y}, D: dd}
}

// stdECDSASign signs with crypto/ecdsa and returns fixed-width r||s.
func stdECDSASign(rnd io.Reader, curve elliptic.Curve, d *big.Int, digest []byte) []byte {
	r, s, err := stdecdsa.Sign(rnd, stdPriv(curve, d), digest)
	if err != nil {
		panic(err)
	}
	n := (curve.Params().BitSize + 7) / 8
	out := make([]byte, 2*n)
	r.FillBytes(out[:n])
	s.FillBytes(out[n:])
	return out
}

// stdECDSAVerify verifies with crypto/ecdsa.
func stdECDSAVerify(curve elliptic.Curve, x, y *big.Int, digest []byte, r, s *big.Int) bool {
	return stdecdsa.Verify(&stdecdsa.PublicKey{Curve: curve, X: x, Y: y}, digest, r, s)
}

// ecdsaSignWithTail returns a fixed-width r||s ECDSA signature by d over digest whose LAST bytes are tail: nonces
// k0, k0+1, ... are tried (one point addition each) until s or N-s ends that way. For a 2-byte tail that is some 2^15
// tries. The result is checked with crypto/ecdsa before it is returned; nil if no nonce within maxTries fits.
func ecdsaSignWithTail(curve elliptic.Curve, d *big.Int, digest, tail []byte, k0 *big.Int, maxTries int) []byte {
	p := curve.Params()
	N := p.N
	n := (p.BitSize + 7) / 8
	e := new(big.Int).SetBytes(digest)
	if excess := len(digest)*8 - N.BitLen(); excess > 0 {
		e.Rsh(e, uint(excess))
	}
	dd := new(big.Int).Mod(d, N)
	k := new(big.Int).Mod(k0, N)
	if k.Sign() == 0 {
		k.SetInt64(1)
	}
	x, y := curve.ScalarBaseMult(k.Bytes())
	one := big.NewInt(1)
	out := make([]byte, 2*n)
	for i := 0; i < maxTries; i++ {
		r := new(big.Int).Mod(x, N)
		if r.Sign() != 0 {
			s := new(big.Int).Mul(r, dd)
			s.Add(s, e)
			s.Mul(s, new(big.Int).ModInverse(k, N))
			s.Mod(s, N)
			for _, cand := range []*big.Int{s, new(big.Int).Sub(N, s)} {
				if cand.Sign() == 0 {
					continue
				}
				cand.FillBytes(out[n:])
				if string(out[2*n-len(tail):]) == string(tail) {
					r.FillBytes(out[:n])
					px, py := curve.ScalarBaseMult(dd.Bytes())
					if !stdECDSAVerify(curve, px, py, digest, r, cand) {
						panic("ecdsaSignWithTail: constructed signature does not verify")
					}
					return out
				}
			}
		}
		k.Add(k, one)
		if k.Cmp(N) >= 0 {
			k.SetInt64(1)
			x, y = curve.ScalarBaseMult(k.Bytes())
			continue
		}
		x, y = curve.Add(x, y, p.Gx, p.Gy)
	}
	return nil
}
