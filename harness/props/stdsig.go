package props

import (
	stdecdsa "crypto/ecdsa"
	"crypto/elliptic"
	"io"
	"math/big"
)

// stdPriv builds a standard-library ECDSA key from a scalar.
func stdPriv(curve elliptic.Curve, d *big.Int) *stdecdsa.PrivateKey {
	dd := new(big.Int).Mod(d, curve.Params().N)
	x, y := curve.ScalarBaseMult(dd.Bytes())
	return &stdecdsa.PrivateKey{PublicKey: stdecdsa.PublicKey{Curve: curve, X: x, Y: y}, D: dd}
}

// stdECDSASign signs with crypto/ecdsa and returns fixed-width r||s.
func stdECDSASign(rnd io.Reader, curve elliptic.Curve, d *big.Int, digest []byte) []byte {
	r, s, err := stdecdsa.Sign(rnd, stdPriv(curve, d), digest)
	if err != nil {
		panic(err)
	}
	n := (curve.Params().BitSize + 7) / 8
	out := make([]byte, 2*n)
	r.FillBytes(out[:n])
	s.FillBytes(out[n:])
	return out
}

// stdECDSAVerify verifies with crypto/ecdsa.
func stdECDSAVerify(curve elliptic.Curve, x, y *big.Int, digest []byte, r, s *big.Int) bool {
	return stdecdsa.Verify(&stdecdsa.PublicKey{Curve: curve, X: x, Y: y}, digest, r, s)
}
