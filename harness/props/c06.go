package props

import (
	"bytes"
	"crypto/elliptic"
	"encoding/hex"
	"fmt"
	"math/big"
	"reflect"

	"github.com/cloudflare/pat-go/tokens/type3"

	"verifharness/internal/core"
	"verifharness/internal/ref"
)

func init() {
	core.Register(&core.Prop{
		ID:    "C06",
		Level: "exploration",
		Rule: "RateLimitedAttester.VerifyRequest on honest requests (made by pat-go's client and by the harness's own signer), every single-bit flip of every field of one honest request per client (request key, name key id, ciphertext, signature, blind, client key: exhaustive; every fourth flip also on a request object decoded from the wire and marshalled before the tampering, so a stale encoding cache cannot stand in for the fields), signatures by unrelated keys, signatures of other requests, (r, N-s), r or s in {0, N}, wrong/shifted blinds, leading-zero blinds, wrong or malformed client and request keys. " +
			"Oracle: accept iff crypto/ecdsa.Verify(request key, SHA-384(type||request_key||name_key_id||len16||ciphertext), r, s) and request_key == compress(hash_to_field-blind(client key, blind, 0x0003||\"ClientBlind\")) computed by the reference; on reject: non-nil error, zero Put calls and every cached state snapshot unchanged; on accept: state is registered for this client only and no other client's snapshot changes. " +
			"distinct_nontrivial = distinct (case class, field, bit) keys",
		Floors:      []string{"foreign_request_key_signed_by_own_blinded_key", "oversized_structures_never_accepted", "accept_agree_with_a_cache_that_keeps_nothing", "accept_agree", "reject_agree", "reject_bad_signature", "reject_key_mismatch", "reject_malformed_key", "bitflips", "tampered_after_marshal", "tampered_after_original_accepted", "state_unchanged_on_reject", "state_registered_on_accept", "stream_accept_agree", "stream_reject_agree", "double_faults", "long_encrypted_requests"},
		Assumptions: []string{"request structs have the shapes the wire decoder produces (49/32/1..65535/96 bytes)", "crypto/ecdsa and crypto/elliptic of the Go standard library are the reference"},
		Run:         runC06,
	})
}

type c06Case struct {
	req       type3.RateLimitedTokenRequest
	blind     []byte
	clientKey []byte
	class     string
	// pre: an honest request the same attester has accepted just before (a long-lived attester that has
	// already seen the untampered original)
	pre *c06Case
}

// c06AcceptRef is the independent decision.
func c06AcceptRef(cs *c06Case) (bool, string) {
	curve := elliptic.P384()
	qx, qy, ok := ref.ECDecompress(curve, cs.req.RequestKey)
	if !ok {
		return false, "reject_malformed_key"
	}
	if len(cs.req.Signature) != 96 {
		return false, "reject_bad_signature"
	}
	r := new(big.Int).SetBytes(cs.req.Signature[:48])
	s := new(big.Int).SetBytes(cs.req.Signature[48:])
	msg := t3SignedMessage(cs.req.RequestKey, cs.req.NameKeyID, cs.req.EncryptedTokenRequest)
	if !stdECDSAVerify(curve, qx, qy, sha512Sum384(msg), r, s) {
		return false, "reject_bad_signature"
	}
	cx, cy, ok := ref.ECDecompress(curve, cs.clientKey)
	if !ok {
		return false, "reject_malformed_key"
	}
	bx, by := ref.ECDSABlindPublic(curve, cx, cy, new(big.Int).SetBytes(cs.blind), t3Ctx("ClientBlind"))
	if bx.Sign() == 0 && by.Sign() == 0 {
		return false, "reject_key_mismatch"
	}
	if hex.EncodeToString(ref.ECCompress(curve, bx, by)) != hex.EncodeToString(cs.req.RequestKey) {
		return false, "reject_key_mismatch"
	}
	return true, "accept"
}

type c06Pre struct {
	req       type3.RateLimitedTokenRequest
	blind     []byte
	clientKey []byte
	brk       []byte
}

// c06Stream is one long-lived attester that sees every case of this worker process, one after the other, with all
// arguments (request fields, blind, client key) handed over in buffers that are refilled in place.
type c06Stream struct {
	att                         *type3.RateLimitedAttester
	cache                       *memCache
	rk, nk, ct, sg, blind, ckey []byte
	n                           int
	prev                        string
}

func (w *c06World) streamCall(cs *c06Case, want bool, why string) {
	c := w.c
	if w.stream == nil {
		w.stream = &c06Stream{cache: newMemCache()}
		w.stream.att = type3.NewRateLimitedAttester(w.stream.cache)
	}
	st := w.stream
	fill := func(buf *[]byte, v []byte) []byte {
		if v == nil {
			return nil
		}
		*buf = append((*buf)[:0], v...)
		return *buf
	}
	req := type3.RateLimitedTokenRequest{RequestKey: fill(&st.rk, cs.req.RequestKey), NameKeyID: fill(&st.nk, cs.req.NameKeyID), EncryptedTokenRequest: fill(&st.ct, cs.req.EncryptedTokenRequest), Signature: fill(&st.sg, cs.req.Signature)}
	blind, ckey := fill(&st.blind, cs.blind), fill(&st.ckey, cs.clientKey)
	before := snapshotAll(st.cache)
	keysBefore := len(st.cache.m)
	c.Eval(1)
	var err error
	pan, pv, where := core.Guard(func() { err = st.att.VerifyRequest(req, blind, ckey, []byte("anon")) })
	d := map[string]any{"class": cs.class, "request_key": core.Hex(cs.req.RequestKey), "name_key_id": core.Hex(cs.req.NameKeyID), "ciphertext": core.Hex(cs.req.EncryptedTokenRequest),
		"signature": core.Hex(cs.req.Signature), "blind": core.Hex(cs.blind), "client_key": core.Hex(cs.clientKey), "reference": why, "stream_position": st.n, "previous_class": st.prev}
	st.n++
	defer func() { st.prev = cs.class }()
	if pan {
		c.Violation("VerifyRequest:stream:panic:"+where, "VerifyRequest panicked on a long-lived attester: "+pv, d)
		return
	}
	if got := err == nil; got != want {
		if got {
			c.Violation("VerifyRequest:stream:accepted-unauthentic:"+why, "a long-lived attester that had just handled the previous case (arguments in the same buffers) accepted a request the reference rejects ("+why+", "+cs.class+")", d)
		} else {
			c.Violation("VerifyRequest:stream:rejected-authentic", "a long-lived attester that had just handled the previous case (arguments in the same buffers) rejected an authentic request ("+cs.class+"): "+err.Error(), d)
		}
		return
	}
	if !want {
		if len(st.cache.m) != keysBefore || !reflect.DeepEqual(before, snapshotAll(st.cache)) {
			c.Violation("VerifyRequest:stream:state-changed-on-reject", "a rejected request created or altered client state in a long-lived attester's cache", d)
			return
		}
		c.Class("stream_reject_agree")
		return
	}
	c.Class("stream_accept_agree")
}

type c06World struct {
	stream *c06Stream
	c      *core.Ctx
	// pre-registered clients whose state must never change on a rejected call
	pre []c06Pre
}

func snapshotAll(cache *memCache) map[string][2]map[string]string {
	out := map[string][2]map[string]string{}
	for k, st := range cache.m {
		a, b := st.VerifSnapshot()
		out[k] = [2]map[string]string{a, b}
	}
	return out
}

func (w *c06World) call(cs *c06Case) {
	c := w.c
	c.Eval(1)
	c.Note("VerifyRequest " + cs.class)
	want, why := c06AcceptRef(cs)
	defer w.streamCall(cs, want, why)
	cache := newMemCache()
	att := type3.NewRateLimitedAttester(cache)
	// two known clients with bindings in place (registered through honest calls)
	w.preRegister(att, cache)
	if cs.pre != nil {
		if err := att.VerifyRequest(cs.pre.req, cs.pre.blind, cs.pre.clientKey, []byte("anon")); err != nil {
			c.Violation("VerifyRequest:rejected-authentic:pre-accepted-original", "the attester rejected the honest original: "+err.Error(), nil)
			return
		}
		cache.puts = nil
	}
	before := snapshotAll(cache)
	putsBefore := len(cache.puts)
	keysBefore := len(cache.m)
	var err error
	pan, pv, where := core.Guard(func() { err = att.VerifyRequest(cs.req, cs.blind, cs.clientKey, []byte("anon")) })
	d := map[string]any{"class": cs.class, "request_key": core.Hex(cs.req.RequestKey), "name_key_id": core.Hex(cs.req.NameKeyID), "ciphertext": core.Hex(cs.req.EncryptedTokenRequest),
		"signature": core.Hex(cs.req.Signature), "blind": core.Hex(cs.blind), "client_key": core.Hex(cs.clientKey), "reference": why}
	ck := classKey(cs.class)
	if pan {
		d["panic"] = pv
		c.Violation("VerifyRequest:panic:"+where, "VerifyRequest panicked: "+pv+" at "+where, d)
		return
	}
	got := err == nil
	if got != want {
		if got {
			c.Violation("VerifyRequest:accepted-unauthentic:"+why+":"+ck, "the attester accepted a request the reference rejects ("+why+", "+cs.class+")", d)
		} else {
			c.Violation("VerifyRequest:rejected-authentic:"+ck, "the attester rejected an authentic request ("+cs.class+"): "+err.Error(), d)
		}
		return
	}
	after := snapshotAll(cache)
	newPuts := cache.puts[putsBefore:]
	if !want {
		c.Class("reject_agree")
		c.Class(why)
		if len(newPuts) != 0 || len(cache.m) != keysBefore || !reflect.DeepEqual(before, after) {
			d["puts"] = newPuts
			c.Violation("VerifyRequest:state-changed-on-reject:"+ck, "a rejected request created or altered client state in the attester's cache", d)
			return
		}
		c.Class("state_unchanged_on_reject")
		return
	}
	c.Class("accept_agree")
	id := hex.EncodeToString(cs.clientKey)
	for _, pid := range newPuts {
		if pid != id {
			d["puts"] = newPuts
			c.Violation("VerifyRequest:wrong-state-registered", "an accepted request registered state for another client", d)
			return
		}
	}
	for k, v := range before {
		if !reflect.DeepEqual(v, after[k]) {
			c.Violation("VerifyRequest:other-state-changed", "an accepted request altered the state of an already known client", d)
			return
		}
	}
	if _, ok := cache.m[id]; !ok {
		c.Violation("VerifyRequest:no-state-after-accept", "an accepted request left no client state", d)
		return
	}
	c.Class("state_registered_on_accept")
	// the same authentic request before an attester whose cache keeps nothing (a bounded cache under pressure): the call
	// returns, with the same verdict
	var err2 error
	pan, pv, where = core.Guard(func() {
		err2 = type3.NewRateLimitedAttester(forgetfulCache{}).VerifyRequest(cs.req, cs.blind, cs.clientKey, []byte("anon"))
	})
	if pan {
		c.Violation("VerifyRequest:forgetful-cache:panic:"+where, "VerifyRequest panicked with a cache that keeps nothing: "+pv, d)
	} else if err2 != nil {
		c.Violation("VerifyRequest:forgetful-cache:rejected-authentic", "an authentic request is rejected by an attester whose cache keeps nothing: "+err2.Error(), d)
	} else {
		c.Class("accept_agree_with_a_cache_that_keeps_nothing")
	}
}

// forgetfulCache is a ClientStateCache that never has anything: every Put is dropped.
type forgetfulCache struct{}

func (forgetfulCache) Get(string) (*type3.ClientState, bool) { return nil, false }
func (forgetfulCache) Put(string, *type3.ClientState)        {}

// oversized builds request structures no decoder can produce (a field longer than its 16-bit length prefix allows)
// around an honest request and a signature that does not cover them. What the attester does with such a structure is
// not judged (the unchanged code fails inside the encoder), except for one thing: it is never ACCEPTED, and never
// leaves state behind.
func (w *c06World) oversized(h *c06Honest, r *core.Rand) {
	c := w.c
	for _, n := range []int{65536, 65537, 70000, 131072} {
		for _, sig := range [][]byte{r.Bytes(96), clone(h.sig), make([]byte, 96), {}} {
			cs := h.mk(fmt.Sprintf("oversized-ciphertext-%d", n))
			cs.req.EncryptedTokenRequest = r.Bytes(n)
			cs.req.Signature = sig
			cache := newMemCache()
			att := type3.NewRateLimitedAttester(cache)
			var err error
			c.Eval(1)
			pan, _, _ := core.Guard(func() { err = att.VerifyRequest(cs.req, cs.blind, cs.clientKey, []byte("anon")) })
			d := map[string]any{"class": cs.class, "ciphertext_len": n, "signature": core.Hex(sig)}
			if !pan && err == nil {
				c.Violation("VerifyRequest:accepted-unauthentic:oversized-structure", "the attester accepted a request structure with an oversized field and a signature that does not cover it", d)
				return
			}
			if len(cache.m) != 0 {
				c.Violation("VerifyRequest:state-changed-on-reject:oversized-structure", "a request structure that was not accepted left client state behind", d)
				return
			}
			c.Class("oversized_structures_never_accepted")
		}
	}
}

// preRegister puts two clients with one binding each into the cache through the public API.
func (w *c06World) preRegister(att *type3.RateLimitedAttester, cache *memCache) {
	for i, pre := range w.pre {
		if att.VerifyRequest(pre.req, pre.blind, pre.clientKey, []byte("anon")) != nil {
			panic("pre-registration failed")
		}
		if _, err := att.FinalizeIndex(pre.clientKey, pre.blind, pre.brk, []byte(fmt.Sprintf("anon-%d", i))); err != nil {
			panic("pre-registration FinalizeIndex failed: " + err.Error())
		}
	}
	cache.puts = nil
}

type c06Honest struct {
	signer    *t3Signer
	secret    []byte
	blind     []byte
	nameKeyID []byte
	ct        []byte
	sig       []byte
}

func (h *c06Honest) request() type3.RateLimitedTokenRequest {
	return type3.RateLimitedTokenRequest{RequestKey: clone(h.signer.RequestKeyEnc), NameKeyID: clone(h.nameKeyID), EncryptedTokenRequest: clone(h.ct), Signature: clone(h.sig)}
}

func (h *c06Honest) mk(class string) *c06Case {
	return &c06Case{req: h.request(), blind: clone(h.blind), clientKey: clone(h.signer.ClientKeyEnc), class: class}
}

// afterMarshal returns the case with its request carried by an object that was
// decoded from the honest wire bytes and marshalled before its fields were changed.
func (h *c06Honest) afterMarshal(cs *c06Case) *c06Case {
	obj := new(type3.RateLimitedTokenRequest)
	if !obj.Unmarshal(t3Request(h.signer.RequestKeyEnc, h.nameKeyID, h.ct, h.sig)) {
		panic("honest request does not decode")
	}
	obj.Marshal()
	obj.RequestKey, obj.NameKeyID, obj.EncryptedTokenRequest, obj.Signature = cs.req.RequestKey, cs.req.NameKeyID, cs.req.EncryptedTokenRequest, cs.req.Signature
	return &c06Case{req: *obj, blind: cs.blind, clientKey: cs.clientKey, class: cs.class + ":after-marshal"}
}

func c06MkHonest(r *core.Rand, secret, blind []byte, ctLen int) *c06Honest {
	h := &c06Honest{signer: newT3Signer(secret, blind), secret: secret, blind: blind, nameKeyID: r.Bytes(32), ct: r.Bytes(ctLen)}
	h.sig = h.signer.sign(r, t3SignedMessage(h.signer.RequestKeyEnc, h.nameKeyID, h.ct))
	return h
}

func runC06(c *core.Ctx) {
	w := &c06World{c: c}
	curve := elliptic.P384()
	N := curve.Params().N
	setup := c.Rng("setup")
	// pre-registered clients
	for i := 0; i < 2; i++ {
		h := c06MkHonest(setup, ScalarBytes(setup, N, 48), ScalarBytes(setup, N, 48), 100)
		px, py := ref.ECBaseMul(curve, big.NewInt(int64(7+i)))
		bx, by := ref.ECDSABlindPublic(curve, px, py, new(big.Int).SetBytes(h.blind), t3Ctx("ClientBlind"))
		w.pre = append(w.pre, c06Pre{req: h.request(), blind: h.blind, clientKey: h.signer.ClientKeyEnc, brk: ref.ECCompress(curve, bx, by)})
	}
	nClients := c.Pick(3, 6)
	secrets := make([][]byte, nClients)
	for i := range secrets {
		secrets[i] = ScalarBytes(setup, N, 48)
	}
	blinds := [][]byte{ScalarBytes(setup, N, 48), ScalarBytes(setup, N, 48), ScalarBytes(setup, N, 48)}
	blinds[1][0], blinds[1][1] = 0, 0 // leading zero bytes

	// 1. honest requests from the harness's own signer and from pat-go's client
	rk := RSAKeys()
	for ci := 0; ci < nClients; ci++ {
		for bi := range blinds {
			if c.Next() {
				r := c.CaseRng()
				h := c06MkHonest(r, secrets[ci], blinds[bi], 291)
				w.call(h.mk("honest-own-signer"))
				// same integer blind with extra leading zero bytes
				cs := h.mk("honest-blind-leading-zeros")
				cs.blind = append([]byte{0, 0, 0}, cs.blind...)
				w.call(cs)
				// (r, N-s) is the same signature up to ECDSA malleability: the reference decides
				cs = h.mk("sig-negated-s")
				sInt := new(big.Int).SetBytes(cs.req.Signature[48:])
				new(big.Int).Sub(N, sInt).FillBytes(cs.req.Signature[48:])
				w.call(cs)
				c.Distinctf("honest:own:%d:%d", ci, bi)
			}
			if c.Next() {
				r := c.CaseRng()
				issuer := type3.NewRateLimitedIssuer(rk[0])
				issuer.AddOrigin("origin.example")
				cl := type3.NewRateLimitedClientFromSecret(secrets[ci])
				st, err := cl.CreateTokenRequest(r.Bytes(20), r.Bytes(32), blinds[bi], issuer.TokenKeyID(), issuer.TokenKey(), "origin.example", issuer.NameKey())
				must(err)
				w.call(&c06Case{req: *st.Request(), blind: blinds[bi], clientKey: st.ClientKey(), class: "honest-pat-go-client"})
				c.Distinctf("honest:client:%d:%d", ci, bi)
				if ci == 0 && bi == 0 {
					c.Sample("honest request", map[string]any{"request": core.Hex(st.Request().Marshal()), "blind": core.Hex(blinds[bi]), "client_key": core.Hex(st.ClientKey())})
				}
			}
		}
	}
	// 2. exhaustive single-bit flips, one honest request per client
	for ci := 0; ci < nClients; ci++ {
		hr := c.IdxRng("flipbase", int64(ci))
		h := c06MkHonest(hr, secrets[ci], blinds[ci%len(blinds)], 291)
		if ci == 0 && c.Next() {
			w.oversized(h, hr)
		}
		fields := []struct {
			name string
			get  func(cs *c06Case) *[]byte
		}{
			{"request_key", func(cs *c06Case) *[]byte { return &cs.req.RequestKey }},
			{"name_key_id", func(cs *c06Case) *[]byte { return &cs.req.NameKeyID }},
			{"ciphertext", func(cs *c06Case) *[]byte { return &cs.req.EncryptedTokenRequest }},
			{"signature", func(cs *c06Case) *[]byte { return &cs.req.Signature }},
			{"blind", func(cs *c06Case) *[]byte { return &cs.blind }},
			{"client_key", func(cs *c06Case) *[]byte { return &cs.clientKey }},
		}
		for _, f := range fields {
			n := len(*f.get(h.mk(""))) * 8
			for lo := 0; lo < n; lo += 128 {
				if !c.Next() {
					continue
				}
				for bit := lo; bit < lo+128 && bit < n; bit++ {
					cs := h.mk(fmt.Sprintf("bitflip:%s#%d", f.name, bit))
					(*f.get(cs))[bit/8] ^= 1 << uint(bit%8)
					w.call(cs)
					c.Class("bitflips")
					if bit%4 == 2 {
						// the same tampering presented to an attester that has just accepted the untampered original
						cs2 := h.mk(fmt.Sprintf("bitflip:%s#%d:after-original-accepted", f.name, bit))
						(*f.get(cs2))[bit/8] ^= 1 << uint(bit%8)
						cs2.pre = h.mk("original")
						w.call(cs2)
						c.Class("tampered_after_original_accepted")
					}
					if bit%4 == 1 {
						// the same tampering on an object that was decoded from the wire and has
						// already been marshalled once (its encoding cache is populated with the honest bytes)
						w.call(h.afterMarshal(cs))
						c.Class("tampered_after_marshal")
					}
				}
				c.Distinctf("bitflip:%d:%s:%d", ci, f.name, lo)
			}
		}
	}
	c.Exhaustive("single-bit flips of every field of one honest request per client")
	// 2b. long encrypted requests, up to the largest a 16-bit length prefix can carry: the signature covers all of it
	for li, ctLen := range []int{600, 1023, 1024, 1025, 1100, 4096, 5000, 32767, 32768, 65450, 65451, 65500, 65534, 65535} {
		if !c.Next() {
			continue
		}
		r := c.CaseRng()
		h := c06MkHonest(r, secrets[li%nClients], blinds[li%len(blinds)], ctLen)
		w.call(h.mk(fmt.Sprintf("honest-long-ciphertext#%d", ctLen)))
		for _, pos := range []int{0, 84, 900, 1023, 1024, 1025, ctLen / 2, ctLen - 100, ctLen - 2, ctLen - 1} {
			if pos < 0 || pos >= ctLen {
				continue
			}
			cs := h.mk(fmt.Sprintf("long-ciphertext-bitflip#%d@%d", ctLen, pos))
			cs.req.EncryptedTokenRequest[pos] ^= 0x10
			w.call(cs)
		}
		c.Class("long_encrypted_requests")
		c.Distinctf("long-ct:%d", ctLen)
	}
	// 3. structured forgeries
	nrep := c.Pick(2, 60)
	for rep := 0; rep < nrep; rep++ {
		for ci := 0; ci < nClients; ci++ {
			if !c.Next() {
				continue
			}
			r := c.CaseRng()
			blind := ScalarBytes(r, N, 48)
			h := c06MkHonest(r, secrets[ci], blind, 1+r.IntN(400))
			other := c06MkHonest(r, ScalarBytes(r, N, 48), ScalarBytes(r, N, 48), len(h.ct))
			msg := t3SignedMessage(h.signer.RequestKeyEnc, h.nameKeyID, h.ct)
			// signature by an unrelated key over the same message
			cs := h.mk("sig-by-unrelated-key")
			cs.req.Signature = other.signer.sign(r, msg)
			w.call(cs)
			// honest signature of a different request under the same key
			h2 := c06MkHonest(r, secrets[ci], blind, len(h.ct))
			cs = h.mk("sig-of-other-request")
			cs.req.Signature = clone(h2.sig)
			w.call(cs)
			// degenerate r, s
			nb := make([]byte, 48)
			N.FillBytes(nb)
			for k, mod := range []func(sig []byte){
				func(sig []byte) { copy(sig[:48], make([]byte, 48)) },
				func(sig []byte) { copy(sig[48:], make([]byte, 48)) },
				func(sig []byte) { copy(sig[:48], nb) },
				func(sig []byte) { copy(sig[48:], nb) },
				func(sig []byte) { copy(sig, make([]byte, 96)) },
				func(sig []byte) { // r + N does not fit 48 bytes for P-384 unless r is tiny; use s = s + N truncated instead
					s := new(big.Int).SetBytes(sig[48:])
					s.Add(s, N)
					if s.BitLen() <= 384 {
						s.FillBytes(sig[48:])
					} else {
						sig[95] ^= 1
					}
				},
			} {
				cs = h.mk(fmt.Sprintf("sig-degenerate#%d", k))
				mod(cs.req.Signature)
				w.call(cs)
			}
			// blinds
			bInt := new(big.Int).SetBytes(blind)
			for k, b := range [][]byte{ScalarBytes(r, N, 48), new(big.Int).Add(bInt, big.NewInt(1)).FillBytes(make([]byte, 48)), new(big.Int).Sub(bInt, big.NewInt(1)).FillBytes(make([]byte, 48)),
				new(big.Int).Add(bInt, N).FillBytes(make([]byte, 49)), {}, nil, make([]byte, 48), blind[:47], append(clone(blind), 0),
				N.Bytes(), new(big.Int).Lsh(N, 1).Bytes(), make([]byte, 97), r.Bytes(97), r.Bytes(128), r.Bytes(1000), append(make([]byte, 60), blind...)} {
				cs = h.mk(fmt.Sprintf("wrong-blind#%d", k))
				cs.blind = b
				w.call(cs)
			}
			// client keys
			for k, ck := range hostileKeyEncodings(r, h.signer.ClientKeyEnc) {
				if len(ck) > 200 {
					continue
				}
				cs = h.mk(fmt.Sprintf("client-key#%d", k))
				cs.clientKey = ck
				w.call(cs)
			}
			cs = h.mk("client-key-of-other-client")
			cs.clientKey = clone(other.signer.ClientKeyEnc)
			w.call(cs)
			// the blinded key of another client, correctly signed by that client (wrong client key supplied)
			cs = other.mk("request-of-other-client")
			cs.clientKey = clone(h.signer.ClientKeyEnc)
			w.call(cs)
			// request keys of the decoder's shape with hostile content
			for k, qk := range hostileKeyEncodings(r, h.signer.RequestKeyEnc) {
				if len(qk) != 49 {
					continue
				}
				cs = h.mk(fmt.Sprintf("request-key#%d", k))
				cs.req.RequestKey = qk
				w.call(cs)
			}
			// request key replaced by another valid key and correctly re-signed by it: signature valid, binding to the client broken
			cs = h.mk("request-key-replaced-and-resigned")
			cs.req.RequestKey = clone(other.signer.RequestKeyEnc)
			cs.req.Signature = other.signer.sign(r, t3SignedMessage(other.signer.RequestKeyEnc, h.nameKeyID, h.ct))
			w.call(cs)
			// request key replaced by ANOTHER point (another client's request key, the generator, the client's own unblinded
			// key) and the whole request - that foreign key included - signed by this client's own blinded secret: the
			// signature verifies under blind x client key, which is not the key the request carries
			for k, foreign := range [][]byte{clone(other.signer.RequestKeyEnc), ref.ECCompress(curve, curve.Params().Gx, curve.Params().Gy), clone(h.signer.ClientKeyEnc), clone(other.signer.ClientKeyEnc)} {
				cs = h.mk(fmt.Sprintf("foreign-request-key-signed-by-own-key#%d", k))
				cs.req.RequestKey = foreign
				cs.req.Signature = h.signer.sign(r, t3SignedMessage(foreign, h.nameKeyID, h.ct))
				w.call(cs)
				c.Class("foreign_request_key_signed_by_own_blinded_key")
			}
			// two things wrong at once: whatever order the checks run in, the request is refused and nothing is registered
			{
				badSig := func(cs *c06Case) { cs.req.Signature = clone(cs.req.Signature); cs.req.Signature[95] ^= 1 }
				wrongBlind := func(cs *c06Case) { cs.blind = ScalarBytes(r, N, 48) }
				otherClient := func(cs *c06Case) { cs.clientKey = clone(other.signer.ClientKeyEnc) }
				malformedClient := func(cs *c06Case) { cs.clientKey = append([]byte{2}, bytes.Repeat([]byte{0xff}, 48)...) }
				hugeBlind := func(cs *c06Case) { cs.blind = r.Bytes(200) }
				badReqKey := func(cs *c06Case) { cs.req.RequestKey = append([]byte{3}, bytes.Repeat([]byte{0xff}, 48)...) }
				combos := map[string][]func(*c06Case){
					"bad-signature+wrong-blind": {badSig, wrongBlind}, "bad-signature+other-client-key": {badSig, otherClient}, "bad-signature+malformed-client-key": {badSig, malformedClient},
					"wrong-blind+other-client-key": {wrongBlind, otherClient}, "wrong-blind+malformed-client-key": {wrongBlind, malformedClient}, "huge-blind+bad-signature": {hugeBlind, badSig},
					"malformed-request-key+malformed-client-key": {badReqKey, malformedClient}, "malformed-request-key+wrong-blind": {badReqKey, wrongBlind},
				}
				for name, mods := range combos {
					cs = h.mk("double-fault:" + name)
					for _, f := range mods {
						f(cs)
					}
					w.call(cs)
					c.Class("double_faults")
				}
			}
			c.Distinctf("forgeries:%d:%d", rep, ci)
		}
	}
}
