package props

import (
	"bytes"
	"crypto/rsa"
	"fmt"
	"time"

	"github.com/cloudflare/circl/oprf"

	"github.com/cloudflare/pat-go/tokens"
	"github.com/cloudflare/pat-go/tokens/batched"
	"github.com/cloudflare/pat-go/tokens/type1"
	"github.com/cloudflare/pat-go/tokens/type2"
	"github.com/cloudflare/pat-go/tokens/type5"

	"verifharness/internal/core"
	"verifharness/internal/ref"
)

func init() {
	core.Register(&core.Prop{
		ID:    "C05",
		Level: "exploration",
		Rule: "batches of type-1/type-2 requests handed to the generic batch issuer after crossing the wire (client Marshal -> BatchedTokenRequest.Unmarshal) or, every third batch, handed over in memory (where malformed elements may also be shorter than an element, empty, nil or a short view into longer storage): every sequence of length 1..3 (quick) / 1..4 (thorough) over 8 request kinds " +
			"{type1 key A, type1 key A', type1 unknown key id, type1 malformed element (A), type1 malformed element (A'), type2 key B, type2 unknown key id, type2 malformed element} under 9 issuer configurations ({A}, {B}, {A,A',B}, two with an always-refusing issuer of the same type and truncated key id registered before / after the real one, none at all, the same issuer twice, another order), a sweep of the unknown-key-id kinds over every truncated key id no configured issuer carries, plus seeded sequences of length 5..40 and large batches of 63..128 requests (response lists around the 16384-byte varint boundary). " +
			"Oracle = executable model: entry i present iff some configured issuer has the request's type and last key-id byte and its own Evaluate of that request succeeds; the output decodes, has exactly n entries in order, present entries finalize under state i to a token valid under that issuer's key (circl FullEvaluate / rsa.VerifyPSS), absent ones are empty; the succeeding requests alone give an all-present batch. " +
			"distinct_nontrivial = distinct (configuration, kind sequence) batches containing at least one failing and one succeeding request",
		Floors:      []string{"batches_checked", "entries_present_valid", "entries_absent", "mixed_batches", "all_failing_batches", "all_succeeding_batches", "isolation_rechecked", "large_batches", "batches_handed_over_in_memory", "unknown_key_id_sweep", "colliding_working_issuers_first_configured_serves", "batch_evaluated_across_a_process_suspension", "batches_with_a_repeated_request", "runs_of_refused_requests_then_a_served_one"},
		Assumptions: []string{"configured issuers of one type have pairwise different last key-id bytes and unknown keys differ from all of them (truncated-id collisions are outside the statement)"},
		Run:         runC05,
	})
}

type c05Kind int

const (
	k1A c05Kind = iota
	k1Ap
	k1U
	k1Abad
	k1Apbad
	k2B
	k2U
	k2Bbad
	c05NKinds
)

var c05KindNames = []string{"t1:A", "t1:A'", "t1:unknown", "t1:A:malformed", "t1:A':malformed", "t2:B", "t2:unknown", "t2:B:malformed"}

type c05World struct {
	c           *core.Ctx
	kA, kAp, kU *oprf.PrivateKey
	rB, rU      *rsa.PrivateKey
	issA, issAp *type1.BasicPrivateIssuer
	issAcoll    *type1.BasicPrivateIssuer
	issB        *type2.BasicPublicIssuer
	configs     [][]batched.Issuer
	cfgNames    []string
	// forceID, when set, is the truncated key id the "unknown key id" kinds carry (sweep over every value)
	forceID *byte
	// freezeAtEvaluate: suspend the process for 2.6 s shortly after EvaluateBatch has started
	freezeAtEvaluate bool
}

// refusingIssuer answers for a type and key id but refuses every request
// (an issuer that is out of capacity, or whose key shares the truncated id).
type refusingIssuer struct {
	typ      uint16
	keyID    []byte
	leftover []byte
}

func (i refusingIssuer) Evaluate(req tokens.TokenRequest) ([]byte, error) {
	// a failing issuer may hand back whatever it had when it failed: only the error counts
	if i.leftover != nil {
		return i.leftover, fmt.Errorf("refused")
	}
	return nil, fmt.Errorf("refused")
}
func (i refusingIssuer) TokenKeyID() []byte { return i.keyID }
func (i refusingIssuer) Type() uint16       { return i.typ }

type c05Req struct {
	kind     c05Kind
	req      tokens.TokenRequestWithDetails
	typ      uint16
	finalize func([]byte) (tokens.Token, error)
	verify   func(tokens.Token) error
	nonce    []byte
	chal     []byte
	keyID    []byte
}

func lastByte(b []byte) byte { return b[len(b)-1] }

func (w *c05World) setup() {
	r := w.c.Rng("setup")
	w.kA = VOPRFKey(oprf.SuiteP384, r.Bytes(32))
	for {
		w.kAp = VOPRFKey(oprf.SuiteP384, r.Bytes(32))
		if lastByte(RefVOPRFKeyID(w.kAp)) != lastByte(RefVOPRFKeyID(w.kA)) {
			break
		}
	}
	for {
		w.kU = VOPRFKey(oprf.SuiteP384, r.Bytes(32))
		l := lastByte(RefVOPRFKeyID(w.kU))
		if l != lastByte(RefVOPRFKeyID(w.kA)) && l != lastByte(RefVOPRFKeyID(w.kAp)) {
			break
		}
	}
	rk := RSAKeys()
	w.rB = rk[0]
	idB := type2.NewBasicPublicIssuer(w.rB).TokenKeyID()
	for _, k := range rk[1:] {
		if lastByte(type2.NewBasicPublicIssuer(k).TokenKeyID()) != lastByte(idB) {
			w.rU = k
			break
		}
	}
	if w.rU == nil {
		panic("no RSA fixture with a different truncated key id")
	}
	w.issA, w.issAp = type1.NewBasicPrivateIssuer(w.kA), type1.NewBasicPrivateIssuer(w.kAp)
	w.issB = type2.NewBasicPublicIssuer(w.rB)
	w.configs = [][]batched.Issuer{
		{batchIssuer1{w.issA}},
		{batchIssuer2{w.issB}},
		{batchIssuer1{w.issA}, batchIssuer1{w.issAp}, batchIssuer2{w.issB}},
		// a refusing issuer with the same type and truncated key id in front of / behind the real one
		{refusingIssuer{1, w.issA.TokenKeyID(), nil}, batchIssuer1{w.issA}, refusingIssuer{2, w.issB.TokenKeyID(), nil}, batchIssuer2{w.issB}},
		{batchIssuer1{w.issA}, refusingIssuer{1, w.issA.TokenKeyID(), nil}, batchIssuer2{w.issB}, refusingIssuer{2, w.issB.TokenKeyID(), []byte{1, 2, 3}}, refusingIssuer{1, w.issAp.TokenKeyID(), bytes.Repeat([]byte{7}, 145)}},
	}
	w.configs = append(w.configs,
		[]batched.Issuer{}, // no issuer at all
		[]batched.Issuer{batchIssuer1{w.issA}, batchIssuer1{w.issA}},                        // the same issuer configured twice
		[]batched.Issuer{batchIssuer2{w.issB}, batchIssuer1{w.issAp}, batchIssuer1{w.issA}}, // types and keys in another order
	)
	// a second WORKING type-1 issuer whose key id ends in the same byte as A's, configured BEHIND A: requests made for A are
	// evaluated by A (the first configured issuer that answers for the id). Requests made for the second one are outside
	// the statement (both would evaluate them "successfully") and are not generated.
	for j := 0; ; j++ {
		kc := VOPRFKey(oprf.SuiteP384, append([]byte{byte(j), byte(j >> 8)}, r.Bytes(30)...))
		if lastByte(RefVOPRFKeyID(kc)) == lastByte(RefVOPRFKeyID(w.kA)) {
			w.issAcoll = type1.NewBasicPrivateIssuer(kc)
			break
		}
	}
	w.configs = append(w.configs, []batched.Issuer{batchIssuer1{w.issA}, batchIssuer1{w.issAcoll}, batchIssuer2{w.issB}, batchIssuer1{w.issAp}})
	w.cfgNames = []string{"{A}", "{B}", "{A,A',B}", "{refuse(A),A,refuse(B),B}", "{A,refuse(A),B,refuse(B),refuse(A')}", "{}", "{A,A}", "{B,A',A}", "{A,collides-with-A,B,A'}"}
}

func (w *c05World) mkReq(kind c05Kind, r *core.Rand, inMemory bool) *c05Req {
	chal, nonce := r.Bytes(r.IntN(40)), r.Bytes(32)
	q := &c05Req{kind: kind, nonce: nonce, chal: chal}
	switch kind {
	case k1A, k1Ap, k1U, k1Abad, k1Apbad:
		key := w.kA
		switch kind {
		case k1Ap, k1Apbad:
			key = w.kAp
		case k1U:
			key = w.kU
		}
		iss := type1.NewBasicPrivateIssuer(key)
		st, err := type1.NewBasicPrivateClient().CreateTokenRequest(chal, nonce, iss.TokenKeyID(), iss.TokenKey())
		must(err)
		req := st.Request()
		if kind == k1Abad || kind == k1Apbad {
			// a fresh object: the encoding cache of the honest one must not leak through
			bad := r.Bytes(49)
			variant := r.IntN(3)
			if inMemory {
				variant = r.IntN(7)
			}
			switch variant {
			case 3: // shorter than an element (cannot cross the wire, but a caller can hand it in)
				bad = r.Bytes(20)
			case 4:
				bad = []byte{}
			case 5:
				bad = nil
			case 6: // a short view into the honest element's storage
				bad = req.BlindedReq[:20]
			case 0:
				bad[0] = 0x05
			case 1:
				bad = bytes.Repeat([]byte{0xff}, 49)
			default:
				bad[0] = 0x02
				copy(bad[1:], bytes.Repeat([]byte{0xff}, 48)) // x >= p
			}
			req = &type1.BasicPrivateTokenRequest{TokenKeyID: req.TokenKeyID, BlindedReq: bad}
		}
		if kind == k1U && w.forceID != nil {
			req = &type1.BasicPrivateTokenRequest{TokenKeyID: *w.forceID, BlindedReq: clone(req.BlindedReq)}
		}
		q.req, q.typ, q.keyID = req, 1, iss.TokenKeyID()
		q.finalize = st.FinalizeToken
		kid := iss.TokenKeyID()
		q.verify = func(t tokens.Token) error {
			if !bytes.Equal(t.Authenticator, RefVOPRF(oprf.SuiteP384, key, ref.TokenBytes(1, nonce, chal, kid, nil))) {
				return fmt.Errorf("authenticator != VOPRF(key, input)")
			}
			return nil
		}
	default:
		key := w.rB
		if kind == k2U {
			key = w.rU
		}
		iss := type2.NewBasicPublicIssuer(key)
		st, err := type2.NewBasicPublicClient().CreateTokenRequest(chal, nonce, iss.TokenKeyID(), iss.TokenKey())
		must(err)
		req := st.Request()
		if kind == k2Bbad {
			bad := bytes.Repeat([]byte{0xff}, 256) // >= N
			if inMemory && r.Coin(2) {
				bad = r.Bytes(r.Of(0, 100, 255, 257))
			}
			req = &type2.BasicPublicTokenRequest{TokenKeyID: req.TokenKeyID, BlindedReq: bad}
		}
		if kind == k2U && w.forceID != nil {
			req = &type2.BasicPublicTokenRequest{TokenKeyID: *w.forceID, BlindedReq: clone(req.BlindedReq)}
		}
		q.req, q.typ, q.keyID = req, 2, iss.TokenKeyID()
		q.finalize = st.FinalizeToken
		kid := iss.TokenKeyID()
		q.verify = rsaTokVerifier(&key.PublicKey, 2, nonce, chal, kid)
	}
	return q
}

// expected runs the model: is entry i present under this configuration?
func c05Expected(cfg []batched.Issuer, q *c05Req, inMemory bool) bool {
	for _, is := range cfg {
		if is.Type() != q.typ {
			continue
		}
		id := is.TokenKeyID()
		if id[len(id)-1] != q.req.TruncatedTokenKeyID() {
			continue
		}
		// its own Evaluate, called separately on a fresh decode of the same request
		var fresh tokens.TokenRequest
		if inMemory {
			if pan, _, _ := core.Guard(func() {
				if _, err := is.Evaluate(q.req); err == nil {
					fresh = q.req
				}
			}); !pan && fresh != nil {
				return true
			}
			continue
		}
		if q.typ == 1 {
			o := new(type1.BasicPrivateTokenRequest)
			if !o.Unmarshal(q.req.Marshal()) {
				continue
			}
			fresh = o
		} else {
			o := new(type2.BasicPublicTokenRequest)
			if !o.Unmarshal(q.req.Marshal()) {
				continue
			}
			fresh = o
		}
		if _, err := is.Evaluate(fresh); err == nil {
			return true
		}
	}
	return false
}

func (w *c05World) runBatch(ci int, kinds []c05Kind, r *core.Rand, recheck bool, inMemory bool) {
	c := w.c
	cfg := w.configs[ci]
	reqs := make([]*c05Req, len(kinds))
	var list []tokens.TokenRequestWithDetails
	name := w.cfgNames[ci] + ":"
	for i, k := range kinds {
		reqs[i] = w.mkReq(k, r, inMemory)
		list = append(list, reqs[i].req)
		name += fmt.Sprintf("%d", int(k))
	}
	// one batch in four carries a request twice (the very same request, byte for byte: a client that retries inside a
	// batch): each copy has its own entry, decided like the original and finalizable under the same state
	if len(reqs) >= 2 && len(reqs) < 200 && r.IntN(4) == 0 {
		for n := 1 + r.IntN(2); n > 0; n-- {
			j := r.IntN(len(reqs))
			at := r.IntN(len(reqs) + 1)
			reqs = append(reqs[:at], append([]*c05Req{reqs[j]}, reqs[at:]...)...)
			kinds = append(kinds[:at:at], append([]c05Kind{reqs[at].kind}, kinds[at:]...)...)
		}
		list = list[:0]
		for _, q := range reqs {
			list = append(list, q.req)
		}
		name += "+dup"
		c.Class("batches_with_a_repeated_request")
	}
	c.Eval(1)
	c.Note("EvaluateBatch " + name)
	d := map[string]any{"configuration": w.cfgNames[ci], "kinds": kindNames(kinds)}
	bad := func(cls, what string) {
		c.Violation("batch:"+cls, "generic batch issuance: "+what, d)
	}
	pan, pv, where := core.Guard(func() {
		br, err := batched.NewBasicClient().CreateTokenRequest(list)
		if err != nil {
			bad("create-error", "CreateTokenRequest failed: "+err.Error())
			return
		}
		dec := br
		if inMemory {
			d["in_memory"] = true
			c.Class("batches_handed_over_in_memory")
		} else {
			wire := clone(br.Marshal())
			d["request"] = core.Hex(wire)
			dec = new(batched.BatchedTokenRequest)
			if !dec.Unmarshal(wire) {
				bad("request-undecodable", "the batch decoder rejected the client's batch")
				return
			}
		}
		var frozen chan struct{}
		if w.freezeAtEvaluate {
			frozen = freezeSelfAfter(25*time.Millisecond, 2600*time.Millisecond)
		}
		out, err := batched.NewBasicBatchedIssuer(cfg...).EvaluateBatch(dec)
		if frozen != nil {
			<-frozen
		}
		if err != nil {
			bad("evaluate-error", "EvaluateBatch returned an error: "+err.Error())
			return
		}
		d["response"] = core.Hex(out)
		entries, err := batched.UnmarshalBatchedTokenResponses(clone(out))
		if err != nil {
			bad("response-undecodable", "the response list of EvaluateBatch does not decode: "+err.Error())
			return
		}
		if len(entries) != len(kinds) {
			bad("entry-count", fmt.Sprintf("%d entries for %d requests", len(entries), len(kinds)))
			return
		}
		nPresent, nAbsent := 0, 0
		var okList []tokens.TokenRequestWithDetails
		var okIdx []int
		for i, q := range reqs {
			exp := c05Expected(cfg, q, inMemory)
			got := len(entries[i]) > 0
			d["index"], d["kind"] = i, c05KindNames[q.kind]
			if exp != got {
				if got {
					bad("present-but-expected-absent", fmt.Sprintf("entry %d is present although no configured issuer of that type and key id evaluates the request", i))
				} else {
					bad("absent-but-expected-present", fmt.Sprintf("entry %d is absent although a configured issuer evaluates the request successfully", i))
				}
				return
			}
			if !got {
				nAbsent++
				c.Class("entries_absent")
				continue
			}
			tok, err := q.finalize(clone(entries[i]))
			if err != nil {
				bad("present-not-finalizable", fmt.Sprintf("entry %d does not finalize under its own request's state: %v", i, err))
				return
			}
			if cls, _ := checkTokenLayout(tok, q.typ, q.nonce, q.chal, q.keyID, map[uint16]int{1: 48, 2: 256}[q.typ]); cls != "" {
				bad("present-wrong-token", fmt.Sprintf("entry %d finalizes to a token that does not belong to its request (%s)", i, cls))
				return
			}
			if err := q.verify(tok); err != nil {
				bad("present-invalid-token", fmt.Sprintf("entry %d finalizes to an invalid token: %v", i, err))
				return
			}
			nPresent++
			c.Class("entries_present_valid")
			okList = append(okList, q.req)
			okIdx = append(okIdx, i)
		}
		delete(d, "index")
		delete(d, "kind")
		c.Class("batches_checked")
		switch {
		case nPresent > 0 && nAbsent > 0:
			c.Class("mixed_batches")
			c.Distinct(name)
		case nPresent == 0:
			c.Class("all_failing_batches")
		default:
			c.Class("all_succeeding_batches")
		}
		// isolation: the succeeding requests alone
		if recheck && nPresent > 0 && nAbsent > 0 {
			br2, err := batched.NewBasicClient().CreateTokenRequest(okList)
			if err != nil {
				return
			}
			dec2 := new(batched.BatchedTokenRequest)
			if !dec2.Unmarshal(clone(br2.Marshal())) {
				bad("isolation:undecodable", "batch of the succeeding requests alone is rejected by the decoder")
				return
			}
			out2, err := batched.NewBasicBatchedIssuer(cfg...).EvaluateBatch(dec2)
			if err != nil {
				bad("isolation:evaluate-error", err.Error())
				return
			}
			e2, err := batched.UnmarshalBatchedTokenResponses(out2)
			if err != nil || len(e2) != len(okList) {
				bad("isolation:differs", "the succeeding requests alone give an undecodable or differently sized response list")
				return
			}
			for j := range e2 {
				if len(e2[j]) != len(entries[okIdx[j]]) {
					bad("isolation:differs", fmt.Sprintf("request %d gets a %d-byte entry next to failing requests and a %d-byte entry alone", okIdx[j], len(entries[okIdx[j]]), len(e2[j])))
					return
				}
			}
			c.Class("isolation_rechecked")
		}
	})
	if pan {
		d["panic"] = pv
		bad("panic:"+where, "panic: "+pv+" at "+where)
	}
}

func kindNames(ks []c05Kind) []string {
	var out []string
	for _, k := range ks {
		out = append(out, c05KindNames[k])
	}
	return out
}

func runC05(c *core.Ctx) {
	w := &c05World{c: c}
	w.setup()
	maxLen := c.Pick(3, 4)
	for ci := range w.configs {
		for l := 1; l <= maxLen; l++ {
			total := 1
			for i := 0; i < l; i++ {
				total *= int(c05NKinds)
			}
			for x := 0; x < total; x++ {
				if !c.Next() {
					continue
				}
				kinds := make([]c05Kind, l)
				y := x
				for i := 0; i < l; i++ {
					kinds[i] = c05Kind(y % int(c05NKinds))
					y /= int(c05NKinds)
				}
				w.runBatch(ci, kinds, c.CaseRng(), l <= 3, x%3 == 1)
				if x == total/2 {
					c.Sample("exhaustive batch", map[string]any{"configuration": w.cfgNames[ci], "kinds": kindNames(kinds)})
				}
			}
		}
	}
	c.Exhaustive(fmt.Sprintf("all request-kind sequences of length 1..%d over 8 kinds under 9 issuer configurations", maxLen))
	// a large batch during which the whole process is suspended for 2.6 s (wall-clock time jumps, no work is lost): every
	// entry is what the model says, as in any other batch
	if c.Next() {
		r := c.CaseRng()
		kinds := make([]c05Kind, 120)
		for j := range kinds {
			kinds[j] = []c05Kind{k2B, k1A, k2B, k1Ap}[j%4]
		}
		w.freezeAtEvaluate = true
		w.runBatch(2, kinds, r, false, false)
		w.freezeAtEvaluate = false
		c.Class("batch_evaluated_across_a_process_suspension")
	}
	// many batches under the configuration with two working issuers sharing a truncated key id (an order that depends on
	// map iteration, or "the last one wins", shows only in some of them)
	for rep := 0; rep < c.Pick(48, 600); rep++ {
		if !c.Next() {
			continue
		}
		w.runBatch(8, []c05Kind{k1A, k2B, k1A, k1Ap}, c.CaseRng(), false, rep%3 == 1)
		c.Class("colliding_working_issuers_first_configured_serves")
	}
	// the batch client given nothing, or a request of a type the generic batch does not carry: an error, or a batch the
	// decoder refuses - never a panic, never a batch that decodes with that request in it
	if c.Next() {
		r := c.CaseRng()
		k5 := VOPRFKey(oprf.SuiteRistretto255, r.Bytes(32))
		i5 := type5.NewBatchedPrivateIssuer(k5)
		s5, err := type5.NewBatchedPrivateClient().CreateTokenRequest(r.Bytes(8), [][]byte{r.Bytes(32)}, i5.TokenKeyID(), i5.TokenKey())
		must(err)
		good := w.mkReq(k1A, r, false)
		for name, list := range map[string][]tokens.TokenRequestWithDetails{"empty": {}, "nil": nil, "type5-request": {s5.Request()}, "type1-then-type5": {good.req, s5.Request()}} {
			c.Eval(1)
			var br *batched.BatchedTokenRequest
			var err error
			pan, pv, _ := core.Guard(func() { br, err = batched.NewBasicClient().CreateTokenRequest(list) })
			if pan {
				c.Violation("batch:client-panic", "the batch client panicked on "+name+": "+pv, nil)
				continue
			}
			if err == nil && br != nil && (name == "type5-request" || name == "type1-then-type5") {
				dec := new(batched.BatchedTokenRequest)
				if dec.Unmarshal(clone(br.Marshal())) {
					c.Violation("batch:foreign-type-carried", "the batch client built, and the batch decoder accepted, a batch that carries a request of a type the generic batch does not carry", map[string]any{"case": name})
					continue
				}
			}
			c.Class("batch_client_argument_errors")
		}
	}
	// every truncated key id no configured issuer carries (0x00 and 0xff included): such a request is absent, its
	// neighbours are served
	{
		used := map[byte]bool{lastByte(w.issA.TokenKeyID()): true, lastByte(w.issAp.TokenKeyID()): true, lastByte(w.issB.TokenKeyID()): true}
		for u := 0; u < 256; u++ {
			if used[byte(u)] || !c.Next() {
				continue
			}
			b := byte(u)
			w.forceID = &b
			w.runBatch(2, []c05Kind{k1A, k1U, k2B, k2U, k1Ap}, c.CaseRng(), false, u%3 == 1)
			// and the same inside a batch of 36 (large batches may take another path through the issuer)
			kinds := make([]c05Kind, 0, 36)
			for j := 0; j < 17; j++ {
				kinds = append(kinds, k1A, k1Ap)
			}
			kinds = append(kinds[:9:9], append([]c05Kind{k1U}, kinds[9:]...)...)
			kinds = append(kinds, k2U)
			w.runBatch(2, kinds, c.CaseRng(), false, u%3 == 2)
			w.forceID = nil
			c.Class("unknown_key_id_sweep")
		}
		// runs of k requests that one issuer refuses, followed by a request it serves: adjacent, and interleaved with
		// requests for another issuer
		for _, k := range []int{1, 2, 3, 7, 8, 9, 15, 16, 17, 31, 32, 33, 64} {
			if !c.Next() {
				continue
			}
			var adj, inter []c05Kind
			for _, pr := range [][2]c05Kind{{k1Abad, k1A}, {k2Bbad, k2B}, {k1Apbad, k1Ap}} {
				for j := 0; j < k; j++ {
					adj = append(adj, pr[0])
				}
				adj = append(adj, pr[1])
			}
			for j := 0; j < k; j++ {
				inter = append(inter, k1Abad, k1Ap)
			}
			inter = append(inter, k1A, k1Ap, k1A)
			w.runBatch(2, adj, c.CaseRng(), false, k%2 == 0)
			w.runBatch(2, inter, c.CaseRng(), false, k%2 == 1)
			c.Class("runs_of_refused_requests_then_a_served_one")
		}
		c.Exhaustive("every truncated key id that no configured issuer carries, for both token types")
	}
	// large batches: the response list crosses the 2-byte varint boundary (16384 bytes) at 64 type-2 entries
	for bi, size := range []int{63, 64, 65, 100, 127, 128} {
		if !c.Next() {
			continue
		}
		r := c.CaseRng()
		kinds := make([]c05Kind, size)
		for j := range kinds {
			kinds[j] = k2B
			if bi%2 == 1 && j%17 == 3 {
				kinds[j] = c05Kind(r.IntN(int(c05NKinds)))
			}
		}
		w.runBatch(2, kinds, r, false, false)
		c.Class("large_batches")
	}
	n := c.Pick(300, 12000)
	for i := 0; i < n; i++ {
		if !c.Next() {
			continue
		}
		r := c.CaseRng()
		l := 5 + r.IntN(36)
		if !c.Thorough() {
			l = 5 + r.IntN(12)
		}
		kinds := make([]c05Kind, l)
		for j := range kinds {
			kinds[j] = c05Kind(r.IntN(int(c05NKinds)))
		}
		w.runBatch(i%len(w.configs), kinds, r, i%4 == 0, i%3 == 1)
		if i < 2 {
			c.Sample("seeded batch", map[string]any{"configuration": w.cfgNames[i%len(w.configs)], "kinds": kindNames(kinds)})
		}
	}
}
