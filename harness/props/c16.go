package props

import (
	"bytes"
	"crypto/elliptic"
	"crypto/sha512"
	"encoding/base64"
	"encoding/hex"
	"encoding/pem"
	"fmt"
	"math/big"
	"strings"

	"github.com/cloudflare/circl/oprf"

	"github.com/cloudflare/pat-go/ecdsa"
	"github.com/cloudflare/pat-go/ed25519"
	"github.com/cloudflare/pat-go/quicwire"
	"github.com/cloudflare/pat-go/tokens"
	"github.com/cloudflare/pat-go/tokens/batched"
	"github.com/cloudflare/pat-go/tokens/type1"
	"github.com/cloudflare/pat-go/tokens/type2"
	"github.com/cloudflare/pat-go/tokens/type3"
	"github.com/cloudflare/pat-go/tokens/type5"
	"github.com/cloudflare/pat-go/util"

	"verifharness/internal/core"
)

func init() {
	core.Register(&core.Prop{
		ID:    "C16",
		Level: "exploration",
		Rule: "every exported operation that takes or returns byte slices (client create/finalize of types 1,2,3,5, issuer evaluate/verify, attester, generic batch, codecs, ecdsa and ed25519 incl. key blinding, quicwire, token-key codecs) called with each argument carved out of a canary-filled arena as arena[off:off+len:off+len+spare], spare in {0,1,7,64}, fill in {0x00,0xff,seeded}. " +
			"Oracle: (a) after the call the whole arena of every argument (data, spare capacity, canaries) is byte-identical to its snapshot; (b) for deterministic operations the result is identical under all three fills of the spare capacity; " +
			"(c) every value handed out earlier by an object (request encodings and fields, responses, tokens) is unchanged after every later call on the same object: all ordered pairs (and seeded triples) of operations from the per-type lists {Marshal, Finalize honest, Finalize with a second honest response, Finalize invalid, Evaluate, Evaluate again, Evaluate other, Verify, TokenKeyID}. " +
			"distinct_nontrivial = distinct (operation, spare, fill) and (type, op1, op2[, op3]) keys",
		Floors:      []string{"argument_arenas_checked", "spare_capacity_cases", "fill_independence_checked", "earlier_results_checked", "call_pairs", "ed25519_ops", "ecdsa_ops", "type1_ops", "type2_ops", "type3_ops", "type5_ops", "batched_ops", "codec_ops"},
		Assumptions: []string{"quicwire.Append* write into the destination's spare capacity by contract: only the prefix and the source are monitored there", "decoders may return sub-slices of their input (aliasing is not a write)"},
		Run:         runC16,
	})
}

const canaryLen = 24

// arg is one argument placed in its own arena.
type arg struct {
	name  string
	arena []byte
	snap  []byte
	off   int
	n     int
	spare int
}

func (a *arg) slice() []byte {
	if a.n == 0 && a.spare == 0 {
		return a.arena[a.off:a.off:a.off]
	}
	return a.arena[a.off : a.off+a.n : a.off+a.n+a.spare]
}

func placeArg(name string, data []byte, spare int, fill int, r *core.Rand) *arg {
	a := &arg{name: name, off: canaryLen, n: len(data), spare: spare}
	a.arena = make([]byte, canaryLen+len(data)+spare+canaryLen)
	for i := range a.arena {
		a.arena[i] = 0xA5 ^ byte(i*7)
	}
	copy(a.arena[a.off:], data)
	sp := a.arena[a.off+a.n : a.off+a.n+spare]
	switch fill {
	case 0:
		for i := range sp {
			sp[i] = 0
		}
	case 1:
		for i := range sp {
			sp[i] = 0xff
		}
	default:
		copy(sp, r.Bytes(spare))
	}
	a.snap = clone(a.arena)
	return a
}

func (a *arg) changed() (bool, string) {
	if bytes.Equal(a.arena, a.snap) {
		return false, ""
	}
	for i := range a.arena {
		if a.arena[i] != a.snap[i] {
			switch {
			case i < a.off:
				return true, fmt.Sprintf("byte %d before the slice", a.off-i)
			case i < a.off+a.n:
				return true, fmt.Sprintf("byte %d of the argument", i-a.off)
			case i < a.off+a.n+a.spare:
				return true, fmt.Sprintf("byte %d of the spare capacity behind the argument", i-a.off-a.n)
			default:
				return true, fmt.Sprintf("byte %d beyond the capacity", i-a.off-a.n-a.spare)
			}
		}
	}
	return true, "?"
}

var c16Spares = []int{0, 1, 7, 64}

// op is one monitored operation: inputs are the protected arguments, the
// function returns a deterministic result digest (nil for randomized operations).
type c16Op struct {
	name   string
	group  string
	inputs func(r *core.Rand) [][]byte
	names  []string
	call   func(args [][]byte) []byte
	// destPrefix: argument 0 is an append destination; bytes after len may be written
	destPrefix bool
}

func (m *c16) runOp(op *c16Op) {
	c := m.c
	r := c.CaseRng()
	base := op.inputs(r)
	var first []byte
	have := false
	for _, spare := range c16Spares {
		for fill := 0; fill < 3; fill++ {
			if spare == 0 && fill > 0 {
				continue
			}
			args := make([]*arg, len(base))
			in := make([][]byte, len(base))
			for i, b := range base {
				args[i] = placeArg(op.names[i], b, spare, fill, r)
				in[i] = args[i].slice()
			}
			c.Eval(1)
			c.Note(fmt.Sprintf("%s spare=%d fill=%d", op.name, spare, fill))
			var res []byte
			pan, pv, where := core.Guard(func() { res = op.call(in) })
			d := map[string]any{"operation": op.name, "spare_capacity": spare, "fill": fill}
			for i, b := range base {
				d["arg:"+op.names[i]] = core.Hex(b)
			}
			if pan {
				d["panic"] = pv
				c.Violation("panic:"+op.name+":"+where, op.name+" panicked: "+pv, d)
				return
			}
			for i, a := range args {
				if op.destPrefix && i == 0 {
					// an append destination: the prefix is protected, the appended bytes may land in the spare
					// capacity, and nothing behind the appended bytes (rest of the spare capacity, canaries) may change
					// (a multi-step append may fill part of the spare capacity and then reallocate: each spare byte
					// is either untouched or holds the byte that was appended at that position)
					appended := []byte{}
					if len(res) >= a.n {
						appended = res[a.n:]
					}
					bad := !bytes.Equal(a.arena[:a.off+a.n], a.snap[:a.off+a.n]) || !bytes.Equal(a.arena[a.off+a.n+a.spare:], a.snap[a.off+a.n+a.spare:])
					for k := 0; k < a.spare && !bad; k++ {
						pos := a.off + a.n + k
						if a.arena[pos] != a.snap[pos] && (k >= len(appended) || a.arena[pos] != appended[k]) {
							bad = true
						}
					}
					if bad {
						c.Violation("wrote:"+op.name+":"+a.name, op.name+" changed the destination prefix or memory other than the bytes it appended", d)
						return
					}
					continue
				}
				if ch, where := a.changed(); ch {
					d["changed"] = a.name + ": " + where
					d["before"], d["after"] = core.Hex(a.snap), core.Hex(a.arena)
					c.Violation("wrote:"+op.name+":"+a.name, fmt.Sprintf("%s wrote to memory it was not given to write (%s: %s)", op.name, a.name, where), d)
					return
				}
			}
			c.Class("argument_arenas_checked")
			if spare > 0 {
				c.Class("spare_capacity_cases")
			}
			if res != nil {
				if !have {
					first, have = res, true
				} else if !bytes.Equal(res, first) {
					c.Violation("result-depends-on-spare:"+op.name, op.name+" gives a different result when only the spare capacity behind its arguments differs", d)
					return
				} else {
					c.Class("fill_independence_checked")
				}
			}
			c.Distinctf("%s:s%d:f%d", op.name, spare, fill)
		}
	}
	c.Class(op.group + "_ops")
}

type c16 struct {
	c     *core.Ctx
	curve elliptic.Curve
}

func digestOf(parts ...[]byte) []byte {
	h := sha512.New()
	for _, p := range parts {
		h.Write([]byte{byte(len(p) >> 8), byte(len(p))})
		h.Write(p)
	}
	return h.Sum(nil)
}

func tokDigest(t tokens.Token) []byte { return t.Marshal() }

func (m *c16) ops() []*c16Op {
	curve := m.curve
	N := curve.Params().N
	setup := m.c.Rng("opsetup")
	rk := RSAKeys()
	k1 := VOPRFKey(oprf.SuiteP384, setup.Bytes(32))
	k5 := VOPRFKey(oprf.SuiteRistretto255, setup.Bytes(32))
	iss1 := type1.NewBasicPrivateIssuer(k1)
	iss2 := type2.NewBasicPublicIssuer(rk[0])
	iss5 := type5.NewBatchedPrivateIssuer(k5)
	iss3 := type3.NewRateLimitedIssuer(rk[1])
	iss3.AddOrigin("origin.example")
	edSeed := setup.Bytes(32)
	edPriv := ed25519.NewKeyFromSeed(edSeed)
	ecKey, _ := ecdsa.CreateKey(curve, ScalarBytes(setup, N, 48))
	ecBlind, _ := ecdsa.CreateKey(curve, ScalarBytes(setup, N, 48))
	secret := ScalarBytes(setup, N, 48)
	cl3 := type3.NewRateLimitedClientFromSecret(secret)

	var ops []*c16Op
	add := func(o *c16Op) { ops = append(ops, o) }

	// ---- ed25519
	add(&c16Op{name: "ed25519.BlindPublicKeyWithContext", group: "ed25519", names: []string{"publicKey", "blind", "context"},
		inputs: func(r *core.Rand) [][]byte { return [][]byte{clone(edPriv[32:]), r.Bytes(32), r.Bytes(r.Of(0, 3, 40))} },
		call: func(a [][]byte) []byte {
			out, err := ed25519.BlindPublicKeyWithContext(a[0], a[1], a[2])
			must(err)
			return out
		}})
	add(&c16Op{name: "ed25519.UnblindPublicKeyWithContext", group: "ed25519", names: []string{"publicKey", "blind", "context"},
		inputs: func(r *core.Rand) [][]byte { return [][]byte{clone(edPriv[32:]), r.Bytes(32), r.Bytes(r.Of(0, 3, 40))} },
		call: func(a [][]byte) []byte {
			out, err := ed25519.UnblindPublicKeyWithContext(a[0], a[1], a[2])
			must(err)
			return out
		}})
	add(&c16Op{name: "ed25519.BlindPublicKey", group: "ed25519", names: []string{"publicKey", "blind"},
		inputs: func(r *core.Rand) [][]byte { return [][]byte{clone(edPriv[32:]), r.Bytes(32)} },
		call: func(a [][]byte) []byte {
			out, err := ed25519.BlindPublicKey(a[0], a[1])
			must(err)
			u, err := ed25519.UnblindPublicKey(out, a[1])
			must(err)
			return append(out, u...)
		}})
	add(&c16Op{name: "ed25519.BlindKeySignWithContext", group: "ed25519", names: []string{"privateKey", "message", "blind", "context"},
		inputs: func(r *core.Rand) [][]byte {
			return [][]byte{clone(edPriv), r.Bytes(r.IntN(80)), r.Bytes(32), r.Bytes(r.Of(0, 3, 40))}
		},
		call: func(a [][]byte) []byte { return ed25519.BlindKeySignWithContext(a[0], a[1], a[2], a[3]) }})
	add(&c16Op{name: "ed25519.BlindKeySign", group: "ed25519", names: []string{"privateKey", "message", "blind"},
		inputs: func(r *core.Rand) [][]byte { return [][]byte{clone(edPriv), r.Bytes(r.IntN(80)), r.Bytes(32)} },
		call:   func(a [][]byte) []byte { return ed25519.BlindKeySign(a[0], a[1], a[2]) }})
	add(&c16Op{name: "ed25519.Sign+Verify", group: "ed25519", names: []string{"privateKey", "message"},
		inputs: func(r *core.Rand) [][]byte { return [][]byte{clone(edPriv), r.Bytes(r.IntN(80))} },
		call: func(a [][]byte) []byte {
			sig := ed25519.Sign(a[0], a[1])
			if !ed25519.Verify(a[0][32:], a[1], sig) {
				panic("verify failed")
			}
			return sig
		}})
	add(&c16Op{name: "ed25519.Verify", group: "ed25519", names: []string{"publicKey", "message", "signature"},
		inputs: func(r *core.Rand) [][]byte {
			msg := r.Bytes(20)
			return [][]byte{clone(edPriv[32:]), msg, ed25519.Sign(edPriv, msg)}
		},
		call: func(a [][]byte) []byte {
			if ed25519.Verify(a[0], a[1], a[2]) {
				return []byte{1}
			}
			return []byte{0}
		}})
	add(&c16Op{name: "ed25519.NewKeyFromSeed", group: "ed25519", names: []string{"seed"},
		inputs: func(r *core.Rand) [][]byte { return [][]byte{r.Bytes(32)} },
		call:   func(a [][]byte) []byte { return ed25519.NewKeyFromSeed(a[0]) }})

	// ---- ecdsa
	add(&c16Op{name: "ecdsa.CreateKey+BlindPublicKeyWithContext", group: "ecdsa", names: []string{"blindKeyBytes", "context"},
		inputs: func(r *core.Rand) [][]byte { return [][]byte{ScalarBytes(r, N, 48), r.Bytes(r.Of(0, 13, 60))} },
		call: func(a [][]byte) []byte {
			bk, err := ecdsa.CreateKey(curve, a[0])
			must(err)
			p, err := ecdsa.BlindPublicKeyWithContext(curve, &ecKey.PublicKey, bk, a[1])
			must(err)
			u, err := ecdsa.UnblindPublicKeyWithContext(curve, p, bk, a[1])
			must(err)
			return append(elliptic.MarshalCompressed(curve, p.X, p.Y), elliptic.MarshalCompressed(curve, u.X, u.Y)...)
		}})
	add(&c16Op{name: "ecdsa.BlindKeySignWithContext", group: "ecdsa", names: []string{"digest", "context"},
		inputs: func(r *core.Rand) [][]byte { return [][]byte{r.Bytes(r.Of(0, 20, 48, 64)), r.Bytes(r.Of(0, 13, 60))} },
		call: func(a [][]byte) []byte {
			rr, ss, err := ecdsa.BlindKeySignWithContext(setupReader(), ecKey, ecBlind, a[0], a[1])
			must(err)
			bp, _ := ecdsa.BlindPublicKeyWithContext(curve, &ecKey.PublicKey, ecBlind, a[1])
			if !ecdsa.Verify(bp, a[0], rr, ss) {
				panic("verify failed")
			}
			return nil
		}})
	add(&c16Op{name: "ecdsa.Sign+VerifyASN1", group: "ecdsa", names: []string{"digest"},
		inputs: func(r *core.Rand) [][]byte { return [][]byte{r.Bytes(r.Of(0, 20, 48, 64, 49, 128))} },
		call: func(a [][]byte) []byte {
			sig, err := ecdsa.SignASN1(setupReader(), ecKey, a[0])
			must(err)
			if !ecdsa.VerifyASN1(&ecKey.PublicKey, a[0], sig) {
				panic("verify failed")
			}
			return nil
		}})
	add(&c16Op{name: "ecdsa.VerifyASN1", group: "ecdsa", names: []string{"digest", "signature"},
		inputs: func(r *core.Rand) [][]byte {
			dg := r.Bytes(48)
			sig, err := ecdsa.SignASN1(r, ecKey, dg)
			must(err)
			return [][]byte{dg, sig}
		},
		call: func(a [][]byte) []byte {
			if ecdsa.VerifyASN1(&ecKey.PublicKey, a[0], a[1]) {
				return []byte{1}
			}
			return []byte{0}
		}})

	// error values are handed out too: the error one call returned reads the same after a later failing call
	add(&c16Op{name: "ecdsa errors for unsupported curves", group: "ecdsa", names: []string{"context"},
		inputs: func(r *core.Rand) [][]byte { return [][]byte{r.Bytes(r.Of(0, 13, 60))} },
		call: func(a [][]byte) []byte {
			var errs []error
			var texts []string
			for _, nm := range []string{"P-256-copy", "another-curve", "P-384 ", ""} {
				cp := *elliptic.P256().Params()
				cp.Name = nm
				_, err := ecdsa.BlindPublicKeyWithContext(&cp, &ecKey.PublicKey, ecBlind, a[0])
				if err == nil {
					panic("key blinding on a curve without a suite returned no error")
				}
				_, err2 := ecdsa.UnblindPublicKeyWithContext(&cp, &ecKey.PublicKey, ecBlind, a[0])
				if err2 == nil {
					panic("key unblinding on a curve without a suite returned no error")
				}
				errs, texts = append(errs, err, err2), append(texts, err.Error(), err2.Error())
			}
			for i := range errs {
				if errs[i].Error() != texts[i] {
					panic(fmt.Sprintf("an error returned earlier now reads %q; it read %q when it was returned", errs[i].Error(), texts[i]))
				}
			}
			return nil
		}})

	// big-integer arguments: r and s handed to Verify are the caller's objects
	add(&c16Op{name: "ecdsa.Verify(r, s *big.Int)", group: "ecdsa", names: []string{"digest"},
		// digests shorter than, as long as and longer than every curve's order (a P-521 order is 66 bytes less 7 bits)
		inputs: func(r *core.Rand) [][]byte { return [][]byte{r.Bytes(r.Of(48, 66, 67, 128, 28, 65, 32, 200))} },
		call: func(a [][]byte) []byte {
			for _, cv := range []elliptic.Curve{elliptic.P224(), elliptic.P256(), elliptic.P384(), elliptic.P521()} {
				k, err := ecdsa.GenerateKey(cv, setupReader())
				must(err)
				rr, ss, err := ecdsa.Sign(setupReader(), k, a[0])
				must(err)
				r0, s0 := new(big.Int).Set(rr), new(big.Int).Set(ss)
				px, py, d0 := new(big.Int).Set(k.X), new(big.Int).Set(k.Y), new(big.Int).Set(k.D)
				if !ecdsa.Verify(&k.PublicKey, a[0], rr, ss) {
					panic("verify failed")
				}
				if rr.Cmp(r0) != 0 || ss.Cmp(s0) != 0 {
					panic("ecdsa.Verify changed the caller's r or s")
				}
				if k.X.Cmp(px) != 0 || k.Y.Cmp(py) != 0 || k.D.Cmp(d0) != 0 {
					panic("ecdsa.Sign/Verify changed the caller's key")
				}
			}
			return nil
		}})

	// key objects whose scalar is not reduced (CreateKey accepts any byte string: all-ones, N, N+1, 2N+5): signing, blinded
	// signing, blinding and unblinding leave the caller's key and blind-key objects exactly as they were
	add(&c16Op{name: "ecdsa key objects with D >= N", group: "ecdsa", names: []string{"digest"},
		inputs: func(r *core.Rand) [][]byte { return [][]byte{r.Bytes(32)} },
		call: func(a [][]byte) []byte {
			for _, cv := range []elliptic.Curve{elliptic.P224(), elliptic.P256(), elliptic.P384(), elliptic.P521()} {
				N := cv.Params().N
				w := (N.BitLen() + 7) / 8
				for _, db := range [][]byte{bytes.Repeat([]byte{0xff}, w), N.Bytes(), new(big.Int).Add(N, big.NewInt(1)).Bytes(), new(big.Int).Add(new(big.Int).Lsh(N, 1), big.NewInt(5)).Bytes(), bytes.Repeat([]byte{0xff}, w+3)} {
					k, err := ecdsa.CreateKey(cv, db)
					must(err)
					bk, err := ecdsa.CreateKey(cv, db)
					must(err)
					snap := func(p *ecdsa.PrivateKey) [3]*big.Int {
						return [3]*big.Int{new(big.Int).Set(p.D), new(big.Int).Set(p.X), new(big.Int).Set(p.Y)}
					}
					same := func(p *ecdsa.PrivateKey, q [3]*big.Int) bool {
						return p.D.Cmp(q[0]) == 0 && p.X.Cmp(q[1]) == 0 && p.Y.Cmp(q[2]) == 0
					}
					k0, b0 := snap(k), snap(bk)
					if new(big.Int).Mod(k.D, N).Sign() != 0 {
						if _, _, err := ecdsa.Sign(setupReader(), k, a[0]); err != nil {
							panic("Sign failed: " + err.Error())
						}
						if !same(k, k0) {
							panic("ecdsa.Sign changed the caller's key object (D >= N)")
						}
						if _, err := ecdsa.SignASN1(setupReader(), k, a[0]); err != nil || !same(k, k0) {
							panic("ecdsa.SignASN1 changed the caller's key object (D >= N)")
						}
					}
					pk := &ecdsa.PublicKey{Curve: cv, X: new(big.Int).Set(cv.Params().Gx), Y: new(big.Int).Set(cv.Params().Gy)}
					if bp, err := ecdsa.BlindPublicKeyWithContext(cv, pk, bk, []byte("ctx")); err == nil {
						ecdsa.UnblindPublicKeyWithContext(cv, bp, bk, []byte("ctx"))
					}
					if !same(bk, b0) || pk.X.Cmp(cv.Params().Gx) != 0 || pk.Y.Cmp(cv.Params().Gy) != 0 {
						panic("Blind/UnblindPublicKeyWithContext changed the caller's blind-key or public-key object")
					}
					sk, err := ecdsa.GenerateKey(cv, setupReader())
					must(err)
					s0 := snap(sk)
					ecdsa.BlindKeySignWithContext(setupReader(), sk, bk, a[0], []byte("ctx"))
					if !same(bk, b0) || !same(sk, s0) {
						panic("BlindKeySignWithContext changed the caller's key or blind-key object (blind key >= N)")
					}
				}
			}
			return nil
		}})

	// ---- quicwire
	add(&c16Op{name: "quicwire.AppendVarintBytes", group: "codec", names: []string{"destination", "value"}, destPrefix: true,
		inputs: func(r *core.Rand) [][]byte { return [][]byte{r.Bytes(r.IntN(6)), r.Bytes(r.Of(0, 5, 70, 300))} },
		call:   func(a [][]byte) []byte { return clone(quicwire.AppendVarintBytes(a[0], a[1])) }})
	add(&c16Op{name: "quicwire.AppendUint8Bytes", group: "codec", names: []string{"destination", "value"}, destPrefix: true,
		inputs: func(r *core.Rand) [][]byte { return [][]byte{r.Bytes(r.IntN(6)), r.Bytes(r.Of(0, 5, 70, 255))} },
		call:   func(a [][]byte) []byte { return clone(quicwire.AppendUint8Bytes(a[0], a[1])) }})
	add(&c16Op{name: "quicwire.AppendVarint", group: "codec", names: []string{"destination"}, destPrefix: true,
		inputs: func(r *core.Rand) [][]byte { return [][]byte{r.Bytes(r.IntN(6))} },
		call: func(a [][]byte) []byte {
			return clone(quicwire.AppendVarint(a[0], []uint64{5, 300, 16384, 1 << 40, 63, 64}[len(a[0])%6]))
		}})
	add(&c16Op{name: "quicwire.Consume*", group: "codec", names: []string{"input"},
		inputs: func(r *core.Rand) [][]byte { return [][]byte{quicwire.AppendVarintBytes(nil, r.Bytes(r.Of(3, 70)))} },
		call: func(a [][]byte) []byte {
			v, n := quicwire.ConsumeVarint(a[0])
			b, n2 := quicwire.ConsumeVarintBytes(a[0])
			b8, n3 := quicwire.ConsumeUint8Bytes(a[0])
			return digestOf([]byte(fmt.Sprint(v, n, n2, n3)), b, b8)
		}})

	// ---- codecs
	add(&c16Op{name: "tokens.UnmarshalTokenChallenge", group: "codec", names: []string{"data"},
		inputs: func(r *core.Rand) [][]byte {
			return [][]byte{tokens.TokenChallenge{TokenType: 2, IssuerName: "issuer.example", RedemptionNonce: r.Bytes(32), OriginInfo: []string{"a.example", "b.example"}}.Marshal()}
		},
		call: func(a [][]byte) []byte {
			v, err := tokens.UnmarshalTokenChallenge(a[0])
			must(err)
			return v.Marshal()
		}})
	add(&c16Op{name: "util.UnmarshalTokenKey", group: "codec", names: []string{"data"},
		inputs: func(r *core.Rand) [][]byte {
			b, _ := util.MarshalTokenKey(&rk[r.IntN(len(rk))].PublicKey, r.Coin(2))
			return [][]byte{b}
		},
		call: func(a [][]byte) []byte {
			k, err := util.UnmarshalTokenKey(a[0])
			must(err)
			return k.N.Bytes()
		}})
	add(&c16Op{name: "util.UnmarshalTokenKey(hostile DER)", group: "codec", names: []string{"data"},
		inputs: func(r *core.Rand) [][]byte {
			// the well-framed hostile encodings one after the other (a counter, so that every one of them is used)
			pa, ra := spkiAlgs()
			all := rebuildTokenKeyDER(r, rk[0].N, rk[0].E, pa, ra)
			// and the textual spellings under which token keys travel in issuer directories and configuration files: not
			// DER, but a decoder that is lenient about them still may not write into its argument
			for _, legacy := range []bool{false, true} {
				der, _ := util.MarshalTokenKey(&rk[0].PublicKey, legacy)
				all = append(all, tokenKeyTextForms(der)...)
			}
			hostileDERCount = len(all)
			return [][]byte{all[hostileDERIndex%len(all)]}
		},
		call: func(a [][]byte) []byte {
			k, err := util.UnmarshalTokenKey(a[0])
			if err != nil {
				return []byte("rejected")
			}
			return append([]byte("accepted:"), k.N.Bytes()...)
		}})
	add(&c16Op{name: "type3.UnmarshalEncapKey", group: "codec", names: []string{"data"},
		inputs: func(r *core.Rand) [][]byte { return [][]byte{iss3.NameKey().Marshal()} },
		call: func(a [][]byte) []byte {
			k, err := type3.UnmarshalEncapKey(a[0])
			must(err)
			return k.Marshal()
		}})
	add(&c16Op{name: "type5.TokenRequest.Unmarshal", group: "codec", names: []string{"data"},
		inputs: func(r *core.Rand) [][]byte {
			return [][]byte{encReq5(3, [][]byte{r.Bytes(32), r.Bytes(32), r.Bytes(32)})}
		},
		call: func(a [][]byte) []byte {
			q := new(type5.BatchedPrivateTokenRequest)
			if !q.Unmarshal(a[0]) {
				panic("rejected")
			}
			return q.Marshal()
		}})
	add(&c16Op{name: "batched.TokenRequest.Unmarshal", group: "batched", names: []string{"data"},
		inputs: func(r *core.Rand) [][]byte {
			return [][]byte{encBatch([]refReq{{1, 1, r.Bytes(49)}, {2, 2, r.Bytes(256)}, {1, 3, r.Bytes(49)}})}
		},
		call: func(a [][]byte) []byte {
			q := new(batched.BatchedTokenRequest)
			if !q.Unmarshal(a[0]) {
				panic("rejected")
			}
			return q.Marshal()
		}})
	add(&c16Op{name: "batched.UnmarshalBatchedTokenResponses", group: "batched", names: []string{"data"},
		inputs: func(r *core.Rand) [][]byte {
			return [][]byte{encRespList([]refEntry{{true, 1, r.Bytes(145)}, {}, {true, 2, r.Bytes(256)}})}
		},
		call: func(a [][]byte) []byte {
			es, err := batched.UnmarshalBatchedTokenResponses(a[0])
			must(err)
			return digestOf(es...)
		}})

	// ---- decoders on inputs that stop short: the missing bytes must not be taken from the spare capacity
	truncOp := func(name string, gen func(r *core.Rand) []byte, dec func(b []byte) []byte) {
		for _, cut := range []int{1, 7} {
			cut := cut
			add(&c16Op{name: fmt.Sprintf("%s(input %d bytes short)", name, cut), group: "codec", names: []string{"data"},
				inputs: func(r *core.Rand) [][]byte { b := gen(r); return [][]byte{b[:len(b)-cut]} },
				call:   func(a [][]byte) []byte { return dec(a[0]) }})
		}
	}
	verdict := func(ok bool, enc []byte) []byte {
		if !ok {
			return []byte("rejected")
		}
		return append([]byte("accepted:"), enc...)
	}
	truncOp("batched.TokenRequest.Unmarshal", func(r *core.Rand) []byte {
		return encBatch([]refReq{{1, 1, r.Bytes(49)}, {2, 2, r.Bytes(256)}, {1, 3, r.Bytes(49)}})
	}, func(b []byte) []byte {
		q := new(batched.BatchedTokenRequest)
		ok := q.Unmarshal(b)
		return verdict(ok, q.Marshal())
	})
	truncOp("batched.UnmarshalBatchedTokenResponses", func(r *core.Rand) []byte {
		return encRespList([]refEntry{{true, 1, r.Bytes(145)}, {}, {true, 2, r.Bytes(256)}})
	}, func(b []byte) []byte {
		es, err := batched.UnmarshalBatchedTokenResponses(b)
		return verdict(err == nil, digestOf(es...))
	})
	for _, rc := range reqCodecs() {
		rc := rc
		truncOp(rc.name+".Unmarshal", func(r *core.Rand) []byte { return rc.gen(r, 3) }, func(b []byte) []byte {
			o, _ := rc.mk()
			ok := o.Unmarshal(b)
			return verdict(ok, o.Marshal())
		})
	}
	for _, tc := range tokenCodecs {
		tc := tc
		truncOp(tc.name+".UnmarshalToken", func(r *core.Rand) []byte { return r.Bytes(98 + tc.nk) }, func(b []byte) []byte {
			t, err := tc.dec(b)
			return verdict(err == nil, t.Marshal())
		})
	}
	truncOp("tokens.UnmarshalTokenChallenge", func(r *core.Rand) []byte {
		return tokens.TokenChallenge{TokenType: 2, IssuerName: "issuer.example", RedemptionNonce: r.Bytes(32), OriginInfo: []string{"origin.example"}}.Marshal()
	}, func(b []byte) []byte {
		v, err := tokens.UnmarshalTokenChallenge(b)
		return verdict(err == nil, v.Marshal())
	})
	truncOp("type3.UnmarshalEncapKey", func(r *core.Rand) []byte { return iss3.NameKey().Marshal() }, func(b []byte) []byte {
		k, err := type3.UnmarshalEncapKey(b)
		if err != nil {
			return verdict(false, nil)
		}
		return verdict(true, k.Marshal())
	})
	truncOp("util.UnmarshalTokenKey", func(r *core.Rand) []byte { b, _ := util.MarshalTokenKey(&rk[0].PublicKey, false); return b }, func(b []byte) []byte {
		k, err := util.UnmarshalTokenKey(b)
		if err != nil {
			return verdict(false, nil)
		}
		return verdict(true, k.N.Bytes())
	})
	truncOp("type1.FinalizeToken", func(r *core.Rand) []byte {
		st, _ := type1.NewBasicPrivateClient().CreateTokenRequestWithBlind([]byte("c"), make([]byte, 32), iss1.TokenKeyID(), iss1.TokenKey(), c01EdgeScalar(core.NewRand(1, "x"), 1, oprfGroup(oprf.SuiteP384)))
		resp, err := iss1.Evaluate(st.Request())
		must(err)
		return resp
	}, func(b []byte) []byte {
		st, _ := type1.NewBasicPrivateClient().CreateTokenRequestWithBlind([]byte("c"), make([]byte, 32), iss1.TokenKeyID(), iss1.TokenKey(), c01EdgeScalar(core.NewRand(1, "x"), 1, oprfGroup(oprf.SuiteP384)))
		t, err := st.FinalizeToken(b)
		return verdict(err == nil, t.Marshal())
	})
	truncOp("type5.FinalizeTokens", func(r *core.Rand) []byte {
		resp, err := iss5.Evaluate(c16FixedT5(iss5).Request())
		must(err)
		return resp
	}, func(b []byte) []byte {
		ts, err := c16FixedT5(iss5).FinalizeTokens(b)
		if err != nil {
			return verdict(false, nil)
		}
		return verdict(true, ts[0].Marshal())
	})

	// ---- type 1
	add(&c16Op{name: "type1.CreateTokenRequestWithBlind", group: "type1", names: []string{"challenge", "nonce", "tokenKeyID", "blind"},
		inputs: func(r *core.Rand) [][]byte {
			return [][]byte{r.Bytes(r.IntN(50)), r.Bytes(32), iss1.TokenKeyID(), c01EdgeScalar(r, 7, oprfGroup(oprf.SuiteP384))}
		},
		call: func(a [][]byte) []byte {
			st, err := type1.NewBasicPrivateClient().CreateTokenRequestWithBlind(a[0], a[1], a[2], iss1.TokenKey(), a[3])
			must(err)
			return st.Request().Marshal()
		}})
	add(&c16Op{name: "type1.CreateTokenRequest+Evaluate+FinalizeToken", group: "type1", names: []string{"challenge", "nonce", "tokenKeyID"},
		inputs: func(r *core.Rand) [][]byte { return [][]byte{r.Bytes(r.IntN(50)), r.Bytes(32), iss1.TokenKeyID()} },
		call: func(a [][]byte) []byte {
			st, err := type1.NewBasicPrivateClient().CreateTokenRequest(a[0], a[1], a[2], iss1.TokenKey())
			must(err)
			resp, err := iss1.Evaluate(st.Request())
			must(err)
			tok, err := st.FinalizeToken(resp)
			must(err)
			return tokDigest(tok)
		}})
	add(&c16Op{name: "type1.FinalizeToken(response)", group: "type1", names: []string{"response"},
		inputs: func(r *core.Rand) [][]byte {
			st, _ := type1.NewBasicPrivateClient().CreateTokenRequestWithBlind([]byte("c"), make([]byte, 32), iss1.TokenKeyID(), iss1.TokenKey(), c01EdgeScalar(r, 1, oprfGroup(oprf.SuiteP384)))
			resp, err := iss1.Evaluate(st.Request())
			must(err)
			return [][]byte{resp}
		},
		call: func(a [][]byte) []byte {
			r2 := core.NewRand(1, "x")
			st, _ := type1.NewBasicPrivateClient().CreateTokenRequestWithBlind([]byte("c"), make([]byte, 32), iss1.TokenKeyID(), iss1.TokenKey(), c01EdgeScalar(r2, 1, oprfGroup(oprf.SuiteP384)))
			tok, err := st.FinalizeToken(a[0])
			must(err)
			return tokDigest(tok)
		}})
	add(&c16Op{name: "type1.TokenRequest.Unmarshal+Evaluate", group: "type1", names: []string{"requestBytes"},
		inputs: func(r *core.Rand) [][]byte {
			st, _ := type1.NewBasicPrivateClient().CreateTokenRequest(r.Bytes(9), r.Bytes(32), iss1.TokenKeyID(), iss1.TokenKey())
			return [][]byte{clone(st.Request().Marshal())}
		},
		call: func(a [][]byte) []byte {
			q := new(type1.BasicPrivateTokenRequest)
			if !q.Unmarshal(a[0]) {
				panic("rejected")
			}
			_, err := iss1.Evaluate(q)
			must(err)
			return q.Marshal()
		}})
	add(&c16Op{name: "type1.UnmarshalPrivateToken+Verify", group: "type1", names: []string{"tokenBytes"},
		inputs: func(r *core.Rand) [][]byte {
			st, _ := type1.NewBasicPrivateClient().CreateTokenRequest(r.Bytes(9), r.Bytes(32), iss1.TokenKeyID(), iss1.TokenKey())
			resp, _ := iss1.Evaluate(st.Request())
			tok, err := st.FinalizeToken(resp)
			must(err)
			return [][]byte{tok.Marshal()}
		},
		call: func(a [][]byte) []byte {
			t, err := type1.UnmarshalPrivateToken(a[0])
			must(err)
			must(iss1.Verify(t))
			return t.Marshal()
		}})

	// ---- type 2
	add(&c16Op{name: "type2.CreateTokenRequestWithBlind", group: "type2", names: []string{"challenge", "nonce", "tokenKeyID", "blind", "salt"},
		inputs: func(r *core.Rand) [][]byte {
			return [][]byte{r.Bytes(r.IntN(50)), r.Bytes(32), iss2.TokenKeyID(), RSABlind(r, 6, rk[0]), r.Bytes(48)}
		},
		call: func(a [][]byte) []byte {
			st, err := type2.NewBasicPublicClient().CreateTokenRequestWithBlind(a[0], a[1], a[2], iss2.TokenKey(), a[3], a[4])
			must(err)
			resp, err := iss2.Evaluate(st.Request())
			must(err)
			tok, err := st.FinalizeToken(resp)
			must(err)
			return append(clone(st.Request().Marshal()), tokDigest(tok)...)
		}})
	add(&c16Op{name: "type2.FinalizeToken(response)", group: "type2", names: []string{"response"},
		inputs: func(r *core.Rand) [][]byte {
			st, _ := type2.NewBasicPublicClient().CreateTokenRequestWithBlind([]byte("c"), make([]byte, 32), iss2.TokenKeyID(), iss2.TokenKey(), []byte{5}, make([]byte, 48))
			resp, err := iss2.Evaluate(st.Request())
			must(err)
			return [][]byte{resp}
		},
		call: func(a [][]byte) []byte {
			st, _ := type2.NewBasicPublicClient().CreateTokenRequestWithBlind([]byte("c"), make([]byte, 32), iss2.TokenKeyID(), iss2.TokenKey(), []byte{5}, make([]byte, 48))
			tok, err := st.FinalizeToken(a[0])
			must(err)
			return tokDigest(tok)
		}})
	add(&c16Op{name: "type2.TokenRequest.Unmarshal+Evaluate", group: "type2", names: []string{"requestBytes"},
		inputs: func(r *core.Rand) [][]byte {
			st, _ := type2.NewBasicPublicClient().CreateTokenRequest(r.Bytes(9), r.Bytes(32), iss2.TokenKeyID(), iss2.TokenKey())
			return [][]byte{clone(st.Request().Marshal())}
		},
		call: func(a [][]byte) []byte {
			q := new(type2.BasicPublicTokenRequest)
			if !q.Unmarshal(a[0]) {
				panic("rejected")
			}
			resp, err := iss2.Evaluate(q)
			must(err)
			return resp
		}})

	// requests the issuers REFUSE or may refuse (a blinded message not below the modulus, an element that is not a point,
	// an unknown key id): whatever the verdict, the request bytes on the wire are the caller's and stay as they are - an
	// issuer that "repairs" a value does so in a copy
	add(&c16Op{name: "type2.TokenRequest.Unmarshal+Evaluate(hostile blinded message)", group: "type2", names: []string{"requestBytes"},
		inputs: func(r *core.Rand) [][]byte {
			N := rk[0].N
			var msg []byte
			switch hostileDERIndex % 5 { // the repetition counter: every kind in turn
			case 0:
				msg = bytes.Repeat([]byte{0xff}, 256)
			case 1:
				msg = N.FillBytes(make([]byte, 256))
			case 2:
				msg = new(big.Int).Add(N, big.NewInt(int64(1+r.IntN(1000)))).FillBytes(make([]byte, 256))
			case 3:
				msg = make([]byte, 256)
			default:
				msg = r.Bytes(256)
				msg[0] |= 0xf0
			}
			return [][]byte{append([]byte{0, 2, iss2.TokenKeyID()[31]}, msg...)}
		},
		call: func(a [][]byte) []byte {
			q := new(type2.BasicPublicTokenRequest)
			if !q.Unmarshal(a[0]) {
				return []byte("undecodable")
			}
			if _, err := iss2.Evaluate(q); err != nil {
				return append([]byte("refused:"), q.Marshal()...)
			}
			return append([]byte("served:"), q.Marshal()...)
		}})
	add(&c16Op{name: "type1.TokenRequest.Unmarshal+Evaluate(hostile element)", group: "type1", names: []string{"requestBytes"},
		inputs: func(r *core.Rand) [][]byte {
			els := p384InvalidEncodings(r)
			return [][]byte{append([]byte{0, 1, iss1.TokenKeyID()[31]}, els[r.IntN(len(els))]...)}
		},
		call: func(a [][]byte) []byte {
			q := new(type1.BasicPrivateTokenRequest)
			if !q.Unmarshal(a[0]) {
				return []byte("undecodable")
			}
			if _, err := iss1.Evaluate(q); err != nil {
				return append([]byte("refused:"), q.Marshal()...)
			}
			return append([]byte("served:"), q.Marshal()...)
		}})

	// ---- type 5
	add(&c16Op{name: "type5.CreateTokenRequestWithBlinds", group: "type5", names: []string{"challenge", "nonce0", "nonce1", "tokenKeyID", "blind0", "blind1"},
		inputs: func(r *core.Rand) [][]byte {
			g := oprfGroup(oprf.SuiteRistretto255)
			return [][]byte{r.Bytes(r.IntN(50)), r.Bytes(32), r.Bytes(32), iss5.TokenKeyID(), c01EdgeScalar(r, 7, g), c01EdgeScalar(r, 6, g)}
		},
		call: func(a [][]byte) []byte {
			st, err := type5.NewBatchedPrivateClient().CreateTokenRequestWithBlinds(a[0], [][]byte{a[1], a[2]}, a[3], iss5.TokenKey(), [][]byte{a[4], a[5]})
			must(err)
			resp, err := iss5.Evaluate(st.Request())
			must(err)
			toks, err := st.FinalizeTokens(resp)
			must(err)
			return append(append(clone(st.Request().Marshal()), tokDigest(toks[0])...), tokDigest(toks[1])...)
		}})
	add(&c16Op{name: "type5.FinalizeTokens(response)", group: "type5", names: []string{"response"},
		inputs: func(r *core.Rand) [][]byte {
			st := c16FixedT5(iss5)
			resp, err := iss5.Evaluate(st.Request())
			must(err)
			return [][]byte{resp}
		},
		call: func(a [][]byte) []byte {
			st := c16FixedT5(iss5)
			toks, err := st.FinalizeTokens(a[0])
			must(err)
			return append(tokDigest(toks[0]), tokDigest(toks[1])...)
		}})

	// ---- type 3
	add(&c16Op{name: "type3.CreateTokenRequest+Evaluate+FinalizeToken", group: "type3", names: []string{"challenge", "nonce", "blindKeyEnc", "tokenKeyID"},
		inputs: func(r *core.Rand) [][]byte {
			return [][]byte{r.Bytes(r.IntN(50)), r.Bytes(32), ScalarBytes(r, N, 48), iss3.TokenKeyID()}
		},
		call: func(a [][]byte) []byte {
			st, err := cl3.CreateTokenRequest(a[0], a[1], a[2], a[3], iss3.TokenKey(), "origin.example", iss3.NameKey())
			must(err)
			resp, _, err := iss3.Evaluate(st.Request().Marshal())
			must(err)
			_, err = st.FinalizeToken(resp)
			must(err)
			return nil
		}})
	add(&c16Op{name: "type3.Issuer.Evaluate+FinalizeToken(bytes)", group: "type3", names: []string{"requestBytes"},
		inputs: func(r *core.Rand) [][]byte {
			st, err := cl3.CreateTokenRequest(r.Bytes(8), r.Bytes(32), ScalarBytes(r, N, 48), iss3.TokenKeyID(), iss3.TokenKey(), "origin.example", iss3.NameKey())
			must(err)
			return [][]byte{clone(st.Request().Marshal())}
		},
		call: func(a [][]byte) []byte {
			_, brk, err := iss3.Evaluate(a[0])
			must(err)
			return brk
		}})
	add(&c16Op{name: "type3.Issuer.Evaluate(bytes of requests it refuses)", group: "type3", names: []string{"requestBytes"},
		inputs: func(r *core.Rand) [][]byte {
			// made, correctly signed and sealed, for ANOTHER issuer (other name key, other key id); or for an origin this issuer
			// does not have; or with one bit of the signature changed
			other := type3.NewRateLimitedIssuer(rk[2])
			other.AddOrigin("origin.example")
			var b []byte
			switch hostileDERIndex % 3 { // the repetition counter: every kind in every run
			case 0:
				st, err := cl3.CreateTokenRequest(r.Bytes(8), r.Bytes(32), ScalarBytes(r, N, 48), other.TokenKeyID(), other.TokenKey(), "origin.example", other.NameKey())
				must(err)
				b = clone(st.Request().Marshal())
			case 1:
				st, err := cl3.CreateTokenRequest(r.Bytes(8), r.Bytes(32), ScalarBytes(r, N, 48), iss3.TokenKeyID(), iss3.TokenKey(), "unregistered.example", iss3.NameKey())
				must(err)
				b = clone(st.Request().Marshal())
			default:
				st, err := cl3.CreateTokenRequest(r.Bytes(8), r.Bytes(32), ScalarBytes(r, N, 48), iss3.TokenKeyID(), iss3.TokenKey(), "origin.example", iss3.NameKey())
				must(err)
				b = flipBit(st.Request().Marshal(), 8*(len(st.Request().Marshal())-3))
			}
			return [][]byte{b}
		},
		call: func(a [][]byte) []byte {
			resp, _, err := iss3.Evaluate(a[0])
			if err == nil {
				return append([]byte("served:"), resp[:0]...)
			}
			return []byte("refused")
		}})
	add(&c16Op{name: "type3.Attester.VerifyRequest+FinalizeIndex", group: "type3", names: []string{"requestKey", "nameKeyID", "ciphertext", "signature", "blindKeyEnc", "clientKeyEnc", "anonymousOrigin", "blindedRequestKey"},
		inputs: func(r *core.Rand) [][]byte {
			blind := ScalarBytes(r, N, 48)
			st, err := cl3.CreateTokenRequest(r.Bytes(8), r.Bytes(32), blind, iss3.TokenKeyID(), iss3.TokenKey(), "origin.example", iss3.NameKey())
			must(err)
			_, brk, err := iss3.Evaluate(st.Request().Marshal())
			must(err)
			q := st.Request()
			return [][]byte{clone(q.RequestKey), clone(q.NameKeyID), clone(q.EncryptedTokenRequest), clone(q.Signature), blind, clone(st.ClientKey()), r.Bytes(16), brk}
		},
		call: func(a [][]byte) []byte {
			att := type3.NewRateLimitedAttester(newMemCache())
			q := type3.RateLimitedTokenRequest{RequestKey: a[0], NameKeyID: a[1], EncryptedTokenRequest: a[2], Signature: a[3]}
			must(att.VerifyRequest(q, a[4], a[5], a[6]))
			idx, err := att.FinalizeIndex(a[5], a[4], a[7], a[6])
			must(err)
			return idx
		}})
	add(&c16Op{name: "type3.NewRateLimitedClientFromSecret", group: "type3", names: []string{"secret"},
		inputs: func(r *core.Rand) [][]byte { return [][]byte{ScalarBytes(r, N, 48)} },
		call: func(a [][]byte) []byte {
			type3.NewRateLimitedClientFromSecret(a[0])
			return nil
		}})
	return ops
}

func c16FixedT5(iss5 *type5.BatchedPrivateIssuer) type5.BatchedPrivateTokenRequestState {
	r := core.NewRand(7, "c16t5")
	g := oprfGroup(oprf.SuiteRistretto255)
	st, err := type5.NewBatchedPrivateClient().CreateTokenRequestWithBlinds([]byte("c"), [][]byte{make([]byte, 32), bytes.Repeat([]byte{1}, 32)}, iss5.TokenKeyID(), iss5.TokenKey(), [][]byte{c01EdgeScalar(r, 7, g), c01EdgeScalar(r, 6, g)})
	must(err)
	return st
}

var hostileDERIndex int
var hostileDERCount = 140

// tokenKeyTextForms returns textual encodings of a DER token key.
func tokenKeyTextForms(der []byte) [][]byte {
	var out [][]byte
	for _, enc := range []*base64.Encoding{base64.StdEncoding, base64.URLEncoding, base64.RawStdEncoding, base64.RawURLEncoding} {
		t := []byte(enc.EncodeToString(der))
		out = append(out, t, append(clone(t), '\n'), append([]byte("  "), append(clone(t), '\r', '\n')...))
	}
	out = append(out, []byte(hex.EncodeToString(der)), []byte(strings.ToUpper(hex.EncodeToString(der))))
	out = append(out, pem.EncodeToMemory(&pem.Block{Type: "PUBLIC KEY", Bytes: der}))
	// base64 in lines of 64 characters, without the armour
	b := base64.StdEncoding.EncodeToString(der)
	var lines []byte
	for len(b) > 64 {
		lines = append(lines, b[:64]...)
		lines = append(lines, '\n')
		b = b[64:]
	}
	out = append(out, append(lines, b...))
	return out
}

func runC16(c *core.Ctx) {
	m := &c16{c: c, curve: elliptic.P384()}
	ops := m.ops()
	reps := c.Pick(6, 200)
	for _, op := range ops {
		n := reps
		if op.name == "util.UnmarshalTokenKey(hostile DER)" {
			n = max(reps, hostileDERCount) // at least once around the list of hostile encodings
		}
		for rep := 0; rep < n; rep++ {
			hostileDERIndex = rep
			if c.Next() {
				m.runOp(op)
				if rep == 0 {
					c.Sample("monitored operation", map[string]any{"operation": op.name, "arguments": op.names, "spare_capacities": c16Spares})
				}
			}
		}
	}
	m.sequences()
}
