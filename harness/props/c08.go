package props

import (
	"bytes"
	"crypto/elliptic"
	"fmt"
	"math/big"

	"github.com/cloudflare/pat-go/ecdsa"
	"github.com/cloudflare/pat-go/tokens/type3"

	"verifharness/internal/core"
	"verifharness/internal/ref"
)

func init() {
	core.Register(&core.Prop{
		ID:    "C08",
		Level: "exploration",
		Rule: "full rate-limited flows client -> attester.VerifyRequest -> issuer.Evaluate -> attester.FinalizeIndex for 4 clients x 4 origins (two origins deliberately share one index key) x R requests each with fresh blind, each flow run against a fresh attester and against one long-lived attester per worker on which the client reuses one anonymous origin ID for all origins (incl. 1, N-1, leading-zero and > N encodings), nonce and challenge. " +
			"Oracle: every returned index equals HKDF-SHA-384(salt = compress(client key), ikm = compress(k_o * client key), info = \"IssuerOriginAlias\", 48) with k_o = hash_to_field(bytes(index key D)||0x00||0x0003||\"IssuerBlind\"), all computed by the reference (own XMD, own HKDF, std curve); Evaluate's second value equals compress(k_o * request key); indices of distinct clients or distinct index keys differ; origins sharing an index key give equal indices. " +
			"distinct_nontrivial = distinct (client, origin, blind class) triples",
		Floors:      []string{"index_matches_reference", "blinded_request_key_matches_reference", "repeat_same_index", "distinct_pairs_differ", "shared_index_key_equal", "edge_blinds", "index_matches_reference_on_used_attester", "retained_ids_rechecked", "negated_key_request_refused", "index_key_replaced_flows_match_reference", "shared_key_object_origins_independent"},
		Assumptions: []string{"crypto/elliptic, crypto/hmac and the SHA-2 family of the standard library are the trusted base of the reference"},
		Run:         runC08,
	})
}

func runC08(c *core.Ctx) {
	curve := elliptic.P384()
	N := curve.Params().N
	setup := c.Rng("setup")
	rk := RSAKeys()
	nClients, nOrigins := 4, 4
	secrets := make([][]byte, nClients)
	clientKeys := make([][]byte, nClients)
	cpx := make([]*big.Int, nClients)
	cpy := make([]*big.Int, nClients)
	for i := range secrets {
		secrets[i] = ScalarBytes(setup, N, 48)
		cpx[i], cpy[i] = ref.ECBaseMul(curve, new(big.Int).SetBytes(secrets[i]))
		clientKeys[i] = ref.ECCompress(curve, cpx[i], cpy[i])
	}
	origins := []string{"origin-a.example", "origin-b.example", "shared-1.example", "shared-2.example"}
	indexD := [][]byte{ScalarBytes(setup, N, 48), ScalarBytes(setup, N, 48), ScalarBytes(setup, N, 48)}
	indexD[1][0] = 0 // index key with a leading zero byte
	dOf := func(o int) []byte {
		if o >= 2 {
			return indexD[2]
		}
		return indexD[o]
	}
	mkIssuer := func() *type3.RateLimitedIssuer {
		is := type3.NewRateLimitedIssuer(rk[3])
		for o, name := range origins {
			k, err := ecdsa.CreateKey(curve, dOf(o))
			must(err)
			is.AddOriginWithIndexKey(name, k)
		}
		return is
	}
	// reference indices
	ctxIssuer := t3Ctx("IssuerBlind")
	refIndex := func(ci, o int) []byte {
		ko := ref.ECDSABlindScalar(curve, new(big.Int).SetBytes(dOf(o)), ctxIssuer)
		x, y := ref.ECMul(curve, cpx[ci], cpy[ci], ko)
		return ref.IssuerOriginAlias(clientKeys[ci], ref.ECCompress(curve, x, y))
	}
	// distinctness among references (statement: distinct clients or distinct index keys => distinct IDs)
	if c.Next() {
		seen := map[string]string{}
		for ci := 0; ci < nClients; ci++ {
			for o := 0; o < 3; o++ { // origins 2 and 3 share a key
				k := fmt.Sprintf("%x", refIndex(ci, o))
				if prev, ok := seen[k]; ok {
					c.Violation("reference-collision", "two distinct (client, index key) pairs give the same reference ID: "+prev, nil)
				}
				seen[k] = fmt.Sprintf("client %d origin %d", ci, o)
			}
		}
		c.Eval(int64(len(seen)))
	}

	R := c.Pick(8, 200)
	// one long-lived attester per worker process: every client uses the SAME anonymous origin ID for all its
	// origins there, so state accumulated by earlier requests (of this or another origin) is in place
	persistent := type3.NewRateLimitedAttester(newMemCache())
	// IDs handed out earlier are kept (the slices themselves, not copies) and must keep their value
	type kept struct{ got, want []byte }
	var retained []kept
	for ci := 0; ci < nClients; ci++ {
		for o := 0; o < nOrigins; o++ {
			for rep := 0; rep < R; rep++ {
				if !c.Next() {
					continue
				}
				r := c.CaseRng()
				var blind []byte
				bclass := "seeded"
				switch rep % 8 {
				case 1:
					blind, bclass = []byte{1}, "one"
				case 2:
					blind, bclass = new(big.Int).Sub(N, big.NewInt(1)).Bytes(), "N-1"
				case 3:
					blind, bclass = append([]byte{0, 0}, r.Bytes(46)...), "leading-zero"
				case 4:
					blind, bclass = new(big.Int).Add(N, new(big.Int).SetBytes(r.Bytes(8))).Bytes(), ">N"
				case 5:
					blind, bclass = r.Bytes(60), "60-bytes"
				default:
					blind = ScalarBytes(r, N, 48)
				}
				if bclass != "seeded" {
					c.Class("edge_blinds")
				}
				c.Eval(1)
				c.Note(fmt.Sprintf("flow client=%d origin=%d blind=%s", ci, o, bclass))
				d := map[string]any{"client": ci, "origin": origins[o], "blind": core.Hex(blind), "blind_class": bclass, "client_secret": core.Hex(secrets[ci]), "index_key": core.Hex(dOf(o))}
				bad := func(cls, what string) { c.Violation("flow:"+cls, "anonymous issuer origin ID: "+what, d) }
				pan, pv, where := core.Guard(func() {
					issuer := mkIssuer()
					cache := newMemCache()
					att := type3.NewRateLimitedAttester(cache)
					cl := type3.NewRateLimitedClientFromSecret(secrets[ci])
					st, err := cl.CreateTokenRequest(r.Bytes(r.IntN(50)), r.Bytes(32), blind, issuer.TokenKeyID(), issuer.TokenKey(), origins[o], issuer.NameKey())
					if err != nil {
						bad("create-error", err.Error())
						return
					}
					if !bytes.Equal(st.ClientKey(), clientKeys[ci]) {
						bad("client-key", "the client's public key encoding differs from the reference")
						return
					}
					if err := att.VerifyRequest(*st.Request(), blind, st.ClientKey(), []byte("anon")); err != nil {
						bad("verify-error", "attester rejected the honest request: "+err.Error())
						return
					}
					_, brk, err := issuer.Evaluate(st.Request().Marshal())
					if err != nil {
						bad("evaluate-error", "issuer rejected the honest request: "+err.Error())
						return
					}
					// second return value = compress(k_o * request key)
					qx, qy, ok := ref.ECDecompress(curve, st.Request().RequestKey)
					if !ok {
						bad("request-key", "request key does not decode")
						return
					}
					ko := ref.ECDSABlindScalar(curve, new(big.Int).SetBytes(dOf(o)), ctxIssuer)
					bx, by := ref.ECMul(curve, qx, qy, ko)
					if !bytes.Equal(brk, ref.ECCompress(curve, bx, by)) {
						d["got"], d["want"] = core.Hex(brk), core.Hex(ref.ECCompress(curve, bx, by))
						bad("blinded-request-key", "Evaluate's second return value is not the request key blinded by the origin index key as the reference computes it")
						return
					}
					c.Class("blinded_request_key_matches_reference")
					anon := []byte(fmt.Sprintf("anon-%d", o))
					idx, err := att.FinalizeIndex(st.ClientKey(), blind, brk, anon)
					if err != nil {
						bad("finalize-error", "FinalizeIndex failed: "+err.Error())
						return
					}
					want := refIndex(ci, o)
					if !bytes.Equal(idx, want) {
						d["got"], d["want"] = core.Hex(idx), core.Hex(want)
						bad("index-differs", "the index is not HKDF-SHA-384(salt = client key, ikm = client key blinded by the index key, \"IssuerOriginAlias\")")
						return
					}
					c.Class("index_matches_reference")
					// the same request against the long-lived attester
					if err := persistent.VerifyRequest(*st.Request(), blind, st.ClientKey(), []byte("shared")); err != nil {
						bad("verify-error-persistent", "the long-lived attester rejected the honest request: "+err.Error())
						return
					}
					pidx, err := persistent.FinalizeIndex(st.ClientKey(), blind, brk, []byte(fmt.Sprintf("shared-anon-of-client-%d", ci)))
					if err != nil {
						bad("finalize-error-persistent", "FinalizeIndex on the long-lived attester failed: "+err.Error())
						return
					}
					if !bytes.Equal(pidx, want) {
						d["got"], d["want"] = core.Hex(pidx), core.Hex(want)
						bad("index-depends-on-history", "on an attester that has served other requests of this client the ID differs from the reference (it must depend on the client key and the index key only)")
						return
					}
					c.Class("index_matches_reference_on_used_attester")
					retained = append(retained, kept{idx, clone(want)}, kept{pidx, clone(want)})
					if len(retained) > 400 {
						retained = retained[len(retained)-400:]
					}
					for _, k := range retained {
						if !bytes.Equal(k.got, k.want) {
							bad("earlier-id-changed", "an ID returned by an earlier FinalizeIndex call changed its value after later calls")
							return
						}
					}
					c.Class("retained_ids_rechecked")
					// an adversarial twin of this client: secret N-d gives the negated client key; its correctly signed
					// request presented under the honest client key must not lead to another ID for this client
					{
						negSecret := new(big.Int).Sub(N, new(big.Int).SetBytes(secrets[ci])).FillBytes(make([]byte, 48))
						adv := newT3Signer(negSecret, blind)
						nkid, ct := r.Bytes(32), r.Bytes(120)
						areq := type3.RateLimitedTokenRequest{RequestKey: adv.RequestKeyEnc, NameKeyID: nkid, EncryptedTokenRequest: ct, Signature: adv.sign(r, t3SignedMessage(adv.RequestKeyEnc, nkid, ct))}
						att2 := type3.NewRateLimitedAttester(newMemCache())
						if att2.VerifyRequest(areq, blind, clientKeys[ci], []byte("anon")) == nil {
							ax, ay, _ := ref.ECDecompress(curve, adv.RequestKeyEnc)
							abx, aby := ref.ECMul(curve, ax, ay, ko)
							aidx, err := att2.FinalizeIndex(clientKeys[ci], blind, ref.ECCompress(curve, abx, aby), []byte("anon"))
							if err == nil && !bytes.Equal(aidx, want) {
								bad("second-id-for-same-client-and-origin", "a request signed under the negated client key was accepted for this client and yields a different ID for the same client and origin")
								return
							}
						} else {
							c.Class("negated_key_request_refused")
						}
					}
					if rep > 0 {
						c.Class("repeat_same_index")
					}
					if o >= 2 {
						// the other origin with the same index key, same client
						o2 := 5 - o
						st2, err := cl.CreateTokenRequest(r.Bytes(10), r.Bytes(32), blind, issuer.TokenKeyID(), issuer.TokenKey(), origins[o2], issuer.NameKey())
						if err == nil {
							_, brk2, err := issuer.Evaluate(st2.Request().Marshal())
							if err == nil {
								idx2, err := att.FinalizeIndex(st2.ClientKey(), blind, brk2, anon)
								if err != nil || !bytes.Equal(idx2, idx) {
									bad("shared-index-key-differs", "two origins sharing an index key give different IDs (or the repeat was refused)")
									return
								}
								c.Class("shared_index_key_equal")
							}
						}
					}
					// another client for the same origin must differ; another origin (distinct key) must differ
					oc := (ci + 1) % nClients
					if bytes.Equal(refIndex(oc, o), idx) {
						bad("clients-collide", "two clients got the same ID")
						return
					}
					if o < 2 && bytes.Equal(refIndex(ci, 1-o), idx) {
						bad("origins-collide", "two index keys give the same ID")
						return
					}
					c.Class("distinct_pairs_differ")
					c.Distinctf("flow:%d:%d:%s", ci, o, bclass)
					if rep == 0 {
						c.Sample("flow", map[string]any{"client": ci, "origin": origins[o], "index": core.Hex(idx)})
					}
				})
				if pan {
					bad("panic:"+where, "panic: "+pv)
				}
			}
		}
	}
	// index keys REPLACED on a long-lived issuer: the ID and Evaluate's second value depend on the index key the origin has
	// NOW (AddOriginWithIndexKey for a known origin replaces its key), not on anything derived from an earlier one
	{
		alt := [][]byte{ScalarBytes(setup, N, 48), ScalarBytes(setup, N, 48)}
		for rs := 0; rs < c.Pick(12, 300); rs++ {
			if !c.Next() {
				continue
			}
			r := c.CaseRng()
			rot := mkIssuer() // one issuer per history (its origins start with their original index keys)
			ci, o := r.IntN(nClients), r.IntN(2)
			keysInOrder := [][]byte{dOf(o), alt[0], dOf(o), alt[1], alt[0]}
			var trace []string
			for step, dk := range keysInOrder {
				c.Eval(1)
				trace = append(trace, core.Hex(dk[:4]))
				d := map[string]any{"client": ci, "origin": origins[o], "index_keys_in_order_(first_bytes)": clone2(trace), "current_index_key": core.Hex(dk)}
				bad := func(cls, what string) {
					c.Violation("rotation:"+cls, "anonymous issuer origin ID after the origin's index key was replaced: "+what, d)
				}
				stop := false
				pan, pv, where := core.Guard(func() {
					k, err := ecdsa.CreateKey(curve, dk)
					must(err)
					if step > 0 || rs%2 == 0 {
						rot.AddOriginWithIndexKey(origins[o], k)
					} else if !bytes.Equal(dk, dOf(o)) {
						return
					}
					blind := ScalarBytes(r, N, 48)
					st, err := type3.NewRateLimitedClientFromSecret(secrets[ci]).CreateTokenRequest(r.Bytes(9), r.Bytes(32), blind, rot.TokenKeyID(), rot.TokenKey(), origins[o], rot.NameKey())
					must(err)
					_, brk, err := rot.Evaluate(st.Request().Marshal())
					if err != nil {
						bad("evaluate-error", err.Error())
						stop = true
						return
					}
					qx, qy, _ := ref.ECDecompress(curve, st.Request().RequestKey)
					ko := ref.ECDSABlindScalar(curve, new(big.Int).SetBytes(dk), ctxIssuer)
					bx, by := ref.ECMul(curve, qx, qy, ko)
					if !bytes.Equal(brk, ref.ECCompress(curve, bx, by)) {
						bad("blinded-request-key", "Evaluate's second return value is not the request key blinded by the origin's CURRENT index key")
						stop = true
						return
					}
					att := type3.NewRateLimitedAttester(newMemCache())
					must(att.VerifyRequest(*st.Request(), blind, st.ClientKey(), []byte("anon")))
					idx, err := att.FinalizeIndex(st.ClientKey(), blind, brk, []byte("anon"))
					ix, iy := ref.ECMul(curve, cpx[ci], cpy[ci], ko)
					if err != nil || !bytes.Equal(idx, ref.IssuerOriginAlias(clientKeys[ci], ref.ECCompress(curve, ix, iy))) {
						bad("index-differs", "the ID is not the reference ID for the origin's current index key")
						stop = true
						return
					}
					c.Class("index_key_replaced_flows_match_reference")
				})
				if pan {
					bad("panic:"+where, pv)
					break
				}
				if stop {
					break
				}
			}
			c.Distinctf("rotation:%d:%d:%d", ci, o, rs)
		}
	}
	// two origins registered with ONE index-key object, then one of them re-registered with another key: the other origin
	// keeps its key, the caller's key objects and the handle OriginIndexKey gave out keep their values
	for rs := 0; rs < c.Pick(4, 80); rs++ {
		if !c.Next() {
			continue
		}
		r := c.CaseRng()
		c.Eval(1)
		ci := r.IntN(nClients)
		d := map[string]any{"client": ci}
		bad := func(cls, what string) {
			c.Violation("shared-key-object:"+cls, "index keys shared between origins: "+what, d)
		}
		pan, pv, where := core.Guard(func() {
			is := type3.NewRateLimitedIssuer(rk[3])
			dA, dB := ScalarBytes(r, N, 48), ScalarBytes(r, N, 48)
			kA, err := ecdsa.CreateKey(curve, dA)
			must(err)
			kB, err := ecdsa.CreateKey(curve, dB)
			must(err)
			is.AddOriginWithIndexKey("one.example", kA)
			is.AddOriginWithIndexKey("two.example", kA) // the same object
			handle := is.OriginIndexKey("two.example")
			is.AddOriginWithIndexKey("one.example", kB) // one.example gets another key
			if kA.D.Cmp(new(big.Int).SetBytes(dA)) != 0 || kB.D.Cmp(new(big.Int).SetBytes(dB)) != 0 {
				bad("caller-key-object-changed", "re-registering an origin changed a key object the caller had passed in")
				return
			}
			if handle != nil && handle.D.Cmp(new(big.Int).SetBytes(dA)) != 0 {
				bad("handle-changed", "the key OriginIndexKey returned for another origin changed when one origin was re-registered")
				return
			}
			for name, dk := range map[string][]byte{"one.example": dB, "two.example": dA} {
				blind := ScalarBytes(r, N, 48)
				st, err := type3.NewRateLimitedClientFromSecret(secrets[ci]).CreateTokenRequest(r.Bytes(9), r.Bytes(32), blind, is.TokenKeyID(), is.TokenKey(), name, is.NameKey())
				must(err)
				_, brk, err := is.Evaluate(st.Request().Marshal())
				if err != nil {
					bad("evaluate-error", err.Error())
					return
				}
				qx, qy, _ := ref.ECDecompress(curve, st.Request().RequestKey)
				ko := ref.ECDSABlindScalar(curve, new(big.Int).SetBytes(dk), ctxIssuer)
				bx, by := ref.ECMul(curve, qx, qy, ko)
				if !bytes.Equal(brk, ref.ECCompress(curve, bx, by)) {
					d["origin"] = name
					bad("blinded-request-key", "after one origin was re-registered, "+name+" is evaluated with another index key than the one it is registered with")
					return
				}
			}
			c.Class("shared_key_object_origins_independent")
		})
		if pan {
			bad("panic:"+where, pv)
		}
	}
	// the shipped (Go-generated) vector as one more input: reference vs code is judged, vector agreement is informational
	if c.Next() {
		var vs []struct {
			SkSign, SkOrigin, RequestBlind, RequestKey, IndexKey, Alias, PkSign string
		}
		var raw []map[string]string
		if err := loadJSON("tokens/type3/type3-anon-origin-id-test-vectors.json", &raw); err == nil {
			for _, v := range raw {
				vs = append(vs, struct{ SkSign, SkOrigin, RequestBlind, RequestKey, IndexKey, Alias, PkSign string }{v["sk_sign"], v["sk_origin"], v["request_blind"], v["request_key"], v["index_key"], v["issuer_origin_alias"], v["pk_sign"]})
			}
		}
		for _, v := range vs {
			c.Eval(1)
			sk := new(big.Int).SetBytes(unhex(v.SkSign))
			x, y := ref.ECBaseMul(curve, sk)
			ck := ref.ECCompress(curve, x, y)
			ko := ref.ECDSABlindScalar(curve, new(big.Int).SetBytes(unhex(v.SkOrigin)), ctxIssuer)
			ix, iy := ref.ECMul(curve, x, y, ko)
			alias := ref.IssuerOriginAlias(ck, ref.ECCompress(curve, ix, iy))
			c.Info("shipped_vector_alias_equals_reference", bytes.Equal(alias, unhex(v.Alias)))
			c.Info("shipped_vector_index_key_equals_reference", bytes.Equal(ref.ECCompress(curve, ix, iy), unhex(v.IndexKey)))
		}
	}
}
