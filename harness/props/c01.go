package props

import (
	"bytes"
	"crypto/elliptic"
	"crypto/rsa"
	"fmt"
	"math/big"

	"github.com/cloudflare/circl/group"
	"github.com/cloudflare/circl/oprf"

	"github.com/cloudflare/pat-go/tokens"
	"github.com/cloudflare/pat-go/tokens/type1"
	"github.com/cloudflare/pat-go/tokens/type2"
	"github.com/cloudflare/pat-go/tokens/type3"
	"github.com/cloudflare/pat-go/tokens/type5"

	"verifharness/internal/core"
	"verifharness/internal/ref"
)

func init() {
	core.Register(&core.Prop{
		ID:    "C01",
		Level: "exploration",
		Rule: "honest issuance runs of types 1,2,3,5 with every message crossing the wire as bytes (client Marshal -> issuer-side Unmarshal, every third time into a long-lived request object that decoded other requests before -> Evaluate -> response bytes -> Finalize); " +
			"cases = key x challenge (boundary lengths 0..65535, marshalled TokenChallenges, seeded) x nonce(s) x shape (type-5 batch size, type-3 origin-name length, fixed-blind vs random-blind entry point). " +
			"Oracle: no error anywhere; token bytes = type||nonce||SHA-256(challenge)||key id||authenticator assembled by the harness; authenticator length 48/256/256/64; validity decided by circl FullEvaluate (types 1,5) or crypto/rsa.VerifyPSS (types 2,3). " +
			"Plus: long-lived sessions (one client, one issuer, one issuer-side request object and one receive buffer serve 10-16 runs whose inputs are related to the run before; all argument buffers refilled in place and scribbled over after the call); honest batches / consecutive runs whose different blinded elements agree in their leading or trailing 32 bits (fixture found by cmd/mkcollisions, re-derived at run time) or are equal; type-3 responses re-encrypted by the monitor for every / many values of the first two bytes of the issuer's random response nonce; type-2 runs whose blind signature is a chosen integer (N-1, N-2^64, top 64 bits equal to N's, leading zero bytes, 1, 2: the client's blind is solved for with the issuer key); one RSA key with three prime factors among the fixtures. " +
			"distinct_nontrivial = distinct (type, key, challenge length, shape) tuples",
		Floors:      []string{"type1_tokens_valid", "type2_tokens_valid", "type3_tokens_valid", "type5_tokens_valid", "type1_withblind", "type2_withblind", "type5_withblinds", "request_decoded_by_issuer_side_decoder", "decoder_object_reused", "session_runs_valid", "partial_collision_batches_valid", "partial_collision_runs_valid", "type3_response_nonce_prefixes_valid", "type5_batch_with_repeated_element", "type2_constructed_response_values", "runs_complete_across_a_process_suspension", "extreme_element_encodings_valid", "type5_batch_sizes_for_every_prefix_byte", "issuer_serves_after_entropy_fault_on_first_use", "issuer_serves_after_a_transient_entropy_fault", "runs_with_moduli_shorter_than_2048_bits"},
		Assumptions: []string{"circl oprf/blindrsa, go-hpke and crypto/rsa are the trusted base", "client-internal randomness (crypto/rand) is covered by repetition and by the WithBlind entry points"},
		Run:         runC01,
	})
}

// issuer-side request objects that live as long as the worker and decode one request after another
var (
	c01Reuse1 = new(type1.BasicPrivateTokenRequest)
	c01Reuse2 = new(type2.BasicPublicTokenRequest)
	c01Reuse5 = new(type5.BatchedPrivateTokenRequest)
)

type c01Bad func(key, what string, detail map[string]any)

// checkToken applies oracle items (2) and (3) of C01 to one token.
func checkTokenLayout(tok tokens.Token, tokenType uint16, nonce, challenge, keyID []byte, authLen int) (string, map[string]any) {
	got := tok.Marshal()
	want := ref.TokenBytes(tokenType, nonce, challenge, keyID, tok.Authenticator)
	if len(tok.Authenticator) != authLen {
		return "authenticator-length", map[string]any{"len": len(tok.Authenticator), "want": authLen}
	}
	if !bytes.Equal(got, want) {
		return "token-layout", map[string]any{"got": core.Hex(got), "want": core.Hex(want)}
	}
	if tok.TokenType != tokenType || !bytes.Equal(tok.Nonce, nonce) || !bytes.Equal(tok.KeyID, keyID) {
		return "token-fields", map[string]any{"got": core.Hex(got)}
	}
	return "", nil
}

func runC01(c *core.Ctx) {
	setup := c.Rng("setup")
	nkeys := c.Pick(3, 6)
	// keys
	var k1 []*oprf.PrivateKey
	var k5 []*oprf.PrivateKey
	for i := 0; i < nkeys; i++ {
		k1 = append(k1, VOPRFKey(oprf.SuiteP384, setup.Bytes(32)))
		k5 = append(k5, VOPRFKey(oprf.SuiteRistretto255, setup.Bytes(32)))
	}
	rk := RSAKeys()

	n := c.Pick(400, 60000)
	for i := 0; i < n; i++ {
		c01Type1(c, i, k1)
	}
	for i := 0; i < n; i++ {
		c01Type2(c, i, rk)
	}
	for i := 0; i < n; i++ {
		c01Type5(c, i, k5)
	}
	for i := 0; i < c.Pick(400, 40000); i++ {
		c01Type3(c, i, rk)
	}
	c01Sessions(c, k1, k5, rk)
	c01Collisions(c)
	c01Type3ResponseNonces(c, rk[3%len(rk)])
	c01Type2ConstructedResponses(c, rk[1])
	c01Type2ConstructedResponses(c, rk[len(rk)-1])
	c01AcrossSuspension(c, k1[0], k5[0], rk[0])
	c01ExtremeElements(c)
	c01EntropyFaultOnFirstUse(c, k1[0], k5[0], rk[0])
	c01TransientEntropyFaults(c, k1[0], k5[0], rk[0])
}

func c01Type1(c *core.Ctx, i int, keys []*oprf.PrivateKey) {
	if !c.Next() {
		return
	}
	r := c.CaseRng()
	ki := i % len(keys)
	key := keys[ki]
	challenge := GenChallenge(r, i/len(keys))
	nonce := GenNonce(r, i%7)
	withBlind := i%2 == 1
	var blindEnc []byte
	if withBlind {
		blindEnc = c01EdgeScalar(r, i/2, group.P384)
	}
	c.Eval(1)
	c.Note(fmt.Sprintf("type1 flow key=%d clen=%d", ki, len(challenge)))
	bad := func(cls, what string, d map[string]any) {
		if d == nil {
			d = map[string]any{}
		}
		d["challenge"], d["nonce"], d["key_index"], d["blind"] = core.Hex(challenge), core.Hex(nonce), ki, core.Hex(blindEnc)
		c.Violation("type1:"+cls, "type-1 honest issuance: "+what, d)
	}
	pan, pv, where := core.Guard(func() {
		issuer := type1.NewBasicPrivateIssuer(key)
		keyID := issuer.TokenKeyID()
		client := type1.NewBasicPrivateClient()
		var st type1.BasicPrivateTokenRequestState
		var err error
		if withBlind {
			st, err = client.CreateTokenRequestWithBlind(challenge, nonce, keyID, issuer.TokenKey(), blindEnc)
			c.Class("type1_withblind")
		} else {
			st, err = client.CreateTokenRequest(challenge, nonce, keyID, issuer.TokenKey())
		}
		if err != nil {
			bad("create-error", "CreateTokenRequest failed: "+err.Error(), nil)
			return
		}
		reqBytes := clone(st.Request().Marshal())
		dec := new(type1.BasicPrivateTokenRequest)
		if i%3 == 2 {
			dec = c01Reuse1 // an issuer-side object that decoded other requests before
			c.Class("decoder_object_reused")
		}
		if !dec.Unmarshal(clone(reqBytes)) {
			bad("request-undecodable", "issuer-side decoder rejected the client's request bytes", map[string]any{"request": core.Hex(reqBytes)})
			return
		}
		c.Class("request_decoded_by_issuer_side_decoder")
		if re := dec.Marshal(); !bytes.Equal(re, reqBytes) {
			bad("request-reencode", "decoded request re-encodes differently", map[string]any{"request": core.Hex(reqBytes), "reencoded": core.Hex(re)})
		}
		resp, err := issuer.Evaluate(dec)
		if err != nil {
			bad("evaluate-error", "Evaluate of the decoded request failed: "+err.Error(), map[string]any{"request": core.Hex(reqBytes)})
			return
		}
		tok, err := st.FinalizeToken(clone(resp))
		if err != nil {
			bad("finalize-error", "FinalizeToken failed: "+err.Error(), map[string]any{"response": core.Hex(resp)})
			return
		}
		if cls, d := checkTokenLayout(tok, 1, nonce, challenge, keyID, 48); cls != "" {
			bad(cls, "token is not type||nonce||SHA-256(challenge)||key id||authenticator(48)", d)
			return
		}
		want := RefVOPRF(oprf.SuiteP384, key, tok.AuthenticatorInput())
		wantH := RefVOPRF(oprf.SuiteP384, key, ref.TokenBytes(1, nonce, challenge, keyID, nil))
		if !bytes.Equal(tok.Authenticator, wantH) || !bytes.Equal(want, wantH) {
			bad("token-invalid", "authenticator is not the VOPRF evaluation of the token input under the issuer key", map[string]any{"token": core.Hex(tok.Marshal())})
			return
		}
		if err := issuer.Verify(tok); err != nil {
			bad("issuer-verify-disagrees", "Issuer.Verify rejects a token the reference accepts: "+err.Error(), map[string]any{"token": core.Hex(tok.Marshal())})
			return
		}
		c.Class("type1_tokens_valid")
		c.Distinctf("t1:k%d:c%d:b%v", ki, len(challenge), withBlind)
		c.Sample("type1", map[string]any{"challenge_len": len(challenge), "request": core.Hex(reqBytes), "token": core.Hex(tok.Marshal())})
	})
	if pan {
		bad("panic:"+where, "panic: "+pv+" at "+where, nil)
	}
}

// c01EdgeScalar returns blind encodings: edge values first, then seeded.
func c01EdgeScalar(r *core.Rand, j int, g group.Group) []byte {
	n := int(g.Params().ScalarLength)
	mk := func(x int64) []byte {
		s := g.NewScalar()
		if x >= 0 {
			s.SetUint64(uint64(x))
		} else {
			one := g.NewScalar()
			one.SetUint64(uint64(-x))
			s.Neg(one) // order - |x|
		}
		b, _ := s.MarshalBinary()
		return b
	}
	switch j % 8 {
	case 0:
		return mk(1)
	case 1:
		return mk(2)
	case 2:
		return mk(-1)
	case 3:
		return mk(255) // many leading/trailing zero bytes
	}
	// seeded (circl's ristretto255 RandomScalar ignores its reader, so reduce seeded bytes instead)
	x := new(big.Int).SetBytes(r.Bytes(n + 16))
	x.Mod(x, new(big.Int).Sub(groupOrder(g), big.NewInt(1)))
	x.Add(x, big.NewInt(1))
	s := g.NewScalar().SetBigInt(x)
	b, _ := s.MarshalBinary()
	if len(b) != n {
		panic("scalar length")
	}
	return b
}

func groupOrder(g group.Group) *big.Int {
	switch g {
	case group.P384:
		return elliptic.P384().Params().N
	case group.Ristretto255:
		return ref.EdL
	}
	panic("unknown group")
}

func c01Type2(c *core.Ctx, i int, keys []*rsa.PrivateKey) {
	if !c.Next() {
		return
	}
	r := c.CaseRng()
	ki := i % len(keys)
	key := keys[ki]
	challenge := GenChallenge(r, i/len(keys))
	nonce := GenNonce(r, i%7)
	withBlind := i%2 == 1
	var blind, salt []byte
	if withBlind {
		blind = RSABlind(r, i/2, key)
		salt = r.Bytes(48)
	}
	c.Eval(1)
	c.Note(fmt.Sprintf("type2 flow key=%d clen=%d", ki, len(challenge)))
	bad := func(cls, what string, d map[string]any) {
		if d == nil {
			d = map[string]any{}
		}
		d["challenge"], d["nonce"], d["key_index"], d["blind"], d["salt"] = core.Hex(challenge), core.Hex(nonce), ki, core.Hex(blind), core.Hex(salt)
		c.Violation("type2:"+cls, "type-2 honest issuance: "+what, d)
	}
	pan, pv, where := core.Guard(func() {
		issuer := type2.NewBasicPublicIssuer(key)
		keyID := issuer.TokenKeyID()
		client := type2.NewBasicPublicClient()
		var st type2.BasicPublicTokenRequestState
		var err error
		if withBlind {
			st, err = client.CreateTokenRequestWithBlind(challenge, nonce, keyID, issuer.TokenKey(), blind, salt)
			c.Class("type2_withblind")
		} else {
			st, err = client.CreateTokenRequest(challenge, nonce, keyID, issuer.TokenKey())
		}
		if err != nil {
			bad("create-error", "CreateTokenRequest failed: "+err.Error(), nil)
			return
		}
		reqBytes := clone(st.Request().Marshal())
		dec := new(type2.BasicPublicTokenRequest)
		if i%3 == 2 {
			dec = c01Reuse2
			c.Class("decoder_object_reused")
		}
		if !dec.Unmarshal(clone(reqBytes)) {
			bad("request-undecodable", "issuer-side decoder rejected the client's request bytes", map[string]any{"request": core.Hex(reqBytes)})
			return
		}
		c.Class("request_decoded_by_issuer_side_decoder")
		if re := dec.Marshal(); !bytes.Equal(re, reqBytes) {
			bad("request-reencode", "decoded request re-encodes differently", map[string]any{"request": core.Hex(reqBytes)})
		}
		resp, err := issuer.Evaluate(dec)
		if err != nil {
			bad("evaluate-error", "Evaluate of the decoded request failed: "+err.Error(), map[string]any{"request": core.Hex(reqBytes)})
			return
		}
		tok, err := st.FinalizeToken(clone(resp))
		if err != nil {
			bad("finalize-error", "FinalizeToken failed: "+err.Error(), map[string]any{"response": core.Hex(resp)})
			return
		}
		if cls, d := checkTokenLayout(tok, 2, nonce, challenge, keyID, 256); cls != "" {
			bad(cls, "token is not type||nonce||SHA-256(challenge)||key id||authenticator(256)", d)
			return
		}
		if err := ref.VerifyRSAToken(&key.PublicKey, ref.TokenBytes(2, nonce, challenge, keyID, nil), tok.Authenticator); err != nil {
			bad("token-invalid", "authenticator is not an RSASSA-PSS(SHA-384, salt 48) signature of the token input: "+err.Error(), map[string]any{"token": core.Hex(tok.Marshal())})
			return
		}
		c.Class("type2_tokens_valid")
		c.Distinctf("t2:k%d:c%d:b%v", ki, len(challenge), withBlind)
		c.Sample("type2", map[string]any{"challenge_len": len(challenge), "request_len": len(reqBytes), "token_len": len(tok.Marshal())})
	})
	if pan {
		bad("panic:"+where, "panic: "+pv+" at "+where, nil)
	}
}

var c01BatchSizes = []int{1, 2, 3, 7, 8, 9, 31, 32, 33, 63, 64, 100}

func c01Type5(c *core.Ctx, i int, keys []*oprf.PrivateKey) {
	if !c.Next() {
		return
	}
	r := c.CaseRng()
	ki := i % len(keys)
	key := keys[ki]
	challenge := GenChallenge(r, (i/len(keys))%40)
	var nb int
	if i < 3*len(c01BatchSizes) {
		nb = c01BatchSizes[i%len(c01BatchSizes)]
	} else if i%97 == 0 {
		// the element list is 32n bytes: its varint length prefix changes width at n = 2 and n = 512
		nb = []int{511, 512, 513}[(i/97)%3]
	} else if i%6 == 4 && i/6 < 64 {
		// the list is 32n bytes long and its two-byte length prefix starts with the byte 0x40|(n>>3): one batch size for
		// every value of that byte ('@' .. 0x7f, which includes '{', '<', 'A'..'Z', 'a'..'z'), on the request and the response
		nb = 8*(i/6) + 3
		if nb < 2 {
			nb = 11
		}
		c.Class("type5_batch_sizes_for_every_prefix_byte")
	} else {
		nb = 1 + r.IntN(r.Of(4, 12, 40))
	}
	nonces := make([][]byte, nb)
	for j := range nonces {
		nonces[j] = GenNonce(r, 2+j)
	}
	if i%11 == 0 {
		nonces[0] = GenNonce(r, 0)
	}
	withBlind := i%2 == 1
	var blinds [][]byte
	if withBlind {
		for j := 0; j < nb; j++ {
			blinds = append(blinds, c01EdgeScalar(r, i/2+j, group.Ristretto255))
		}
	}
	if withBlind && nb >= 2 && i%13 == 5 {
		// the same nonce with the same blind twice in one batch: two equal blinded elements, two equal tokens
		nonces[nb-1], blinds[nb-1] = clone(nonces[0]), clone(blinds[0])
		c.Class("type5_batch_with_repeated_element")
	}
	if !withBlind && nb >= 3 && i%13 == 6 {
		// the same nonce several times with random blinds ({a, b, a}, the very same slice twice): distinct elements, one
		// valid token per entry, two of them for the same nonce
		nonces[nb-1] = clone(nonces[0])
		nonces[1] = nonces[0]
		c.Class("type5_batch_with_repeated_nonce")
	}
	c.Eval(1)
	c.Note(fmt.Sprintf("type5 flow key=%d clen=%d n=%d", ki, len(challenge), nb))
	bad := func(cls, what string, d map[string]any) {
		if d == nil {
			d = map[string]any{}
		}
		d["challenge"], d["batch_size"], d["key_index"], d["with_blinds"] = core.Hex(challenge), nb, ki, withBlind
		c.Violation("type5:"+cls, "type-5 honest issuance: "+what, d)
	}
	pan, pv, where := core.Guard(func() {
		issuer := type5.NewBatchedPrivateIssuer(key)
		keyID := issuer.TokenKeyID()
		client := type5.NewBatchedPrivateClient()
		var st type5.BatchedPrivateTokenRequestState
		var err error
		if withBlind {
			st, err = client.CreateTokenRequestWithBlinds(challenge, nonces, keyID, issuer.TokenKey(), blinds)
			c.Class("type5_withblinds")
		} else {
			st, err = client.CreateTokenRequest(challenge, nonces, keyID, issuer.TokenKey())
		}
		if err != nil {
			bad("create-error", "CreateTokenRequest failed: "+err.Error(), nil)
			return
		}
		reqBytes := clone(st.Request().Marshal())
		dec := new(type5.BatchedPrivateTokenRequest)
		if i%3 == 2 {
			dec = c01Reuse5
			c.Class("decoder_object_reused")
		}
		if !dec.Unmarshal(clone(reqBytes)) {
			bad("request-undecodable", "issuer-side decoder rejected the client's request bytes", map[string]any{"request": core.Hex(reqBytes)})
			return
		}
		c.Class("request_decoded_by_issuer_side_decoder")
		if re := dec.Marshal(); !bytes.Equal(re, reqBytes) {
			bad("request-reencode", "decoded request re-encodes differently", map[string]any{"request": core.Hex(reqBytes)})
		}
		resp, err := issuer.Evaluate(dec)
		if err != nil {
			bad("evaluate-error", "Evaluate of the decoded request failed: "+err.Error(), map[string]any{"request": core.Hex(reqBytes)})
			return
		}
		toks, err := st.FinalizeTokens(clone(resp))
		if err != nil {
			bad("finalize-error", "FinalizeTokens failed: "+err.Error(), map[string]any{"response": core.Hex(resp)})
			return
		}
		if len(toks) != nb {
			bad("token-count", fmt.Sprintf("%d tokens for %d nonces", len(toks), nb), nil)
			return
		}
		for j, tok := range toks {
			if cls, d := checkTokenLayout(tok, 5, nonces[j], challenge, keyID, 64); cls != "" {
				d["index"] = j
				bad(cls, "token is not type||nonce||SHA-256(challenge)||key id||authenticator(64)", d)
				return
			}
			want := RefVOPRF(oprf.SuiteRistretto255, key, ref.TokenBytes(5, nonces[j], challenge, keyID, nil))
			if !bytes.Equal(tok.Authenticator, want) {
				bad("token-invalid", "authenticator is not the VOPRF evaluation of the token input under the issuer key", map[string]any{"index": j, "token": core.Hex(tok.Marshal())})
				return
			}
			if err := issuer.Verify(tok); err != nil {
				bad("issuer-verify-disagrees", "Issuer.Verify rejects a token the reference accepts: "+err.Error(), map[string]any{"index": j})
				return
			}
		}
		c.ClassN("type5_tokens_valid", int64(nb))
		c.Distinctf("t5:k%d:c%d:n%d:b%v", ki, len(challenge), nb, withBlind)
		c.Sample("type5", map[string]any{"challenge_len": len(challenge), "batch_size": nb, "request_len": len(reqBytes), "response_len": len(resp)})
	})
	if pan {
		bad("panic:"+where, "panic: "+pv+" at "+where, nil)
	}
}

var c01OriginLens = []int{0, 1, 31, 32, 33, 63, 64, 65, 255, 256}

// OriginName returns an origin name of length n that does not end in 0x00.
func OriginName(r *core.Rand, n int) string {
	return string(alnum(r, n))
}

func c01Type3(c *core.Ctx, i int, keys []*rsa.PrivateKey) {
	if !c.Next() {
		return
	}
	r := c.CaseRng()
	ki := i % len(keys)
	key := keys[ki]
	challenge := GenChallenge(r, (i/len(keys))%60)
	nonce := GenNonce(r, i%7)
	var olen int
	if i < 4*len(c01OriginLens) {
		olen = c01OriginLens[i%len(c01OriginLens)]
	} else {
		olen = r.IntN(r.Of(40, 300, 2000))
	}
	origin := OriginName(r, olen)
	curve := elliptic.P384()
	secret := ScalarBytes(r, curve.Params().N, 48)
	blindKey := ScalarBytes(r, curve.Params().N, 48)
	if i%5 == 0 {
		// blind with leading zero bytes (same integer, shorter magnitude)
		blindKey[0], blindKey[1] = 0, 0
	}
	c.Eval(1)
	c.Note(fmt.Sprintf("type3 flow key=%d clen=%d olen=%d", ki, len(challenge), olen))
	bad := func(cls, what string, d map[string]any) {
		if d == nil {
			d = map[string]any{}
		}
		d["challenge"], d["nonce"], d["key_index"], d["origin"], d["client_secret"], d["blind_key"] = core.Hex(challenge), core.Hex(nonce), ki, origin, core.Hex(secret), core.Hex(blindKey)
		c.Violation("type3:"+cls, "type-3 honest issuance: "+what, d)
	}
	pan, pv, where := core.Guard(func() {
		issuer := type3.NewRateLimitedIssuer(key)
		// decoys, incl. near misses
		issuer.AddOrigin(origin + "x")
		issuer.AddOrigin("decoy.example")
		if olen > 0 {
			issuer.AddOrigin(origin[:olen-1])
		}
		if err := issuer.AddOrigin(origin); err != nil {
			bad("setup", "AddOrigin failed: "+err.Error(), nil)
			return
		}
		keyID := issuer.TokenKeyID()
		client := type3.NewRateLimitedClientFromSecret(secret)
		st, err := client.CreateTokenRequest(challenge, nonce, blindKey, keyID, issuer.TokenKey(), origin, issuer.NameKey())
		if err != nil {
			bad("create-error", "CreateTokenRequest failed: "+err.Error(), nil)
			return
		}
		reqBytes := clone(st.Request().Marshal())
		dec := new(type3.RateLimitedTokenRequest)
		if !dec.Unmarshal(clone(reqBytes)) {
			bad("request-undecodable", "issuer-side decoder rejected the client's request bytes", map[string]any{"request": core.Hex(reqBytes)})
			return
		}
		c.Class("request_decoded_by_issuer_side_decoder")
		if re := dec.Marshal(); !bytes.Equal(re, reqBytes) {
			bad("request-reencode", "decoded request re-encodes differently", map[string]any{"request": core.Hex(reqBytes)})
		}
		resp, _, err := issuer.Evaluate(clone(reqBytes))
		if err != nil {
			bad("evaluate-error", "Evaluate of the request bytes failed: "+err.Error(), map[string]any{"request": core.Hex(reqBytes)})
			return
		}
		tok, err := st.FinalizeToken(clone(resp))
		if err != nil {
			bad("finalize-error", "FinalizeToken failed: "+err.Error(), map[string]any{"response": core.Hex(resp)})
			return
		}
		if cls, d := checkTokenLayout(tok, 3, nonce, challenge, keyID, 256); cls != "" {
			bad(cls, "token is not type||nonce||SHA-256(challenge)||key id||authenticator(256)", d)
			return
		}
		if err := ref.VerifyRSAToken(&key.PublicKey, ref.TokenBytes(3, nonce, challenge, keyID, nil), tok.Authenticator); err != nil {
			bad("token-invalid", "authenticator is not an RSASSA-PSS(SHA-384, salt 48) signature of the token input: "+err.Error(), map[string]any{"token": core.Hex(tok.Marshal())})
			return
		}
		c.Class("type3_tokens_valid")
		c.Distinctf("t3:k%d:c%d:o%d", ki, len(challenge), olen)
		c.Sample("type3", map[string]any{"challenge_len": len(challenge), "origin_len": olen, "request_len": len(reqBytes), "response_len": len(resp)})
	})
	if pan {
		bad("panic:"+where, "panic: "+pv+" at "+where, nil)
	}
}
