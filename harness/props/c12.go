package props

import (
	"crypto/elliptic"
	"fmt"
	"math/big"

	"github.com/cloudflare/pat-go/ecdsa"

	"verifharness/internal/core"
	"verifharness/internal/ref"
)

func init() {
	core.Register(&core.Prop{
		ID:    "C12",
		Level: "exploration",
		Rule: "P-224/P-256/P-384/P-521 x seeded signing keys x blind keys {seeded, 1, 2, N-1, N+1, 2N+5, 2^(8len)-1, leading-zero padded} x contexts {nil, empty, 1 byte, \"ClientBlind\"-style, 300 bytes} x digests of length 0..128. " +
			"Oracle: BlindPublicKeyWithContext == k*pk with k = hash_to_field(XMD, curve hash, DST \"ECDSA Key Blind\") of minimal-big-endian(D)||0x00||ctx recomputed by the reference (own XMD, std curve); Unblind(Blind(pk)) == pk == Blind(Unblind(pk)); two blindings commute; a BlindKeySignWithContext signature verifies under k*pk with this package's Verify and with crypto/ecdsa.Verify and under pk with neither; another blind or another context gives another key; leading-zero encodings of a blind key behave like the stripped form. Histories: 14 consecutive calls over related (blind key, context) pairs (boundary between them shifted by one byte either way, repeated pair, one bit changed, nil/empty context) with the context in one buffer refilled in place and one public-key object updated in place, each result compared with the stateless reference. " +
			"distinct_nontrivial = distinct (curve, blind class, context length, digest length)",
		Floors:      []string{"blind_equals_reference", "unblind_inverts", "commutes", "signature_verifies_both", "signature_fails_under_unblinded", "blind_separation", "context_separation", "P-224", "P-256", "P-384", "P-521", "edge_blind_keys", "history_calls_agree_with_reference", "blind_key_object_of_another_curve"},
		Assumptions: []string{"a blind key is the integer D (minimal big-endian bytes); the per-curve (hash, L) table is the one of the key-blinding derivation: (SHA-256,32), (SHA-256,48), (SHA-384,72), (SHA-512,98)"},
		Run:         runC12,
	})
}

func c12Curves() []elliptic.Curve {
	return []elliptic.Curve{elliptic.P224(), elliptic.P256(), elliptic.P384(), elliptic.P521()}
}

func c12BlindKey(r *core.Rand, curve elliptic.Curve, j int) ([]byte, string) {
	N := curve.Params().N
	w := (N.BitLen() + 7) / 8
	switch j % 10 {
	case 0:
		return []byte{1}, "1"
	case 1:
		return []byte{2}, "2"
	case 2:
		return new(big.Int).Sub(N, big.NewInt(1)).Bytes(), "N-1"
	case 3:
		return new(big.Int).Add(N, big.NewInt(1)).Bytes(), "N+1"
	case 4:
		x := new(big.Int).Lsh(N, 1)
		return x.Add(x, big.NewInt(5)).Bytes(), "2N+5"
	case 5:
		b := make([]byte, w)
		for i := range b {
			b[i] = 0xff
		}
		return b, "2^(8len)-1"
	case 6:
		return append([]byte{0, 0, 0}, ScalarBytes(r, N, w)...), "leading-zero-padded"
	case 7:
		b := ScalarBytes(r, N, w)
		b[0] = 0 // top byte zero: fixed-width and minimal encodings differ
		return b, "top-byte-zero"
	}
	return ScalarBytes(r, N, w), "seeded"
}

var c12DigestLens = []int{0, 1, 20, 28, 32, 48, 64, 66, 128}

// c12History: consecutive calls over RELATED (blind key, context) pairs - the boundary between blind and context
// shifted by one byte, the same pair again, one byte changed - with the context handed over in one buffer that the
// caller refills in place between calls, and with one public-key object whose coordinates are updated in place.
// Every result is compared with the (stateless) reference, so anything remembered from an earlier call shows.
func c12History(c *core.Ctx, curve elliptic.Curve, r *core.Rand, tag string) {
	name := curve.Params().Name
	N := curve.Params().N
	w := (N.BitLen() + 7) / 8
	b := ScalarBytes(r, N, w)
	b[0] |= 0x10
	if b[w-1] == 0 {
		b[w-1] = 7
	}
	cx := append([]byte{0x44}, "ctx"...)
	type pair struct{ blind, ctx []byte }
	pool := []pair{
		{b, cx}, {append(clone(b), cx[0]), cx[1:]}, {b[:w-1], append([]byte{b[w-1]}, cx...)}, {b, cx},
		{b, append(clone(cx), 0)}, {b, nil}, {b, []byte{}}, {b[:w-1], cx}, {append(clone(b), 0), cx}, {b, append([]byte{0}, cx...)},
		{b, flipBit(cx, 3)}, {flipBit(b, 8*w-1), cx},
	}
	for k := 0; k < 3; k++ {
		pool = append(pool, pair{b, []byte(SpecialStrings[r.IntN(len(SpecialStrings))])})
	}
	sks := [][]byte{ScalarBytes(r, N, w), ScalarBytes(r, N, w)}
	ctxBuf := make([]byte, 0, 64)
	pkObj := &ecdsa.PublicKey{Curve: curve, X: new(big.Int), Y: new(big.Int)}
	var trace []string
	onlyBlind := len(tag) > 0 && (tag[len(tag)-1]-'0')%2 == 1
	steps := 14
	for step := 0; step < steps; step++ {
		pi := r.IntN(len(pool))
		if step < len(pool) && r.Coin(2) {
			pi = step // walk the pool in order half of the time (the related pairs are neighbours)
		}
		p := pool[pi]
		ski := r.IntN(2)
		trace = append(trace, fmt.Sprintf("pair%d/key%d", pi, ski))
		var ctx []byte
		if p.ctx != nil {
			ctxBuf = append(ctxBuf[:0], p.ctx...) // same storage, new contents
			ctx = ctxBuf
		}
		c.Eval(1)
		d := map[string]any{"curve": name, "calls_so_far": clone2(trace), "blind_key": core.Hex(p.blind), "context": core.Hex(p.ctx), "signing_key": core.Hex(sks[ski]), "tag": tag}
		bad := func(cls, what string) {
			c.Violation(name+":history:"+cls, "ECDSA key blinding on "+name+" (consecutive related calls): "+what, d)
		}
		stop := false
		pan, pv, where := core.Guard(func() {
			px, py := ref.ECBaseMul(curve, new(big.Int).SetBytes(sks[ski]))
			pkObj.X.Set(px) // one key object, updated in place
			pkObj.Y.Set(py)
			skS, err := ecdsa.CreateKey(curve, sks[ski])
			must(err)
			skB, err := ecdsa.CreateKey(curve, p.blind)
			must(err)
			k := ref.ECDSABlindScalar(curve, new(big.Int).SetBytes(p.blind), p.ctx)
			wx, wy := ref.ECMul(curve, px, py, k)
			bpk, err := ecdsa.BlindPublicKeyWithContext(curve, pkObj, skB, ctx)
			if err != nil || bpk.X.Cmp(wx) != 0 || bpk.Y.Cmp(wy) != 0 {
				bad("blind-differs-from-reference", "BlindPublicKeyWithContext is not pk multiplied by hash_to_field(blind key || 0x00 || context) after the calls made before it")
				stop = true
				return
			}
			if onlyBlind {
				return // nothing else between two blinding calls
			}
			upk, err := ecdsa.UnblindPublicKeyWithContext(curve, bpk, skB, ctx)
			if err != nil || upk.X.Cmp(px) != 0 || upk.Y.Cmp(py) != 0 {
				bad("unblind-does-not-invert", "Unblind(Blind(pk)) != pk after the calls made before it")
				stop = true
				return
			}
			digest := r.Bytes(32)
			rr, ss, err := ecdsa.BlindKeySignWithContext(r, skS, skB, digest, ctx)
			if err != nil || !stdECDSAVerify(curve, wx, wy, digest, rr, ss) {
				bad("signature-does-not-verify", "a blinded-key signature does not verify under the reference's blinded key after the calls made before it")
				stop = true
				return
			}
			if p.ctx != nil && !bytesEq(ctxBuf, p.ctx) {
				bad("context-buffer-written", "the caller's context buffer was modified")
				stop = true
			}
		})
		if pan {
			bad("panic:"+where, "panic: "+pv)
			return
		}
		if stop {
			return
		}
		c.Class("history_calls_agree_with_reference")
	}
	c.Distinctf("%s:history:%s", name, tag)
}

func clone2(s []string) []string { return append([]string{}, s...) }

func bytesEq(a, b []byte) bool { return string(a) == string(b) }

func runC12(c *core.Ctx) {
	for _, curve := range c12Curves() {
		for h := 0; h < c.Pick(12, 400); h++ {
			if c.Next() {
				c12History(c, curve, c.CaseRng(), fmt.Sprint(h))
			}
		}
	}
	n := c.Pick(200, 20000)
	for _, curve := range c12Curves() {
		name := curve.Params().Name
		N := curve.Params().N
		w := (N.BitLen() + 7) / 8
		for i := 0; i < n; i++ {
			if !c.Next() {
				continue
			}
			r := c.CaseRng()
			skBytes := ScalarBytes(r, N, w)
			bkBytes, bclass := c12BlindKey(r, curve, i)
			bk2Bytes, _ := c12BlindKey(r, curve, 8+i%2)
			var ctx []byte
			switch (i / 10) % 5 {
			case 0:
				ctx = nil
			case 1:
				ctx = []byte{}
			case 2:
				ctx = r.Bytes(1)
			case 3:
				ctx = append([]byte{0, 3}, "ClientBlind"...)
			case 4:
				ctx = r.Bytes(300)
			}
			if i%8 == 3 {
				// blind-key bytes || 0x00 || context of exactly 2^k bytes, one less, one more
				bl := len(new(big.Int).SetBytes(bkBytes).Bytes())
				total := []int{64, 128, 255, 256, 512, 1023, 1024, 1025, 2048, 4096}[(i/8)%10]
				if n := total - bl - 1 + (i/80)%3 - 1; n >= 0 {
					ctx = r.Bytes(n)
					c.Class("context_fills_power_of_two_input")
				}
			}
			dl := c12DigestLens[(i/50)%len(c12DigestLens)]
			if i%7 == 6 {
				dl = r.IntN(129)
			}
			digest := r.Bytes(dl)
			c.Eval(1)
			c.Note(fmt.Sprintf("%s blind=%s ctx=%d digest=%d", name, bclass, len(ctx), dl))
			d := map[string]any{"curve": name, "signing_key": core.Hex(skBytes), "blind_key": core.Hex(bkBytes), "blind_class": bclass, "context": core.Hex(ctx), "digest": core.Hex(digest)}
			bad := func(cls, what string) { c.Violation(name+":"+cls, "ECDSA key blinding on "+name+": "+what, d) }
			pan, pv, where := core.Guard(func() {
				skS, err := ecdsa.CreateKey(curve, skBytes)
				must(err)
				skB, err := ecdsa.CreateKey(curve, bkBytes)
				must(err)
				if i%6 == 5 {
					// the same integer in a key object that was made for ANOTHER curve (a caller keeping one blind key for several
					// curves): the blind key is the integer D, the curve is the operation's
					oc := c12Curves()[(i/6+1)%4]
					if oc.Params().Name == name {
						oc = c12Curves()[(i/6+2)%4]
					}
					skB, err = ecdsa.CreateKey(oc, bkBytes)
					must(err)
					c.Class("blind_key_object_of_another_curve")
				}
				skB2, err := ecdsa.CreateKey(curve, bk2Bytes)
				must(err)
				pk := &skS.PublicKey
				// reference
				px, py := ref.ECBaseMul(curve, new(big.Int).SetBytes(skBytes))
				if px.Cmp(pk.X) != 0 || py.Cmp(pk.Y) != 0 {
					bad("public-key", "CreateKey's public key differs from D*G")
					return
				}
				k := ref.ECDSABlindScalar(curve, new(big.Int).SetBytes(bkBytes), ctx)
				wx, wy := ref.ECMul(curve, px, py, k)
				// (a)
				bpk, err := ecdsa.BlindPublicKeyWithContext(curve, pk, skB, ctx)
				if err != nil {
					bad("blind-error", err.Error())
					return
				}
				if bpk.X.Cmp(wx) != 0 || bpk.Y.Cmp(wy) != 0 {
					d["got"], d["want"] = bpk.X.Text(16), wx.Text(16)
					bad("blind-differs-from-reference", "BlindPublicKeyWithContext is not pk multiplied by hash_to_field(blind key || 0x00 || context)")
					return
				}
				c.Class("blind_equals_reference")
				// leading-zero encodings: same key
				skBz, _ := ecdsa.CreateKey(curve, append([]byte{0, 0}, bkBytes...))
				bz, err := ecdsa.BlindPublicKeyWithContext(curve, pk, skBz, ctx)
				if err != nil || bz.X.Cmp(bpk.X) != 0 || bz.Y.Cmp(bpk.Y) != 0 {
					bad("leading-zero-encoding-differs", "a blind key with leading zero bytes blinds differently from its stripped form")
					return
				}
				// (b)
				upk, err := ecdsa.UnblindPublicKeyWithContext(curve, bpk, skB, ctx)
				if err != nil || upk.X.Cmp(pk.X) != 0 || upk.Y.Cmp(pk.Y) != 0 {
					bad("unblind-does-not-invert", "Unblind(Blind(pk)) != pk")
					return
				}
				u2, err := ecdsa.UnblindPublicKeyWithContext(curve, pk, skB, ctx)
				if err != nil {
					bad("unblind-error", err.Error())
					return
				}
				b2, err := ecdsa.BlindPublicKeyWithContext(curve, u2, skB, ctx)
				if err != nil || b2.X.Cmp(pk.X) != 0 || b2.Y.Cmp(pk.Y) != 0 {
					bad("blind-does-not-invert-unblind", "Blind(Unblind(pk)) != pk")
					return
				}
				c.Class("unblind_inverts")
				// (c)
				ab, err1 := ecdsa.BlindPublicKeyWithContext(curve, bpk, skB2, ctx)
				tmp, err2 := ecdsa.BlindPublicKeyWithContext(curve, pk, skB2, ctx)
				if err1 != nil || err2 != nil {
					bad("blind-error", "second blinding failed")
					return
				}
				ba, err := ecdsa.BlindPublicKeyWithContext(curve, tmp, skB, ctx)
				if err != nil || ab.X.Cmp(ba.X) != 0 || ab.Y.Cmp(ba.Y) != 0 {
					bad("does-not-commute", "blinding with two blinds depends on the order")
					return
				}
				c.Class("commutes")
				// (d)
				rr, ss, err := ecdsa.BlindKeySignWithContext(r, skS, skB, digest, ctx)
				if err != nil {
					bad("sign-error", err.Error())
					return
				}
				d["r"], d["s"] = rr.Text(16), ss.Text(16)
				okFork := ecdsa.Verify(bpk, digest, rr, ss)
				okStd := stdECDSAVerify(curve, wx, wy, digest, rr, ss)
				if !okFork || !okStd {
					bad("signature-does-not-verify", fmt.Sprintf("a blinded-key signature does not verify under the blinded public key (this package: %v, crypto/ecdsa: %v)", okFork, okStd))
					return
				}
				c.Class("signature_verifies_both")
				if k.Cmp(big.NewInt(1)) != 0 {
					if ecdsa.Verify(pk, digest, rr, ss) || stdECDSAVerify(curve, px, py, digest, rr, ss) {
						bad("signature-verifies-under-unblinded-key", "a blinded-key signature verifies under the unblinded public key")
						return
					}
					c.Class("signature_fails_under_unblinded")
				}
				// plain BlindKeySign / BlindPublicKey use the empty context
				if ctx == nil {
					p0, err := ecdsa.BlindPublicKey(curve, pk, skB)
					if err != nil || p0.X.Cmp(wx) != 0 {
						bad("no-context-entry-point-differs", "BlindPublicKey differs from BlindPublicKeyWithContext(nil)")
						return
					}
					r0, s0, err := ecdsa.BlindKeySign(r, skS, skB, digest)
					if err != nil || !stdECDSAVerify(curve, wx, wy, digest, r0, s0) {
						bad("no-context-sign-differs", "BlindKeySign does not verify under BlindPublicKey")
						return
					}
					u0, err := ecdsa.UnblindPublicKey(curve, p0, skB)
					if err != nil || u0.X.Cmp(pk.X) != 0 {
						bad("no-context-unblind-differs", "UnblindPublicKey does not invert BlindPublicKey")
						return
					}
				}
				// (e)
				if new(big.Int).SetBytes(bk2Bytes).Cmp(new(big.Int).SetBytes(bkBytes)) != 0 {
					if tmp.X.Cmp(bpk.X) == 0 && tmp.Y.Cmp(bpk.Y) == 0 {
						bad("blind-ignored", "two different blind keys give the same blinded key")
						return
					}
					c.Class("blind_separation")
				}
				for _, ctx2 := range [][]byte{append(clone(ctx), 0), append(clone(ctx), 'x'), {0xff}} {
					if string(ctx2) == string(ctx) {
						continue
					}
					o, err := ecdsa.BlindPublicKeyWithContext(curve, pk, skB, ctx2)
					if err != nil || (o.X.Cmp(bpk.X) == 0 && o.Y.Cmp(bpk.Y) == 0) {
						d["other_context"] = core.Hex(ctx2)
						bad("context-ignored", "two different contexts give the same blinded key")
						return
					}
					// and the signing side must use the context too
					if ecdsa.Verify(o, digest, rr, ss) {
						bad("context-ignored-in-signing", "a signature made under one context verifies under the key blinded with another")
						return
					}
				}
				c.Class("context_separation")
				c.Class(name)
				if bclass != "seeded" {
					c.Class("edge_blind_keys")
				}
				if new(big.Int).SetBytes(bkBytes).BitLen() <= 8*(w-1) {
					c.Class("info_blind_key_shorter_than_fixed_width")
				}
				c.Distinctf("%s:%s:ctx%d:d%d", name, bclass, len(ctx), dl)
				if i < 2 {
					c.Sample(name, map[string]any{"blind_class": bclass, "context_len": len(ctx), "digest_len": dl, "blinded_x": wx.Text(16)})
				}
			})
			if pan {
				d["panic"] = pv
				bad("panic:"+where, "panic: "+pv)
			}
		}
	}
}
