package props

import (
	"bytes"
	"crypto/elliptic"
	"crypto/sha256"
	"crypto/sha512"
	"encoding/base64"
	"encoding/hex"
	"fmt"
	"math/big"
	"reflect"
	"strings"

	"github.com/cloudflare/pat-go/tokens/type3"

	"verifharness/internal/core"
	"verifharness/internal/ref"
)

func init() {
	core.Register(&core.Prop{
		ID:    "C09",
		Level: "exploration",
		Rule: "sequential histories of attester calls replayed step by step against an executable model (verified set + per-client map issuer-origin-ID -> anonymous-origin-ID): operations Verify(c, honest), Verify(c, invalid), Finalize(c, issuer ID j, anonymous ID k). " +
			"Every history of length <= 4 (quick) / <= 5 (thorough) over 2 clients x 2 issuer IDs x 2 anonymous IDs (14 operations: honest verify, verify with an invalid signature, verify of another client's correctly signed request, 4 finalizations per client) is enumerated, every history of length <= 5 / <= 6 over a second set of 7 operations that includes FinalizeIndex under client key bytes no request was verified for (the uncompressed SEC1 encoding of a verified client's point: must be refused and leave no state), plus seeded histories of length 200 over 3 clients x 5 x 5 (every other one, and one more exhaustive family, with all client-key arguments handed over in one buffer refilled in place), plus one history that binds 1100 / 4200 distinct issuer IDs for one client with refused conflicts and repeated verifications in between. Issuer IDs are realised without an issuer by handing in ref-blinded fixed points. " +
			"Oracle at every step: accept/reject as the model says, returned ID = reference HKDF, and the hook snapshot of the client's binding map equals the model's (so a rejected call that overwrote a binding is seen even if no later call probes it). " +
			"distinct_nontrivial = histories containing a rejection followed by a later acceptance for the same client",
		Floors:      []string{"histories_with_anonymous_ids_that_spell_each_other", "histories_with_anonymous_ids_equal_to_index_bytes", "steps_checked", "finalize_accept_new", "finalize_accept_repeat", "finalize_reject_conflict", "finalize_reject_unknown_client", "finalize_reject_unverified_encoding_of_verified_point", "verify_reject_invalid", "snapshot_equal_model", "histories", "histories_with_client_key_buffer_reused_in_place", "flood_history_of_one_client"},
		Assumptions: []string{"histories are sequential (the statement is over sequences); the per-client state is observed through the verif-tagged VerifSnapshot hook"},
		Run:         runC09,
	})
}

type c09Op struct {
	kind   int // 0 verify honest, 1 verify invalid signature, 2 finalize, 3 verify: valid signature by another client's key (key mismatch), 4 finalize under a client key byte string that was never verified (uncompressed SEC1 form of a client's point)
	client int
	j, k   int
}

func (o c09Op) String() string {
	switch o.kind {
	case 0:
		return fmt.Sprintf("Verify(c%d)", o.client)
	case 1:
		return fmt.Sprintf("VerifyInvalid(c%d)", o.client)
	case 3:
		return fmt.Sprintf("VerifyForeignRequest(c%d)", o.client)
	case 4:
		return fmt.Sprintf("FinalizeUnverifiedKeyBytes(uncompressed(c%d),idx%d,anon%d)", o.client, o.j, o.k)
	}
	return fmt.Sprintf("Finalize(c%d,idx%d,anon%d)", o.client, o.j, o.k)
}

type c09World struct {
	c         *core.Ctx
	clientKey [][]byte
	altKey    [][]byte // the same point in uncompressed SEC1 form: a byte string no request was ever verified for
	blind     [][]byte
	honest    []type3.RateLimitedTokenRequest
	invalid   []type3.RateLimitedTokenRequest
	brk       [][][]byte // [client][j]
	index     [][][]byte // [client][j] reference ID
	anon      [][]byte
	// sharedKeyBuf: when set, every client-key argument is handed over in this one buffer, refilled in place before each
	// call (a server that reads each request's client key into the same receive buffer)
	sharedKeyBuf []byte
}

// keyArg returns the client-key argument for a call.
func (w *c09World) keyArg(k []byte) []byte {
	if w.sharedKeyBuf == nil {
		return k
	}
	w.sharedKeyBuf = append(w.sharedKeyBuf[:0], k...)
	return w.sharedKeyBuf
}

func newC09World(c *core.Ctx, nClients, nIdx, nAnon int) *c09World {
	curve := elliptic.P384()
	N := curve.Params().N
	r := c.Rng("world")
	w := &c09World{c: c}
	// fixed points P_j
	var px, py []*big.Int
	for j := 0; j < nIdx; j++ {
		x, y := ref.ECBaseMul(curve, new(big.Int).SetBytes(r.Bytes(40)))
		px, py = append(px, x), append(py, y)
	}
	for k := 0; k < nAnon; k++ {
		if k == 0 {
			// the first anonymous origin ID is the empty byte string: a binding to it is a binding like any other
			w.anon = append(w.anon, []byte{})
			continue
		}
		switch {
		case nAnon >= 5 && k == 2:
			// a long anonymous origin ID ...
			w.anon = append(w.anon, bytes.Repeat([]byte("long-anonymous-origin-id/"), 5))
		case nAnon >= 5 && k == 3:
			// ... and the SHA-384 digest of it, which is a DIFFERENT ID
			h := sha512.Sum384(w.anon[2])
			w.anon = append(w.anon, h[:])
		case nAnon >= 5 && k == 4:
			h := sha256.Sum256(w.anon[2])
			w.anon = append(w.anon, h[:])
		default:
			w.anon = append(w.anon, []byte(fmt.Sprintf("anon-origin-%d", k)))
		}
	}
	for ci := 0; ci < nClients; ci++ {
		h := c06MkHonest(r, ScalarBytes(r, N, 48), ScalarBytes(r, N, 48), 64)
		w.clientKey = append(w.clientKey, h.signer.ClientKeyEnc)
		if ax, ay, ok := ref.ECDecompress(curve, h.signer.ClientKeyEnc); ok {
			w.altKey = append(w.altKey, elliptic.Marshal(curve, ax, ay))
		} else {
			w.altKey = append(w.altKey, append([]byte{4}, h.signer.ClientKeyEnc[1:]...))
		}
		w.blind = append(w.blind, h.blind)
		w.honest = append(w.honest, h.request())
		inv := h.request()
		inv.Signature[95] ^= 1
		w.invalid = append(w.invalid, inv)
		var brks, idxs [][]byte
		for j := 0; j < nIdx; j++ {
			bx, by := ref.ECDSABlindPublic(curve, px[j], py[j], new(big.Int).SetBytes(h.blind), t3Ctx("ClientBlind"))
			brks = append(brks, ref.ECCompress(curve, bx, by))
			idxs = append(idxs, ref.IssuerOriginAlias(h.signer.ClientKeyEnc, ref.ECCompress(curve, px[j], py[j])))
		}
		w.brk = append(w.brk, brks)
		w.index = append(w.index, idxs)
	}
	return w
}

// replay runs one history against a fresh attester and the model.
func (w *c09World) replay(hist []c09Op, tag string) {
	c := w.c
	cache := newMemCache()
	att := type3.NewRateLimitedAttester(cache)
	verified := map[int]bool{}
	bind := map[int]map[int]int{}
	rejectedClients := map[int]bool{}
	nontrivial := false
	histStr := func(n int) []string {
		var s []string
		for _, o := range hist[:n+1] {
			s = append(s, o.String())
		}
		return s
	}
	for step, op := range hist {
		c.Eval(1)
		bad := func(cls, what string) {
			c.Violation("history:"+cls, "attester bookkeeping: "+what, map[string]any{"history": histStr(step), "step": step, "operation": op.String(), "tag": tag})
		}
		ck := w.clientKey[op.client]
		id := hex.EncodeToString(ck)
		switch op.kind {
		case 0, 1, 3:
			req := w.honest[op.client]
			if op.kind == 1 {
				req = w.invalid[op.client]
			}
			if op.kind == 3 {
				// a correctly signed request of another client, presented for this client's key
				req = w.honest[(op.client+1)%len(w.honest)]
			}
			var err error
			pan, pv, _ := core.Guard(func() { err = att.VerifyRequest(req, w.blind[op.client], w.keyArg(ck), w.anon[0]) })
			if pan {
				bad("panic", "VerifyRequest panicked: "+pv)
				return
			}
			if op.kind == 0 {
				if err != nil {
					bad("verify-rejected-honest", "VerifyRequest rejected an honest request: "+err.Error())
					return
				}
				verified[op.client] = true
				if bind[op.client] == nil {
					bind[op.client] = map[int]int{}
				}
			} else {
				if err == nil {
					bad("verify-accepted-invalid", "VerifyRequest accepted a request with an invalid signature")
					return
				}
				c.Class("verify_reject_invalid")
			}
		case 4:
			// the client is identified by the byte string a request was verified for; any other byte string - here
			// another encoding of the same point - is a client the attester has verified nothing for
			var err error
			pan, pv, _ := core.Guard(func() {
				_, err = att.FinalizeIndex(w.keyArg(w.altKey[op.client]), w.blind[op.client], w.brk[op.client][op.j], w.anon[op.k])
			})
			if pan {
				bad("panic", "FinalizeIndex panicked: "+pv)
				return
			}
			if err == nil {
				bad("unverified-key-bytes-served", "FinalizeIndex served client key bytes for which no request was ever verified (the uncompressed encoding of a verified client's point)")
				return
			}
			c.Class("finalize_reject_unknown_client")
			if verified[op.client] {
				c.Class("finalize_reject_unverified_encoding_of_verified_point")
				rejectedClients[op.client] = true
			}
			if _, ok := cache.m[hex.EncodeToString(w.altKey[op.client])]; ok {
				bad("state-for-unverified-client", "the cache holds state under client key bytes that were never verified")
				return
			}
		case 2:
			var idx []byte
			var err error
			pan, pv, _ := core.Guard(func() {
				idx, err = att.FinalizeIndex(w.keyArg(ck), w.blind[op.client], w.brk[op.client][op.j], w.anon[op.k])
			})
			if pan {
				bad("panic", "FinalizeIndex panicked: "+pv)
				return
			}
			switch {
			case !verified[op.client]:
				if err == nil {
					bad("unknown-client-accepted", "FinalizeIndex served a client for which no request was ever verified")
					return
				}
				c.Class("finalize_reject_unknown_client")
				rejectedClients[op.client] = true
			default:
				cur, bound := bind[op.client][op.j]
				switch {
				case !bound:
					if err != nil {
						bad("unbound-rejected", "FinalizeIndex rejected a pair whose issuer origin ID was still unbound: "+err.Error())
						return
					}
					bind[op.client][op.j] = op.k
					c.Class("finalize_accept_new")
					if rejectedClients[op.client] {
						nontrivial = true
					}
				case cur == op.k:
					if err != nil {
						bad("repeat-rejected", "FinalizeIndex rejected a repeat of an accepted pair: "+err.Error())
						return
					}
					c.Class("finalize_accept_repeat")
					if rejectedClients[op.client] {
						nontrivial = true
					}
				default:
					if err == nil {
						bad("conflict-accepted", "FinalizeIndex accepted a second anonymous origin ID for an issuer origin ID that is already bound")
						return
					}
					c.Class("finalize_reject_conflict")
					rejectedClients[op.client] = true
				}
				if err == nil && !bytes.Equal(idx, w.index[op.client][op.j]) {
					bad("wrong-index", "FinalizeIndex returned an ID that differs from the reference HKDF")
					return
				}
			}
		}
		// state comparison for every client after every step
		for ci := range w.clientKey {
			st, ok := cache.m[hex.EncodeToString(w.clientKey[ci])]
			if ok != verified[ci] {
				if ok {
					bad("state-for-unverified-client", fmt.Sprintf("client c%d has state in the cache although none of its requests was verified", ci))
				} else {
					bad("no-state-for-verified-client", fmt.Sprintf("client c%d has no state although a request was verified", ci))
				}
				return
			}
			if !ok {
				continue
			}
			_, clientIdx := st.VerifSnapshot()
			want := map[string]string{}
			for j, k := range bind[ci] {
				want[hex.EncodeToString(w.index[ci][j])] = hex.EncodeToString(w.anon[k])
			}
			if !reflect.DeepEqual(clientIdx, want) {
				c.Violation("history:bindings-differ-from-model", "attester bookkeeping: the client's binding map differs from the model after this step (a rejected call must leave accepted bindings in force)",
					map[string]any{"history": histStr(step), "step": step, "operation": op.String(), "client": ci, "implementation": clientIdx, "model": want, "tag": tag})
				return
			}
		}
		_ = id
		c.Class("snapshot_equal_model")
		c.Class("steps_checked")
	}
	c.Class("histories")
	if nontrivial {
		c.Distinct(tag)
		// a full history with what the model holds at its end, as a sample of what was observed
		var hs []string
		for _, o := range hist {
			hs = append(hs, o.String())
		}
		if len(hs) > 16 {
			hs = append(hs[:16], fmt.Sprintf("... (%d operations)", len(hist)))
		}
		c.Sample("history with a rejection followed by a later acceptance (all steps agreed with the model)", map[string]any{"operations": hs, "verified_clients_at_end": len(verified), "bindings_at_end": fmt.Sprint(bind)})
	}
}

func runC09(c *core.Ctx) {
	// exhaustive short histories: 2 clients x 2 x 2
	w := newC09World(c, 2, 2, 2)
	var ops []c09Op
	for ci := 0; ci < 2; ci++ {
		ops = append(ops, c09Op{kind: 0, client: ci}, c09Op{kind: 1, client: ci}, c09Op{kind: 3, client: ci})
		for j := 0; j < 2; j++ {
			for k := 0; k < 2; k++ {
				ops = append(ops, c09Op{kind: 2, client: ci, j: j, k: k})
			}
		}
	}
	L := c.Pick(4, 5)
	const chunk = 48
	for l := 1; l <= L; l++ {
		total := 1
		for i := 0; i < l; i++ {
			total *= len(ops)
		}
		for lo := 0; lo < total; lo += chunk {
			if !c.Next() {
				continue
			}
			for x := lo; x < lo+chunk && x < total; x++ {
				hist := make([]c09Op, l)
				y := x
				for i := 0; i < l; i++ {
					hist[i] = ops[y%len(ops)]
					y /= len(ops)
				}
				w.replay(hist, fmt.Sprintf("exh:%d:%d", l, x))
			}
			if lo == 0 && l == L {
				c.Sample("exhaustive history chunk", map[string]any{"length": l, "first": fmt.Sprint(ops[0], ops[0], ops[0])})
			}
		}
	}
	c.Exhaustive(fmt.Sprintf("all %d-operation histories up to length %d", len(ops), L))
	// second exhaustive family around the unverified-encoding operation: 7 operations, every history up to length 5 / 6
	ops2 := []c09Op{{kind: 0, client: 0}, {kind: 4, client: 0, j: 0, k: 1}, {kind: 2, client: 0, j: 0, k: 0}, {kind: 2, client: 0, j: 0, k: 1}, {kind: 0, client: 1}, {kind: 4, client: 1, j: 0, k: 0}, {kind: 2, client: 1, j: 0, k: 0}}
	L2 := c.Pick(5, 6)
	for l := 1; l <= L2; l++ {
		total := 1
		for i := 0; i < l; i++ {
			total *= len(ops2)
		}
		for lo := 0; lo < total; lo += chunk {
			if !c.Next() {
				continue
			}
			for x := lo; x < lo+chunk && x < total; x++ {
				hist := make([]c09Op, l)
				y := x
				for i := 0; i < l; i++ {
					hist[i] = ops2[y%len(ops2)]
					y /= len(ops2)
				}
				w.replay(hist, fmt.Sprintf("exh2:%d:%d", l, x))
			}
		}
	}
	// exhaustive family 2 again with every client key handed over in one buffer that is refilled in place
	{
		w.sharedKeyBuf = make([]byte, 0, 128)
		L3 := c.Pick(4, 5)
		for l := 2; l <= L3; l++ {
			total := 1
			for i := 0; i < l; i++ {
				total *= len(ops2)
			}
			for lo := 0; lo < total; lo += chunk {
				if !c.Next() {
					continue
				}
				for x := lo; x < lo+chunk && x < total; x++ {
					hist := make([]c09Op, l)
					y := x
					for i := 0; i < l; i++ {
						hist[i] = ops2[y%len(ops2)]
						y /= len(ops2)
					}
					w.replay(hist, fmt.Sprintf("exh2-sharedbuf:%d:%d", l, x))
				}
				c.Class("histories_with_client_key_buffer_reused_in_place")
			}
		}
		w.sharedKeyBuf = nil
	}
	// one very long history for one client: more than a thousand distinct (issuer origin ID, anonymous origin ID)
	// bindings, interleaved with refused conflicting pairs and repeated verifications; afterwards every binding is still in
	// force (the model comparison after each step sees a state that was dropped or restarted)
	if c.Next() {
		nb := c.Pick(1100, 4200)
		wf := newC09World(c, 1, nb, nb)
		var hist []c09Op
		hist = append(hist, c09Op{kind: 0, client: 0})
		for j := 0; j < nb; j++ {
			hist = append(hist, c09Op{kind: 2, client: 0, j: j, k: j})
			if j%3 == 2 {
				hist = append(hist, c09Op{kind: 2, client: 0, j: j - 1, k: j}) // conflicting: refused
			}
			if j%257 == 256 || j == nb-1 {
				hist = append(hist, c09Op{kind: 0, client: 0}, c09Op{kind: 2, client: 0, j: 0, k: 0}, c09Op{kind: 2, client: 0, j: 1, k: 0})
			}
		}
		wf.replay(hist, "flood")
		c.Class("flood_history_of_one_client")
		c.Info("flood_history_bindings", nb)
	}
	// exhaustive short histories of one client whose anonymous origin IDs ARE the bytes of its own issuer origin IDs
	// (crosswise), and the hexadecimal spelling of one: the two directions of the binding live in separate name spaces
	{
		wa := newC09World(c, 1, 2, 3)
		wa.anon[0], wa.anon[1], wa.anon[2] = clone(wa.index[0][1]), clone(wa.index[0][0]), []byte(hex.EncodeToString(wa.index[0][0]))
		aops := []c09Op{{kind: 0, client: 0}}
		for j := 0; j < 2; j++ {
			for k := 0; k < 3; k++ {
				aops = append(aops, c09Op{kind: 2, client: 0, j: j, k: k})
			}
		}
		LA := c.Pick(4, 5)
		total := 1
		for i := 0; i < LA; i++ {
			total *= len(aops)
		}
		for lo := 0; lo < total; lo += 64 {
			if !c.Next() {
				continue
			}
			for x := lo; x < lo+64 && x < total; x++ {
				hist := make([]c09Op, LA)
				for i, y := 0, x; i < LA; i++ {
					hist[i] = aops[y%len(aops)]
					y /= len(aops)
				}
				wa.replay(hist, "anon-ids-equal-to-index-bytes")
				c.Class("histories_with_anonymous_ids_equal_to_index_bytes")
			}
		}
	}
	// the same for anonymous ids that are spellings of each other: four raw bytes, their lower- and upper-case hexadecimal
	// text, their base64 text - four DIFFERENT ids
	{
		wb := newC09World(c, 1, 2, 4)
		raw := []byte{0xde, 0xad, 0xbe, 0xef}
		wb.anon[0], wb.anon[1], wb.anon[2], wb.anon[3] = raw, []byte(hex.EncodeToString(raw)), []byte(strings.ToUpper(hex.EncodeToString(raw))), []byte(base64.StdEncoding.EncodeToString(raw))
		bops := []c09Op{{kind: 0, client: 0}}
		for j := 0; j < 2; j++ {
			for k := 0; k < 4; k++ {
				bops = append(bops, c09Op{kind: 2, client: 0, j: j, k: k})
			}
		}
		LB := c.Pick(4, 5)
		total := 1
		for i := 0; i < LB; i++ {
			total *= len(bops)
		}
		for lo := 0; lo < total; lo += 128 {
			if !c.Next() {
				continue
			}
			for x := lo; x < lo+128 && x < total; x++ {
				hist := make([]c09Op, LB)
				for i, y := 0, x; i < LB; i++ {
					hist[i] = bops[y%len(bops)]
					y /= len(bops)
				}
				wb.replay(hist, "anon-ids-spelling-each-other")
				c.Class("histories_with_anonymous_ids_that_spell_each_other")
			}
		}
	}
	// seeded long histories: 3 clients x 5 x 5
	w2 := newC09World(c, 3, 5, 5)
	n := c.Pick(50, 2000)
	for i := 0; i < n; i++ {
		if !c.Next() {
			continue
		}
		r := c.CaseRng()
		hist := make([]c09Op, 200)
		for s := range hist {
			ci := r.IntN(3)
			switch x := r.IntN(10); {
			case x == 0:
				hist[s] = c09Op{kind: 0, client: ci}
			case x == 1:
				hist[s] = c09Op{kind: 1 + 2*r.IntN(2), client: ci}
			case x == 2:
				hist[s] = c09Op{kind: 4, client: ci, j: r.IntN(5), k: r.IntN(5)}
			default:
				hist[s] = c09Op{kind: 2, client: ci, j: r.IntN(5), k: r.IntN(5)}
			}
		}
		if i%2 == 1 {
			w2.sharedKeyBuf = make([]byte, 0, 128)
			c.Class("histories_with_client_key_buffer_reused_in_place")
		} else {
			w2.sharedKeyBuf = nil
		}
		w2.replay(hist, fmt.Sprintf("long:%d", i))
		if i < 1 {
			var s []string
			for _, o := range hist[:12] {
				s = append(s, o.String())
			}
			c.Sample("seeded long history (first 12 of 200 operations)", s)
		}
	}
}
