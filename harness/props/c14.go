package props

import (
	"bytes"
	"crypto"
	stded "crypto/ed25519"
	"crypto/sha512"
	"fmt"
	"math/big"

	"github.com/cloudflare/pat-go/ed25519"

	"verifharness/internal/core"
	"verifharness/internal/ref"
)

func init() {
	core.Register(&core.Prop{
		ID:    "C14",
		Level: "fault_enumeration",
		Rule: "API-level differential against crypto/ed25519: NewKeyFromSeed, Sign, PrivateKey.Sign (bytes equal) for seeded seeds and messages of length 0..300 and 1 MiB; Verify verdicts on the cross product A in {honest, the 8 small-order points in canonical and non-canonical encodings, y not on the curve, y = p-1, p, p+1, 2^255-1, x = 0 with the sign bit} x R likewise x S in {honest, S+kL, L-1, L, 0, each of the top three bits}, every single-bit flip of an honest (A, msg, sig) triple, 63/65-byte signatures, forged small-order signatures (S = 0, R = -[k]A found by search); histories of 12..22 consecutive Verify calls over related inputs (a key and its negation with signatures valid under each, an invalid key encoding twice in a row signed with the previous key's scalar, one-bit neighbours, small-order keys, exact repeats) with key, message and signature in buffers refilled in place; valid signatures in special relations (R = A, -A, B, identity, 2A; A = B; message = key, = R, = protocol strings such as the RFC 8032 dom2 prefix); " +
			"GenerateKey under the same scripted entropy reader on both sides (fault position 0..33 x 4 chunkings, exhaustive): same outputs, same error, same bytes consumed. " +
			"Operation-level reference model through the verif-tagged hook: scalar reduction of 64 and 32 bytes, clamping, canonical check, MultiplyAdd/Add/Sub/Neg/Mul, the fork's own ModInverse, point decoding (accept set and value), ScalarMult, ScalarBaseMult, VarTimeDoubleScalarBaseMult, point Add/Sub/Neg, each compared with a math/big twisted-Edwards model on operands solved for a chosen result (64-byte inputs q*L + r with r at the top of [2^252, L) and q up to the maximum; inverses that are small or word-structured), on scalars made of repeated nibbles and of 32-bit words from {77777777, 77777778, 88888888, ffffffff, ...}, on limb-boundary operand patterns (21-bit and all 864 combinations of 64-bit limbs in {0, 1, 2^64-1, 2^63, 2^32-1, 2^63+1}), L-1, L, L+1, 2^252+-1, small-order and seeded points. " +
			"Field level (hooks VerifField*): Add/Subtract/Negate/Multiply/Square/Invert/Absolute/Pow22523/IsNegative/Equal/Mult32/Select/Swap/SqrtRatio and nine expressions with non-canonical intermediates against math/big modulo 2^255-19 on operands whose five 51-bit limbs are each one of {0, 1, 19, 2^50, 2^51-19, 2^51-2, 2^51-1} (every 7th of the 16807 patterns quick, all thorough), encodings p..p+18 with and without bit 255, seeded pairs. " +
			"distinct_nontrivial = distinct (case class, operand pattern) keys",
		Floors: []string{"keys_equal_std", "signatures_equal_std", "verify_agree_accept", "verify_agree_reject", "small_order_inputs", "noncanonical_inputs", "s_plus_L_inputs", "forged_small_order_accepted_by_both", "bitflips", "generatekey_same_as_std",
			"cold_start_verify_agrees", "identity_key_high_s", "hook_scalar_ops", "hook_point_decode", "hook_scalar_mult", "hook_modinverse", "model_agrees_with_std", "hook_limb_pattern_scalars", "hook_reduce_chosen_residue", "hook_modinverse_chosen_result", "hook_word_structured_scalars", "hook_field_limb_patterns", "hook_field_noncanonical", "hook_field_seeded", "history_verify_agree_accept", "history_verify_agree_reject", "special_relation_signatures", "special_string_messages", "generatekey_repeated_entropy_same_as_std", "key_slice_reused_signs_as_its_contents"},
		Assumptions: []string{"crypto/ed25519 of the Go toolchain that builds the harness is the reference", "the math/big model is cross-checked against crypto/ed25519 in the same run (class model_agrees_with_std)"},
		SelfCheck:   []string{"model_disagrees_with_std"},
		Run:         runC14,
	})
}

type c14 struct {
	c          *core.Ctx
	smallOrder []*ref.EdPoint
}

func (m *c14) verify(pub, msg, sig []byte, class string, useModel bool) {
	c := m.c
	c.Eval(1)
	var f, s bool
	panF, pvF, _ := core.Guard(func() { f = ed25519.Verify(ed25519.PublicKey(clone(pub)), clone(msg), clone(sig)) })
	panS, _, _ := core.Guard(func() { s = stded.Verify(stded.PublicKey(clone(pub)), clone(msg), clone(sig)) })
	d := map[string]any{"class": class, "public_key": core.Hex(pub), "message": core.Hex(msg), "signature": core.Hex(sig)}
	if panF {
		c.Violation("Verify:panic", "Verify panicked: "+pvF, d)
		return
	}
	if panS {
		c.Class("std_panicked_case_dropped")
		return
	}
	if f != s {
		c.Violation("Verify:disagrees:"+classKey(class), fmt.Sprintf("Verify returns %v, crypto/ed25519 returns %v (%s)", f, s, class), d)
		return
	}
	if f {
		c.Class("verify_agree_accept")
	} else {
		c.Class("verify_agree_reject")
	}
	if useModel {
		if mv := ref.EdVerifyModel(pub, msg, sig); mv != s {
			// the model disagrees with the standard library: the reference is wrong, not the code
			c.Class("model_disagrees_with_std")
			c.Info("model_disagreement_example", d)
		} else {
			c.Class("model_agrees_with_std")
		}
	}
	c.Distinctf("verify:%s:%v", classKey(class), f)
}

// encodings of a point: canonical, and non-canonical ones where they exist
func (m *c14) encodings(p *ref.EdPoint) [][]byte {
	out := [][]byte{ref.EdEncode(p)}
	// y + p fits in 255 bits only for y < 19
	if p.Y.Cmp(big.NewInt(19)) < 0 {
		y := new(big.Int).Add(p.Y, ref.EdP)
		b := make([]byte, 32)
		y.FillBytes(b)
		for i, j := 0, 31; i < j; i, j = i+1, j-1 {
			b[i], b[j] = b[j], b[i]
		}
		b[31] |= byte(p.X.Bit(0)) << 7
		out = append(out, b)
	}
	// x = 0 with the sign bit set
	if p.X.Sign() == 0 {
		for _, e := range append([][]byte{}, out...) {
			b := clone(e)
			b[31] |= 0x80
			out = append(out, b)
		}
	}
	return out
}

func (m *c14) findSmallOrder() {
	r := m.c.Rng("smallorder")
	seen := map[string]bool{}
	for len(m.smallOrder) < 8 {
		b := r.Bytes(32)
		q, ok := ref.EdDecode(b)
		if !ok {
			continue
		}
		p := ref.EdMul(ref.EdL, q)
		k := string(ref.EdEncode(p))
		if !seen[k] {
			seen[k] = true
			m.smallOrder = append(m.smallOrder, p)
		}
	}
}

func edOrder(p *ref.EdPoint) int {
	acc := ref.EdIdentity()
	for i := 1; i <= 8; i++ {
		acc = ref.EdAdd(acc, p)
		if ref.EdEqual(acc, ref.EdIdentity()) {
			return i
		}
	}
	return 0
}

func le32(x *big.Int) []byte {
	b := make([]byte, 32)
	new(big.Int).Mod(x, new(big.Int).Lsh(big.NewInt(1), 256)).FillBytes(b)
	for i, j := 0, 31; i < j; i, j = i+1, j-1 {
		b[i], b[j] = b[j], b[i]
	}
	return b
}

// RFC 8032 section 7.1, TEST 1 (empty message)
var rfc8032Test1 = [3]string{
	"d75a980182b10ab7d54bfed3c964073a0ee172f3daa62325af021a68f707511a",
	"",
	"e5564300c360ac729086e2cc806e828a84877f1eb8e5d974d873e065224901555fb8821590a33bacc61e39701cf9b46bd25bf5f0595bbe24655141438e7a100b",
}

func runC14(c *core.Ctx) {
	// the very first Ed25519 operation of this worker process is a verification (a verifier-only process):
	// it must give the standard library's verdict before any key was derived or anything signed here
	{
		pub, sig := unhex(rfc8032Test1[0]), unhex(rfc8032Test1[2])
		f := ed25519.Verify(ed25519.PublicKey(pub), nil, sig)
		s := stded.Verify(stded.PublicKey(pub), nil, sig)
		c.Eval(1)
		if f != s {
			c.Violation("Verify:cold-start", fmt.Sprintf("the first operation of a process, Verify of RFC 8032 TEST 1, returns %v; crypto/ed25519 returns %v", f, s), map[string]any{"public_key": rfc8032Test1[0], "signature": rfc8032Test1[2]})
		} else {
			c.Class("cold_start_verify_agrees")
		}
	}
	m := &c14{c: c}
	m.findSmallOrder()

	// ---------------- A. keys and signatures
	n := c.Pick(400, 60000)
	for i := 0; i < n; i++ {
		if !c.Next() {
			continue
		}
		r := c.CaseRng()
		seed := r.Bytes(32)
		switch i {
		case 0:
			seed = make([]byte, 32)
		case 1:
			seed = bytes.Repeat([]byte{0xff}, 32)
		}
		ml := i % 301
		if i == 7 {
			ml = 1 << 20
		}
		msg := r.Bytes(ml)
		c.Eval(3)
		d := map[string]any{"seed": core.Hex(seed), "message_len": ml}
		pan, pv, where := core.Guard(func() {
			fk := ed25519.NewKeyFromSeed(clone(seed))
			sk := stded.NewKeyFromSeed(clone(seed))
			if !bytes.Equal(fk, sk) || !bytes.Equal(fk.Public().(ed25519.PublicKey), sk.Public().(stded.PublicKey)) || !bytes.Equal(fk.Seed(), seed) {
				d["got"], d["want"] = core.Hex(fk), core.Hex(sk)
				c.Violation("NewKeyFromSeed:differs", "NewKeyFromSeed differs from crypto/ed25519", d)
				return
			}
			c.Class("keys_equal_std")
			fs := ed25519.Sign(fk, clone(msg))
			ss := stded.Sign(sk, clone(msg))
			fs2, err := fk.Sign(nil, clone(msg), crypto.Hash(0))
			if !bytes.Equal(fs, ss) || err != nil || !bytes.Equal(fs2, ss) {
				d["got"], d["want"], d["message"] = core.Hex(fs), core.Hex(ss), core.Hex(msg[:min(len(msg), 400)])
				c.Violation("Sign:differs", "Sign differs from crypto/ed25519", d)
				return
			}
			c.Class("signatures_equal_std")
			pub := []byte(sk[32:])
			m.verify(pub, msg, fs, "honest", i%64 == 0 && ml < 400)
			if i%64 == 0 {
				if !bytes.Equal(ref.EdPublicFromSeed(seed), pub) {
					c.Class("model_disagrees_with_std")
				} else {
					c.Class("model_agrees_with_std")
				}
			}
			c.Distinctf("sign:len%d", ml)
			if i < 2 {
				c.Sample("seed/message", map[string]any{"seed": core.Hex(seed), "message_len": ml, "signature": core.Hex(fs)})
			}
		})
		if pan {
			c.Violation("api:panic:"+where, "panic: "+pv, d)
		}
	}

	// ---------------- B. adversarial verification
	nAdv := c.Pick(6, 160)
	for ai := 0; ai < nAdv; ai++ {
		if !c.Next() {
			continue
		}
		r := c.CaseRng()
		seed := r.Bytes(32)
		sk := stded.NewKeyFromSeed(seed)
		pub := []byte(sk[32:])
		msg := r.Bytes(r.IntN(64))
		sig := stded.Sign(sk, msg)
		S := ref.EdScalarInt(sig[32:])
		// A candidates
		var As [][]byte
		As = append(As, pub)
		for _, p := range m.smallOrder {
			As = append(As, m.encodings(p)...)
		}
		pm1 := new(big.Int).Sub(ref.EdP, big.NewInt(1))
		for _, y := range []*big.Int{pm1, ref.EdP, new(big.Int).Add(ref.EdP, big.NewInt(1)), new(big.Int).Sub(new(big.Int).Lsh(big.NewInt(1), 255), big.NewInt(1)), big.NewInt(2), big.NewInt(3)} {
			b := le32(y)
			As = append(As, b)
			b2 := clone(b)
			b2[31] |= 0x80
			As = append(As, b2)
		}
		// a y that is not on the curve
		for {
			b := r.Bytes(32)
			if _, ok := ref.EdDecode(b); !ok {
				As = append(As, b)
				break
			}
		}
		Rs := append([][]byte{sig[:32]}, As[1:]...)
		// S candidates
		var Ss [][]byte
		Ss = append(Ss, sig[32:])
		two256 := new(big.Int).Lsh(big.NewInt(1), 256)
		for k := int64(1); ; k++ {
			v := new(big.Int).Add(S, new(big.Int).Mul(big.NewInt(k), ref.EdL))
			if v.Cmp(two256) >= 0 {
				break
			}
			Ss = append(Ss, le32(v))
		}
		Ss = append(Ss, le32(new(big.Int).Sub(ref.EdL, big.NewInt(1))), le32(ref.EdL), le32(big.NewInt(0)), le32(new(big.Int).Add(ref.EdL, big.NewInt(1))))
		for _, bit := range []byte{0x20, 0x40, 0x80} {
			b := clone(sig[32:])
			b[31] |= bit
			Ss = append(Ss, b)
		}
		for ia, A := range As {
			for ir, R := range Rs {
				for is, Sb := range Ss {
					if ia > 0 && ir > 0 && is > 3 && (ia+ir+is)%5 != 0 && !c.Thorough() {
						continue
					}
					s := append(clone(R), Sb...)
					cls := "cross"
					if ia > 0 || ir > 0 {
						c.Class("small_order_inputs")
					}
					if is > 0 && is < len(Ss)-7 {
						c.Class("s_plus_L_inputs")
						cls = "cross:S+kL"
					}
					if (ia > 0 && !bytes.Equal(A, canonicalOrSelf(A))) || (ir > 0 && !bytes.Equal(R, canonicalOrSelf(R))) {
						c.Class("noncanonical_inputs")
					}
					m.verify(A, msg, s, cls, (ia*31+ir*7+is)%97 == 0)
				}
			}
		}
		// bit flips of the honest triple (exhaustive)
		for bit := 0; bit < 256; bit++ {
			m.verify(flipBit(pub, bit), msg, sig, "bitflip:A", false)
			c.Class("bitflips")
		}
		for bit := 0; bit < 512; bit++ {
			m.verify(pub, msg, flipBit(sig, bit), "bitflip:sig", false)
			c.Class("bitflips")
		}
		for bit := 0; bit < len(msg)*8; bit++ {
			m.verify(pub, flipBit(msg, bit), sig, "bitflip:msg", false)
		}
		m.verify(pub, msg, sig[:63], "sig-63-bytes", false)
		m.verify(pub, msg, append(clone(sig), 0), "sig-65-bytes", false)
		m.verify(pub, msg, nil, "sig-empty", false)
		if ai == 0 {
			c.Sample("adversarial cross product", map[string]any{"A_candidates": len(As), "R_candidates": len(Rs), "S_candidates": len(Ss)})
			c.Exhaustive("single-bit flips of an honest (public key, message, signature) triple")
		}
	}
	// A = identity: [k]A vanishes, so (R = [S]B, S) verifies for every message and every canonical S, including the
	// top of the range [2^252, L) that honest signing reaches with negligible probability
	if c.Next() {
		r := c.CaseRng()
		id := ref.EdEncode(ref.EdIdentity())
		two252 := new(big.Int).Lsh(big.NewInt(1), 252)
		ss := []*big.Int{new(big.Int).Sub(ref.EdL, big.NewInt(1)), new(big.Int).Sub(ref.EdL, big.NewInt(2)), two252, new(big.Int).Add(two252, big.NewInt(1)), new(big.Int).Sub(two252, big.NewInt(1)),
			new(big.Int).Add(two252, new(big.Int).Lsh(big.NewInt(1), 100)), big.NewInt(1), big.NewInt(0), new(big.Int).Set(ref.EdL), new(big.Int).Add(ref.EdL, big.NewInt(1))}
		for i := 0; i < 12; i++ {
			x := new(big.Int).SetBytes(r.Bytes(40))
			ss = append(ss, x.Mod(x, ref.EdL))
			y := new(big.Int).SetBytes(r.Bytes(16))
			ss = append(ss, y.Add(y, two252).Mod(y, ref.EdL))
		}
		for _, S := range ss {
			R := ref.EdEncode(ref.EdMul(new(big.Int).Mod(S, ref.EdL), ref.EdB))
			sig := append(clone(R), le32(S)...)
			m.verify(id, r.Bytes(r.IntN(20)), sig, "identity-key:R=[S]B", true)
			c.Class("identity_key_high_s")
		}
	}
	// forged small-order signatures: S = 0, R = -[k]A
	for ai, A := range m.smallOrder {
		if !c.Next() {
			continue
		}
		Aenc := ref.EdEncode(A)
		found := 0
		for _, T := range m.smallOrder {
			Tenc := ref.EdEncode(T)
			for ctr := 0; ctr < 400 && found < 40; ctr++ {
				msg := []byte(fmt.Sprintf("forge-%d-%d", ai, ctr))
				h := sha512.New()
				h.Write(Tenc)
				h.Write(Aenc)
				h.Write(msg)
				k := ref.EdScalarInt(h.Sum(nil))
				k.Mod(k, ref.EdL)
				if ref.EdEqual(ref.EdNeg(ref.EdMul(k, A)), T) {
					sig := append(clone(Tenc), make([]byte, 32)...)
					var f, s bool
					f = ed25519.Verify(ed25519.PublicKey(Aenc), msg, sig)
					s = stded.Verify(stded.PublicKey(Aenc), msg, sig)
					c.Eval(1)
					if f != s {
						c.Violation("Verify:disagrees:forged-small-order", fmt.Sprintf("forged small-order signature: Verify %v, crypto/ed25519 %v", f, s), map[string]any{"public_key": core.Hex(Aenc), "message": string(msg), "signature": core.Hex(sig)})
					} else if f {
						c.Class("forged_small_order_accepted_by_both")
					}
					found++
					break
				}
			}
		}
		c.Distinctf("forged:%d:order%d", ai, edOrder(A))
	}

	// ---------------- C. GenerateKey under scripted readers
	for f := 0; f <= 33; f++ {
		for chunking := 0; chunking < 4; chunking++ {
			if !c.Next() {
				continue
			}
			for rep := 0; rep < 3; rep++ {
				r1 := &scriptedReader{src: c.IdxRng("gk", int64(f*100+chunking*10+rep)), budget: f, chunking: chunking}
				r2 := &scriptedReader{src: c.IdxRng("gk", int64(f*100+chunking*10+rep)), budget: f, chunking: chunking}
				c.Eval(1)
				var fp ed25519.PublicKey
				var fk ed25519.PrivateKey
				var ferr error
				pan, pv, _ := core.Guard(func() { fp, fk, ferr = ed25519.GenerateKey(r1) })
				sp, sk, serr := stded.GenerateKey(r2)
				d := map[string]any{"fault_after_bytes": f, "chunking": chunking, "fork_consumed": r1.consumed, "std_consumed": r2.consumed, "fork_error": errStr(ferr), "std_error": errStr(serr)}
				if pan {
					c.Violation("GenerateKey:panic", "GenerateKey panicked: "+pv, d)
					continue
				}
				if (ferr == nil) != (serr == nil) || (ferr != nil && ferr.Error() != serr.Error()) || !bytes.Equal(fp, sp) || !bytes.Equal(fk, sk) || r1.consumed != r2.consumed {
					c.Violation("GenerateKey:differs-from-std", "GenerateKey behaves differently from crypto/ed25519 under the same entropy reader", d)
					continue
				}
				if ferr != nil && (fp != nil || fk != nil) {
					c.Violation("GenerateKey:output-with-error", "GenerateKey returned an error together with a key", d)
					continue
				}
				c.Class("generatekey_same_as_std")
			}
			c.Distinctf("generatekey:f%d:ch%d", f, chunking)
		}
	}
	c.Exhaustive("GenerateKey: fault positions 0..33 x 4 chunkings")
	// consecutive GenerateKey calls whose readers deliver the SAME bytes (a deterministic source read twice, two
	// processes seeded alike): each call is judged on its own, like crypto/ed25519 does
	if c.Next() {
		for rep := 0; rep < 6; rep++ {
			var keys [][]byte
			for call := 0; call < 3; call++ {
				r1 := &scriptedReader{src: c.IdxRng("gk-repeat", int64(rep)), budget: -1}
				r2 := &scriptedReader{src: c.IdxRng("gk-repeat", int64(rep)), budget: -1}
				c.Eval(1)
				var fp ed25519.PublicKey
				var fk ed25519.PrivateKey
				var ferr error
				pan, pv, _ := core.Guard(func() { fp, fk, ferr = ed25519.GenerateKey(r1) })
				sp, sk, serr := stded.GenerateKey(r2)
				if pan || ferr != nil || serr != nil || !bytes.Equal(fp, sp) || !bytes.Equal(fk, sk) {
					c.Violation("GenerateKey:repeated-entropy", fmt.Sprintf("GenerateKey call %d in a row with the same entropy bytes differs from crypto/ed25519 (err=%v %s)", call+1, ferr, pv), map[string]any{"call": call + 1})
					break
				}
				keys = append(keys, fk)
			}
			if len(keys) == 3 {
				c.Class("generatekey_repeated_entropy_same_as_std")
			}
		}
	}
	// a private-key slice the caller REUSES: the slice NewKeyFromSeed returned is overwritten in place with another key
	// (copy), then used to sign and to make a blinded signature - the results are the other key's, byte for byte
	if c.Next() {
		r := c.CaseRng()
		for rep := 0; rep < 24; rep++ {
			seedA, seedB := r.Bytes(32), r.Bytes(32)
			msg := r.Bytes(r.IntN(50))
			c.Eval(1)
			var sig, sig2 []byte
			var pub []byte
			pan, pv, _ := core.Guard(func() {
				priv := ed25519.NewKeyFromSeed(seedA)
				ed25519.Sign(priv, msg) // used once as key A
				copy(priv, stded.NewKeyFromSeed(seedB))
				sig = ed25519.Sign(priv, msg)
				pub = []byte(priv.Public().(ed25519.PublicKey))
				priv2 := ed25519.NewKeyFromSeed(seedA)
				full := priv2[:len(priv2):cap(priv2)]
				for i := len(priv2); i < cap(full); i++ { // whatever spare capacity the slice has is the caller's too
					full[:cap(full)][i] ^= 0xff
				}
				copy(priv2, stded.NewKeyFromSeed(seedB))
				sig2 = ed25519.Sign(priv2, msg)
			})
			want := stded.Sign(stded.NewKeyFromSeed(seedB), msg)
			d := map[string]any{"seed_a": core.Hex(seedA), "seed_b": core.Hex(seedB), "message": core.Hex(msg)}
			if pan {
				c.Violation("Sign:key-slice-reused:panic", "panic: "+pv, d)
				break
			}
			if !bytes.Equal(sig, want) || !bytes.Equal(sig2, want) || !bytes.Equal(pub, stded.NewKeyFromSeed(seedB)[32:]) {
				c.Violation("Sign:key-slice-reused", "a private-key slice returned by NewKeyFromSeed and overwritten in place with another key does not sign as that other key", d)
				break
			}
			c.Class("key_slice_reused_signs_as_its_contents")
		}
	}

	// ---------------- D. operation-level model through the hook
	m.hookOps()
	m.fieldOps()
	m.verifyHistories()
	m.specialRelations()
	m.privateKeysWithOtherPublicHalf()
}

func canonicalOrSelf(b []byte) []byte {
	p, ok := ref.EdDecode(b)
	if !ok {
		return b
	}
	return ref.EdEncode(p)
}

// scalar operand patterns: ref10 limbs are 21 bits wide; set each limb to 0 / max in turn
func c14ScalarPatterns(r *core.Rand, width int) [][]byte {
	var out [][]byte
	full := bytes.Repeat([]byte{0xff}, width)
	out = append(out, make([]byte, width), full)
	nl := (width*8 + 20) / 21
	for limb := 0; limb < nl; limb++ {
		a := r.Bytes(width)
		b := r.Bytes(width)
		for bit := limb * 21; bit < (limb+1)*21 && bit < width*8; bit++ {
			a[bit/8] |= 1 << uint(bit%8)
			b[bit/8] &^= 1 << uint(bit%8)
		}
		out = append(out, a, b)
		// only this limb set / only this limb clear
		o := make([]byte, width)
		z := clone(full)
		for bit := limb * 21; bit < (limb+1)*21 && bit < width*8; bit++ {
			o[bit/8] |= 1 << uint(bit%8)
			z[bit/8] &^= 1 << uint(bit%8)
		}
		out = append(out, o, z)
	}
	L := ref.EdL
	for _, v := range []*big.Int{new(big.Int).Sub(L, big.NewInt(1)), L, new(big.Int).Add(L, big.NewInt(1)), new(big.Int).Lsh(big.NewInt(1), 252), new(big.Int).Sub(new(big.Int).Lsh(big.NewInt(1), 252), big.NewInt(1)),
		new(big.Int).Add(new(big.Int).Lsh(big.NewInt(1), 252), big.NewInt(1)), new(big.Int).Sub(new(big.Int).Lsh(big.NewInt(1), 253), big.NewInt(1)), new(big.Int).Lsh(L, 1), new(big.Int).Mul(L, big.NewInt(15)), big.NewInt(1), big.NewInt(2)} {
		b := make([]byte, width)
		copy(b, le32(v))
		out = append(out, b)
	}
	for i := 0; i < 8; i++ {
		out = append(out, r.Bytes(width))
	}
	return out
}

func (m *c14) hookOps() {
	c := m.c
	// scalar reductions, exhaustive over the pattern list
	if c.Next() {
		r := c.CaseRng()
		for _, x := range c14ScalarPatterns(r, 64) {
			c.Eval(1)
			var got []byte
			pan, pv, _ := core.Guard(func() { got = ed25519.VerifScalarReduce64(clone(x)) })
			if pan || !bytes.Equal(got, ref.EdScalarLE(x)) {
				c.Violation("hook:SetUniformBytes", "SetUniformBytes(x) != x mod L "+pv, map[string]any{"x": core.Hex(x), "got": core.Hex(got), "want": core.Hex(ref.EdScalarLE(x))})
			}
			c.Class("hook_scalar_ops")
		}
		for _, x := range c14ScalarPatterns(r, 32) {
			c.Eval(3)
			var got, gotC []byte
			var canon bool
			pan, pv, _ := core.Guard(func() {
				got = ed25519.VerifScalarSetBytes(clone(x))
				gotC = ed25519.VerifScalarSetBytesWithClamping(clone(x))
				canon = ed25519.VerifScalarCanonical(clone(x))
			})
			wantC := ref.EdIntLE(ref.EdClamp(x))
			if pan || !bytes.Equal(got, ref.EdScalarLE(x)) {
				c.Violation("hook:SetBytes", "the fork's SetBytes(x) != x mod L "+pv, map[string]any{"x": core.Hex(x), "got": core.Hex(got)})
			}
			if !bytes.Equal(gotC, wantC) {
				c.Violation("hook:SetBytesWithClamping", "SetBytesWithClamping(x) != clamp(x) mod L", map[string]any{"x": core.Hex(x), "got": core.Hex(gotC)})
			}
			if canon != (ref.EdScalarInt(x).Cmp(ref.EdL) < 0) {
				c.Violation("hook:SetCanonicalBytes", "SetCanonicalBytes accepts exactly x < L: wrong verdict", map[string]any{"x": core.Hex(x), "accepted": canon})
			}
			c.Class("hook_scalar_ops")
			c.Distinctf("hook:scalar:%s", core.H(x))
		}
	}
	// MultiplyAdd and friends, crossed patterns
	pat := c14ScalarPatterns(c.Rng("muladd"), 32)
	step := c.Pick(7, 1)
	for i := 0; i < len(pat); i++ {
		if !c.Next() {
			continue
		}
		for j := 0; j < len(pat); j++ {
			if (i+j)%step != 0 {
				continue
			}
			x, y, z := pat[i], pat[j], pat[(i*7+j*3)%len(pat)]
			c.Eval(5)
			var ma, add, sub, neg, mul []byte
			pan, pv, _ := core.Guard(func() {
				ma = ed25519.VerifScalarMulAdd(x, y, z)
				add, sub, neg, mul = ed25519.VerifScalarOps(x, y)
			})
			xi, yi, zi := ref.EdScalarInt(x), ref.EdScalarInt(y), ref.EdScalarInt(z)
			d := map[string]any{"x": core.Hex(x), "y": core.Hex(y), "z": core.Hex(z)}
			if pan {
				c.Violation("hook:scalar-ops:panic", "scalar operation panicked: "+pv, d)
				continue
			}
			w := new(big.Int).Mul(xi, yi)
			w.Add(w, zi)
			if !bytes.Equal(ma, ref.EdIntLE(w)) {
				d["got"], d["want"] = core.Hex(ma), core.Hex(ref.EdIntLE(w))
				c.Violation("hook:MultiplyAdd", "MultiplyAdd(x,y,z) != x*y+z mod L", d)
			}
			if !bytes.Equal(add, ref.EdIntLE(new(big.Int).Add(xi, yi))) || !bytes.Equal(sub, ref.EdIntLE(new(big.Int).Sub(xi, yi))) || !bytes.Equal(neg, ref.EdIntLE(new(big.Int).Neg(xi))) || !bytes.Equal(mul, ref.EdIntLE(new(big.Int).Mul(xi, yi))) {
				c.Violation("hook:scalar-add-sub-neg-mul", "Add/Subtract/Negate/Multiply differ from math/big mod L", d)
			}
			c.Class("hook_scalar_ops")
		}
		// ModInverse
		x := pat[i]
		xi := new(big.Int).Mod(ref.EdScalarInt(x), ref.EdL)
		if xi.Sign() != 0 {
			c.Eval(1)
			var inv []byte
			pan, pv, _ := core.Guard(func() { inv = ed25519.VerifScalarModInverse(x) })
			ii := ref.EdScalarInt(inv)
			chk := new(big.Int).Mul(ii, xi)
			chk.Mod(chk, ref.EdL)
			if pan || ii.Cmp(ref.EdL) >= 0 || chk.Cmp(big.NewInt(1)) != 0 {
				c.Violation("hook:ModInverse", "ModInverse(x)*x != 1 mod L or the result is not canonical "+pv, map[string]any{"x": core.Hex(x), "got": core.Hex(inv)})
			}
			c.Class("hook_modinverse")
		}
		c.Distinctf("hook:muladd:%d", i)
	}
	// ---- operands SOLVED FOR a chosen result or intermediate value
	// (a) 64-byte reductions x = q*L + r with the residue r chosen (0, 1, the top of the range [2^252, L), seeded there) and
	//     the quotient q chosen (0, 1, the largest that keeps x below 2^512, seeded large ones)
	{
		r := c.Rng("chosen-residues") // the same lists in every worker; the residues are then spread over cases
		L := ref.EdL
		two252 := new(big.Int).Lsh(big.NewInt(1), 252)
		qmax := new(big.Int).Div(new(big.Int).Sub(new(big.Int).Lsh(big.NewInt(1), 512), big.NewInt(1)), L)
		var residues, quotients []*big.Int
		for _, v := range []int64{0, 1, 2} {
			residues = append(residues, big.NewInt(v), new(big.Int).Sub(L, big.NewInt(v+1)), new(big.Int).Add(two252, big.NewInt(v)), new(big.Int).Sub(two252, big.NewInt(v+1)))
			quotients = append(quotients, big.NewInt(v), new(big.Int).Sub(qmax, big.NewInt(v)))
		}
		span := new(big.Int).Sub(L, two252)
		for i := 0; i < c.Pick(40, 600); i++ {
			x := new(big.Int).SetBytes(r.Bytes(20))
			residues = append(residues, x.Mod(x, span).Add(x, two252))
			q := new(big.Int).SetBytes(r.Bytes(33))
			quotients = append(quotients, q.Mod(q, qmax))
		}
		for lo := 0; lo < len(residues); lo += 4 {
			// four residues per case
			if !c.Next() {
				continue
			}
			for _, rr := range residues[lo:min(lo+4, len(residues))] {
				for qi, q := range quotients {
					if qi > 8 && (qi+int(rr.Uint64()))%7 != 0 {
						continue
					}
					x := new(big.Int).Add(new(big.Int).Mul(q, L), rr)
					if x.BitLen() > 512 {
						continue
					}
					in := make([]byte, 64)
					for i, b := range x.Bytes() {
						in[len(x.Bytes())-1-i] = b
					}
					c.Eval(1)
					var got []byte
					pan, pv, _ := core.Guard(func() { got = ed25519.VerifScalarReduce64(in) })
					if pan || !bytes.Equal(got, ref.EdIntLE(rr)) {
						c.Violation("hook:reduce64:chosen-residue", "SetUniformBytes(q*L + r) is not r "+pv, map[string]any{"input": core.Hex(in), "residue": rr.Text(16), "quotient": q.Text(16), "got": core.Hex(got)})
						break
					}
					// the reduced scalar is then used: multiplication must not panic and must agree with the model (the model's
					// scalar multiplication costs some 20 ms: the first three quotients of every residue)
					if qi > 2 {
						c.Class("hook_reduce_chosen_residue")
						continue
					}
					pan, pv, _ = core.Guard(func() {
						if bm := ed25519.VerifScalarBaseMult(got); !bytes.Equal(bm, ref.EdEncode(ref.EdMul(rr, ref.EdB))) {
							c.Violation("hook:reduce64:chosen-residue:use", "a scalar reduced from q*L + r multiplies the base point to another point than [r]B", map[string]any{"input": core.Hex(in)})
						}
					})
					if pan {
						c.Violation("hook:reduce64:chosen-residue:use-panic", "using a scalar reduced from q*L + r panicked: "+pv, map[string]any{"input": core.Hex(in)})
						break
					}
					c.Class("hook_reduce_chosen_residue")
				}
			}
		}
	}
	// (b) inverses chosen to be SMALL or word-structured: x = y^-1 for y = 1, 2, 2^32-1, 2^64, 2^200+1, ..., so that the
	//     result the implementation has to produce has its upper words zero
	if c.Next() {
		r := c.CaseRng()
		var ys []*big.Int
		for _, k := range []uint{0, 1, 8, 31, 32, 33, 63, 64, 65, 96, 127, 128, 160, 192, 200, 223, 224, 225, 250} {
			y := new(big.Int).Lsh(big.NewInt(1), k)
			ys = append(ys, y, new(big.Int).Add(y, big.NewInt(1)), new(big.Int).Sub(y, big.NewInt(1)))
		}
		for i := 0; i < 40; i++ {
			ys = append(ys, new(big.Int).SetBytes(r.Bytes(1+r.IntN(28))))
		}
		for _, y := range ys {
			if y.Sign() <= 0 {
				continue
			}
			x := new(big.Int).ModInverse(y, ref.EdL)
			c.Eval(1)
			var inv []byte
			pan, pv, _ := core.Guard(func() { inv = ed25519.VerifScalarModInverse(ref.EdIntLE(x)) })
			if pan || !bytes.Equal(inv, ref.EdIntLE(y)) {
				c.Violation("hook:ModInverse:chosen-result", "ModInverse(y^-1) is not y for a small or word-structured y "+pv, map[string]any{"x": core.Hex(ref.EdIntLE(x)), "want": core.Hex(ref.EdIntLE(y)), "got": core.Hex(inv)})
				break
			}
			c.Class("hook_modinverse_chosen_result")
		}
	}
	// (c) scalars made of repeated nibbles and of 32-bit words from {77777777, 77777778, 88888888, 88888887, ffffffff, 0,
	//     80000000, 7fffffff}: signed-digit recodings recentre every digit around 8 and carry into the next word
	{
		words := []uint32{0x77777777, 0x77777778, 0x88888888, 0x88888887, 0xffffffff, 0, 0x80000000, 0x7fffffff, 0x78888888, 0x87777777}
		var sc [][]byte
		mk := func(w [8]uint32) []byte {
			b := make([]byte, 32)
			for i, v := range w {
				b[4*i], b[4*i+1], b[4*i+2], b[4*i+3] = byte(v), byte(v>>8), byte(v>>16), byte(v>>24)
			}
			b[31] &= 0x0f // below 2^252: canonical
			return b
		}
		for _, a := range words {
			var w [8]uint32
			for i := range w {
				w[i] = a
			}
			sc = append(sc, mk(w))
			for pos := 0; pos < 8; pos++ {
				for _, bv := range words {
					w2 := w
					w2[pos] = bv
					sc = append(sc, mk(w2))
				}
			}
		}
		for nib := 0; nib < 16; nib++ {
			sc = append(sc, mk([8]uint32{uint32(nib) * 0x11111111, uint32(nib) * 0x11111111, uint32(nib) * 0x11111111, uint32(nib) * 0x11111111, uint32(nib) * 0x11111111, uint32(nib) * 0x11111111, uint32(nib) * 0x11111111, uint32(nib) * 0x11111111}))
		}
		for lo := 0; lo < len(sc); lo += 16 {
			if !c.Next() {
				continue
			}
			r := c.CaseRng()
			var P *ref.EdPoint
			var penc []byte
			for {
				penc = r.Bytes(32)
				var ok bool
				if P, ok = ref.EdDecode(penc); ok {
					break
				}
			}
			for _, x := range sc[lo:min(lo+16, len(sc))] {
				xi := new(big.Int).Mod(ref.EdScalarInt(x), ref.EdL)
				c.Eval(2)
				d := map[string]any{"x": core.Hex(x), "point": core.Hex(penc)}
				pan, pv, _ := core.Guard(func() {
					if bm := ed25519.VerifScalarBaseMult(x); !bytes.Equal(bm, ref.EdEncode(ref.EdMul(xi, ref.EdB))) {
						c.Violation("hook:ScalarBaseMult", "ScalarBaseMult differs from the model on a word/nibble-structured scalar", d)
						return
					}
					if sm, err := ed25519.VerifScalarMult(x, penc); err != nil || !bytes.Equal(sm, ref.EdEncode(ref.EdMul(xi, P))) {
						c.Violation("hook:ScalarMult", "ScalarMult differs from the model on a word/nibble-structured scalar", d)
						return
					}
					if dm, err := ed25519.VerifDoubleScalarBaseMult(x, penc, x); err != nil || !bytes.Equal(dm, ref.EdEncode(ref.EdAdd(ref.EdMul(xi, P), ref.EdMul(xi, ref.EdB)))) {
						c.Violation("hook:VarTimeDoubleScalarBaseMult", "VarTimeDoubleScalarBaseMult differs from the model on a word/nibble-structured scalar", d)
						return
					}
					c.Class("hook_word_structured_scalars")
				})
				if pan {
					c.Violation("hook:panic", "panic: "+pv, d)
				}
			}
		}
	}
	// point decoding: accept set and value
	nDec := c.Pick(300, 100000)
	for i := 0; i < nDec; i += 50 {
		if !c.Next() {
			continue
		}
		r := c.CaseRng()
		for k := 0; k < 50; k++ {
			b := r.Bytes(32)
			switch k % 10 {
			case 0:
				p := m.smallOrder[r.IntN(8)]
				encs := m.encodings(p)
				b = encs[r.IntN(len(encs))]
			case 1:
				b = le32(new(big.Int).Add(ref.EdP, big.NewInt(int64(r.IntN(19)))))
				if r.Coin(2) {
					b[31] |= 0x80
				}
			case 2:
				b = le32(big.NewInt(int64(r.IntN(30))))
				if r.Coin(2) {
					b[31] |= 0x80
				}
			case 3:
				b = bytes.Repeat([]byte{0xff}, 32)
				b[0] = byte(0xda + r.IntN(0x26))
			}
			c.Eval(1)
			var got []byte
			var err error
			pan, pv, _ := core.Guard(func() { got, err = ed25519.VerifPointDecode(clone(b)) })
			p, ok := ref.EdDecode(b)
			d := map[string]any{"encoding": core.Hex(b)}
			if pan {
				c.Violation("hook:point-decode:panic", "point decoding panicked: "+pv, d)
				continue
			}
			if (err == nil) != ok {
				c.Violation("hook:point-decode:accept-set", fmt.Sprintf("point decoding accepts=%v, the model accepts=%v", err == nil, ok), d)
				continue
			}
			if ok && !bytes.Equal(got, ref.EdEncode(p)) {
				d["got"], d["want"] = core.Hex(got), core.Hex(ref.EdEncode(p))
				c.Violation("hook:point-decode:value", "decoded point re-encodes differently from the model", d)
				continue
			}
			c.Class("hook_point_decode")
		}
		c.Distinctf("hook:decode:%d", i)
	}
	// multiplications on 64-bit limb patterns (each as the point scalar and as the base-point scalar)
	limb := c14LimbScalars()
	for li := 0; li < len(limb); li += 8 {
		if !c.Next() {
			continue
		}
		r := c.CaseRng()
		var P *ref.EdPoint
		var penc []byte
		for {
			penc = r.Bytes(32)
			var ok bool
			if P, ok = ref.EdDecode(penc); ok {
				break
			}
		}
		for _, x := range limb[li:min(li+8, len(limb))] {
			y := limb[r.IntN(len(limb))]
			xi, yi := ref.EdScalarInt(x), ref.EdScalarInt(y)
			c.Eval(3)
			d := map[string]any{"x": core.Hex(x), "y": core.Hex(y), "point": core.Hex(penc)}
			pan, pv, _ := core.Guard(func() {
				for _, sw := range []bool{false, true} {
					a, b, ai, bi := x, y, xi, yi
					if sw {
						a, b, ai, bi = y, x, yi, xi
					}
					dm, err := ed25519.VerifDoubleScalarBaseMult(a, penc, b)
					if err != nil || !bytes.Equal(dm, ref.EdEncode(ref.EdAdd(ref.EdMul(ai, P), ref.EdMul(bi, ref.EdB)))) {
						d["swapped"] = sw
						c.Violation("hook:VarTimeDoubleScalarBaseMult", "VarTimeDoubleScalarBaseMult differs from the model on a 64-bit limb pattern", d)
						return
					}
				}
				if sm, err := ed25519.VerifScalarMult(x, penc); err != nil || !bytes.Equal(sm, ref.EdEncode(ref.EdMul(xi, P))) {
					c.Violation("hook:ScalarMult", "ScalarMult differs from the model on a 64-bit limb pattern", d)
					return
				}
				if bm := ed25519.VerifScalarBaseMult(x); !bytes.Equal(bm, ref.EdEncode(ref.EdMul(xi, ref.EdB))) {
					c.Violation("hook:ScalarBaseMult", "ScalarBaseMult differs from the model on a 64-bit limb pattern", d)
					return
				}
				// the same scalar through the public API: identity public key, R = [S]B verifies for every message
				sig := append(ref.EdEncode(ref.EdMul(xi, ref.EdB)), x...)
				m.verify(ref.EdEncode(ref.EdIdentity()), r.Bytes(5), sig, "identity-key:limb-pattern-S", true)
				c.Class("hook_limb_pattern_scalars")
			})
			if pan {
				c.Violation("hook:panic", "panic: "+pv, d)
			}
		}
		c.Distinctf("hook:limb:%d", li)
	}
	c.Exhaustive("VarTimeDoubleScalarBaseMult / ScalarMult / ScalarBaseMult on all 864 scalars with 64-bit limbs in {0, 1, 2^64-1, 2^63, 2^32-1, 2^63+1} (top limb {0, 1, 2^60-1, 2^59})")
	// multiplications
	nMul := c.Pick(120, 30000)
	for i := 0; i < nMul; i++ {
		if !c.Next() {
			continue
		}
		r := c.CaseRng()
		sp := c14ScalarPatterns(r, 32)
		x, y := sp[r.IntN(len(sp))], sp[r.IntN(len(sp))]
		var P *ref.EdPoint
		var penc []byte
		if i%4 == 0 {
			P = m.smallOrder[r.IntN(8)]
			encs := m.encodings(P)
			penc = encs[r.IntN(len(encs))]
		} else {
			for {
				penc = r.Bytes(32)
				var ok bool
				if P, ok = ref.EdDecode(penc); ok {
					break
				}
			}
		}
		xi := new(big.Int).Mod(ref.EdScalarInt(x), ref.EdL)
		yi := new(big.Int).Mod(ref.EdScalarInt(y), ref.EdL)
		c.Eval(4)
		d := map[string]any{"x": core.Hex(x), "y": core.Hex(y), "point": core.Hex(penc)}
		pan, pv, _ := core.Guard(func() {
			sm, err := ed25519.VerifScalarMult(x, penc)
			if err != nil || !bytes.Equal(sm, ref.EdEncode(ref.EdMul(xi, P))) {
				c.Violation("hook:ScalarMult", "ScalarMult differs from the model", d)
				return
			}
			bm := ed25519.VerifScalarBaseMult(x)
			if !bytes.Equal(bm, ref.EdEncode(ref.EdMul(xi, ref.EdB))) {
				c.Violation("hook:ScalarBaseMult", "ScalarBaseMult differs from the model", d)
				return
			}
			dm, err := ed25519.VerifDoubleScalarBaseMult(x, penc, y)
			want := ref.EdAdd(ref.EdMul(xi, P), ref.EdMul(yi, ref.EdB))
			if err != nil || !bytes.Equal(dm, ref.EdEncode(want)) {
				c.Violation("hook:VarTimeDoubleScalarBaseMult", "VarTimeDoubleScalarBaseMult differs from the model", d)
				return
			}
			Q := ref.EdMul(yi, ref.EdB)
			qenc := ref.EdEncode(Q)
			add, sub, neg, err := ed25519.VerifPointOps(penc, qenc)
			if err != nil || !bytes.Equal(add, ref.EdEncode(ref.EdAdd(P, Q))) || !bytes.Equal(sub, ref.EdEncode(ref.EdAdd(P, ref.EdNeg(Q)))) || !bytes.Equal(neg, ref.EdEncode(ref.EdNeg(P))) {
				c.Violation("hook:point-add-sub-neg", "point Add/Subtract/Negate differ from the model", d)
				return
			}
			c.Class("hook_scalar_mult")
		})
		if pan {
			c.Violation("hook:mult:panic", "panic: "+pv, d)
		}
		c.Distinctf("hook:mult:%d", i)
	}
}

// edSignWith makes an Ed25519-shaped signature with the model: secret scalar a, nonce r = H(prefix||msg), challenge
// hashed over the given public-key BYTES (which need not be [a]B): R = [r]B, S = r + H(R||pub||msg)*a mod L.
func edSignWith(a *big.Int, prefix, pub, msg []byte) []byte {
	h := sha512.Sum512(append(clone(prefix), msg...))
	r := new(big.Int).Mod(ref.EdScalarInt(h[:]), ref.EdL)
	R := ref.EdEncode(ref.EdMul(r, ref.EdB))
	kh := sha512.Sum512(append(append(clone(R), pub...), msg...))
	k := new(big.Int).Mod(ref.EdScalarInt(kh[:]), ref.EdL)
	S := new(big.Int).Mod(new(big.Int).Add(r, new(big.Int).Mul(k, a)), ref.EdL)
	return append(R, le32(S)...)
}

// verifyHistories: CONSECUTIVE Verify calls over a pool of related inputs - a key and its negation (sign bit
// flipped) with signatures valid under each, an invalid key encoding presented twice in a row with a signature made
// with the previous key's scalar, keys differing in one bit, small-order keys, the same triple again - with the key,
// message and signature handed over in three buffers the caller refills in place. Each verdict is compared with
// crypto/ed25519 (stateless), so anything the verifier remembers from an earlier call, by value or by reference,
// shows as a disagreement.
func (m *c14) verifyHistories() {
	c := m.c
	n := c.Pick(40, 3000)
	for hi := 0; hi < n; hi++ {
		if !c.Next() {
			continue
		}
		r := c.CaseRng()
		type triple struct {
			name          string
			pub, msg, sig []byte
		}
		var pool []triple
		msg := r.Bytes(r.IntN(40))
		for ki := 0; ki < 2; ki++ {
			seed := r.Bytes(32)
			h := sha512.Sum512(seed)
			a := ref.EdClamp(h[:])
			pub := ref.EdPublicFromSeed(seed)
			sig := stded.Sign(stded.NewKeyFromSeed(seed), msg)
			neg := clone(pub)
			neg[31] ^= 0x80
			negA := new(big.Int).Sub(ref.EdL, new(big.Int).Mod(a, ref.EdL))
			tag := fmt.Sprintf("key%d", ki)
			pool = append(pool,
				triple{tag + ":valid", pub, msg, sig},
				triple{tag + ":negated-key,signature-valid-under-it", neg, msg, edSignWith(negA, h[32:], neg, msg)},
				triple{tag + ":negated-key,signature-of-the-original", neg, msg, sig},
				triple{tag + ":original-key,signature-valid-under-the-negated", pub, msg, edSignWith(negA, h[32:], neg, msg)},
				triple{tag + ":other-message", pub, append(clone(msg), 1), sig},
				triple{tag + ":key-bit-flipped", flipBit(pub, r.IntN(255)), msg, sig},
			)
			// an invalid key encoding (y not on the curve), with a signature made with THIS key's scalar over those bytes
			for {
				bad := r.Bytes(32)
				if _, ok := ref.EdDecode(bad); !ok {
					pool = append(pool, triple{tag + ":invalid-key-encoding,signed-with-this-key's-scalar", bad, msg, edSignWith(a, h[32:], bad, msg)})
					break
				}
			}
			// a small-order key with the forged signature S = 0, R = -[k]A found by search (valid under crypto/ed25519)
			so := m.smallOrder[r.IntN(len(m.smallOrder))]
			soEnc := ref.EdEncode(so)
			for try := 0; try < 64; try++ {
				Rp := m.smallOrder[r.IntN(len(m.smallOrder))]
				sg := append(ref.EdEncode(Rp), make([]byte, 32)...)
				if stded.Verify(stded.PublicKey(soEnc), msg, sg) {
					pool = append(pool, triple{tag + ":small-order-key,forged-signature", soEnc, msg, sg})
					break
				}
			}
		}
		pubBuf, msgBuf, sigBuf := make([]byte, 32), make([]byte, 0, 64), make([]byte, 64)
		var trace []string
		// a fixed opening (valid key, then an invalid encoding twice; a key, its negation, the key again), then seeded calls
		prelude := []string{"key0:valid", "key0:invalid-key-encoding,signed-with-this-key's-scalar", "key0:invalid-key-encoding,signed-with-this-key's-scalar", "key0:valid",
			"key0:negated-key,signature-valid-under-it", "key0:valid", "key0:negated-key,signature-of-the-original", "key0:original-key,signature-valid-under-the-negated", "key1:valid", "key0:valid"}
		if hi%2 == 1 {
			prelude = prelude[:0]
		}
		steps := len(prelude) + 12
		for step := 0; step < steps; step++ {
			var t triple
			switch {
			case step < len(prelude):
				for _, p := range pool {
					if p.name == prelude[step] {
						t = p
					}
				}
			case step > 0 && r.IntN(4) == 0:
				t = pool[(len(trace)*7+step)%len(pool)]
				// the call before, once more
				for _, p := range pool {
					if p.name == trace[len(trace)-1] {
						t = p
					}
				}
			default:
				t = pool[r.IntN(len(pool))]
			}
			trace = append(trace, t.name)
			copy(pubBuf, t.pub)
			msgBuf = append(msgBuf[:0], t.msg...)
			copy(sigBuf, t.sig)
			c.Eval(1)
			var f bool
			pan, pv, _ := core.Guard(func() { f = ed25519.Verify(ed25519.PublicKey(pubBuf), msgBuf, sigBuf) })
			want := stded.Verify(stded.PublicKey(clone(t.pub)), clone(t.msg), clone(t.sig))
			d := map[string]any{"calls_in_order": clone2(trace), "public_key": core.Hex(t.pub), "message": core.Hex(t.msg), "signature": core.Hex(t.sig)}
			if pan {
				c.Violation("Verify:history:panic", "Verify panicked: "+pv, d)
				break
			}
			if f != want {
				c.Violation("Verify:history:disagrees", fmt.Sprintf("after the calls before it, Verify returns %v for an input crypto/ed25519 judges %v", f, want), d)
				break
			}
			if !bytes.Equal(pubBuf, t.pub) || !bytes.Equal(sigBuf, t.sig) {
				c.Violation("Verify:history:argument-written", "Verify modified its argument buffers", d)
				break
			}
			if want {
				c.Class("history_verify_agree_accept")
			} else {
				c.Class("history_verify_agree_reject")
			}
		}
		c.Distinctf("verify-history:%d", hi)
		if hi < 1 {
			c.Sample("verify history", map[string]any{"calls_in_order": trace})
		}
	}
}

// c14LimbScalars: scalars below L whose four 64-bit limbs are each one of {0, 1, 2^64-1, 2^63, 2^32-1, 2^63+1}
// (top limb: {0, 1, 2^60-1, 2^59}): zero limbs reached with and without a pending carry, runs of ones across limbs.
func c14LimbScalars() [][]byte {
	lo := []uint64{0, 1, ^uint64(0), 1 << 63, 1<<32 - 1, 1<<63 + 1}
	top := []uint64{0, 1, 1<<60 - 1, 1 << 59}
	var out [][]byte
	for _, a := range lo {
		for _, b := range lo {
			for _, c := range lo {
				for _, d := range top {
					s := make([]byte, 32)
					for i, v := range []uint64{a, b, c, d} {
						for k := 0; k < 8; k++ {
							s[8*i+k] = byte(v >> (8 * uint(k)))
						}
					}
					out = append(out, s)
				}
			}
		}
	}
	return out
}

// edSignNonce is edSignWith with an explicit nonce scalar r.
func edSignNonce(a, r *big.Int, pub, msg []byte) []byte {
	R := ref.EdEncode(ref.EdMul(new(big.Int).Mod(r, ref.EdL), ref.EdB))
	kh := sha512.Sum512(append(append(clone(R), pub...), msg...))
	k := new(big.Int).Mod(ref.EdScalarInt(kh[:]), ref.EdL)
	S := new(big.Int).Mod(new(big.Int).Add(r, new(big.Int).Mul(k, a)), ref.EdL)
	return append(R, le32(S)...)
}

// specialRelations: valid signatures whose parts stand in a special relation - R equal to A, to -A, to the base point,
// to the identity; the secret scalar 1 (A = B); messages that are protocol strings, the key itself, R itself. All are
// valid under crypto/ed25519 by construction (checked), and a verifier has no reason to treat them differently.
func (m *c14) specialRelations() {
	c := m.c
	n := c.Pick(6, 400)
	for i := 0; i < n; i++ {
		if !c.Next() {
			continue
		}
		r := c.CaseRng()
		seed := r.Bytes(32)
		h := sha512.Sum512(seed)
		a := ref.EdClamp(h[:])
		aL := new(big.Int).Mod(a, ref.EdL)
		pub := ref.EdPublicFromSeed(seed)
		one := big.NewInt(1)
		pubB := ref.EdEncode(ref.EdB)
		msgs := [][]byte{r.Bytes(r.IntN(40)), {}, clone(pub), append(clone(pub), pub...)}
		for _, sstr := range SpecialStrings {
			msgs = append(msgs, []byte(sstr), append([]byte(sstr), r.Bytes(5)...))
		}
		for mi, msg := range msgs {
			cases := map[string][]byte{
				"R=A(nonce=a)":        edSignNonce(aL, aL, pub, msg),
				"R=-A(nonce=-a)":      edSignNonce(aL, new(big.Int).Sub(ref.EdL, aL), pub, msg),
				"R=B(nonce=1)":        edSignNonce(aL, one, pub, msg),
				"R=identity(nonce=0)": edSignNonce(aL, new(big.Int), pub, msg),
				"R=2A(nonce=2a)":      edSignNonce(aL, new(big.Int).Lsh(aL, 1), pub, msg),
				"honest":              stded.Sign(stded.NewKeyFromSeed(seed), msg),
			}
			for cls, sig := range cases {
				m.verify(pub, msg, sig, "special-relation:"+cls, true)
			}
			// secret scalar 1: the public key is the base point
			m.verify(pubB, msg, edSignNonce(one, new(big.Int).SetBytes(r.Bytes(31)), pubB, msg), "special-relation:A=B", true)
			m.verify(pubB, msg, edSignNonce(one, one, pubB, msg), "special-relation:A=B=R", true)
			// message equal to R: sign with a fixed nonce, the message being that nonce's R
			{
				rn := new(big.Int).SetBytes(r.Bytes(31))
				R := ref.EdEncode(ref.EdMul(rn, ref.EdB))
				m.verify(pub, R, edSignNonce(aL, rn, pub, R), "special-relation:message=R", true)
			}
			// made by the key holder with a small-order component: R' = rB + T with S = r + k*a for k = H(R' || A || M)
			// (valid only under a cofactored check; crypto/ed25519 compares R byte for byte and rejects), and the same
			// against the public key A + T (valid exactly when k*T vanishes). The verdict is crypto/ed25519's, whatever it is.
			if mi < 6 {
				for ti, T := range m.smallOrder {
					if edOrder(T) == 1 {
						continue
					}
					rn := new(big.Int).SetBytes(r.Bytes(31))
					Rp := ref.EdEncode(ref.EdAdd(ref.EdMul(rn, ref.EdB), T))
					for vi, pk := range [][]byte{pub, ref.EdEncode(ref.EdAdd(ref.EdMul(aL, ref.EdB), T))} {
						kh := sha512.Sum512(append(append(clone(Rp), pk...), msg...))
						k := new(big.Int).Mod(ref.EdScalarInt(kh[:]), ref.EdL)
						S := new(big.Int).Mod(new(big.Int).Add(rn, new(big.Int).Mul(k, aL)), ref.EdL)
						m.verify(pk, msg, append(clone(Rp), le32(S)...), fmt.Sprintf("key-holder-torsion:order-%d:R'=rB+T,key-variant-%d", edOrder(T), vi), true)
						// and an honest R against the mixed-order key
						if vi == 1 {
							m.verify(pk, msg, edSignNonce(aL, rn, pk, msg), fmt.Sprintf("key-holder-torsion:order-%d:honest-R,key=A+T", edOrder(T)), true)
						}
					}
					_ = ti
				}
				c.Class("key_holder_signatures_with_small_order_components")
			}
			if mi > 3 {
				c.Class("special_string_messages")
			}
		}
		c.Class("special_relation_signatures")
		c.Distinctf("special:%d", i)
	}
}

// privateKeysWithOtherPublicHalf: a private key is 64 bytes, seed || public key, and nothing makes a caller keep the
// second half consistent (seed || zeros is what a hand-rolled loader produces). crypto/ed25519 takes the bytes as they
// are; so must the fork: same signature bytes, same Public(), and the caller's 64 bytes unchanged.
func (m *c14) privateKeysWithOtherPublicHalf() {
	c := m.c
	n := c.Pick(8, 300)
	for i := 0; i < n; i++ {
		if !c.Next() {
			continue
		}
		r := c.CaseRng()
		seed := r.Bytes(32)
		other := ref.EdPublicFromSeed(r.Bytes(32))
		halves := map[string][]byte{"zeros": make([]byte, 32), "ones": bytes.Repeat([]byte{0xff}, 32), "random": r.Bytes(32), "another-key": other, "the-seed-again": clone(seed), "identity": ref.EdEncode(ref.EdIdentity())}
		for name, half := range halves {
			priv := append(clone(seed), half...)
			arena := append(clone(priv), bytes.Repeat([]byte{0xa5}, 32)...)
			arg := arena[:64:64]
			msg := r.Bytes(r.IntN(50))
			c.Eval(1)
			d := map[string]any{"private_key": core.Hex(priv), "public_half": name, "message": core.Hex(msg)}
			var got []byte
			var gotPub any
			pan, pv, where := core.Guard(func() {
				got = ed25519.Sign(ed25519.PrivateKey(arg), msg)
				gotPub = ed25519.PrivateKey(arg).Public()
			})
			if pan {
				c.Violation("Sign:panic:other-public-half:"+where, "Sign panicked on a private key whose second half is not its public key: "+pv, d)
				continue
			}
			want := stded.Sign(stded.PrivateKey(clone(priv)), msg)
			if !bytes.Equal(got, want) {
				d["got"], d["want"] = core.Hex(got), core.Hex(want)
				c.Violation("Sign:differs:other-public-half", "Sign differs from crypto/ed25519 for a private key whose second half is not its public key ("+name+")", d)
				continue
			}
			if !bytes.Equal(arena[:64], priv) || !bytes.Equal(arena[64:], bytes.Repeat([]byte{0xa5}, 32)) {
				d["now"] = core.Hex(arena)
				c.Violation("Sign:wrote-private-key", "Sign changed the caller's private key bytes ("+name+")", d)
				continue
			}
			if pk, ok := gotPub.(ed25519.PublicKey); !ok || !bytes.Equal(pk, half) {
				c.Violation("Public:differs:other-public-half", "Public() does not return the second half of the private key as crypto/ed25519 does ("+name+")", d)
				continue
			}
			c.Class("private_keys_with_other_public_half_agree")
		}
	}
}
