package props

import (
	"bytes"
	"fmt"
	"math/big"

	"github.com/cloudflare/pat-go/ed25519"

	"verifharness/internal/core"
	"verifharness/internal/ref"
)

// Field-level reference monitor (verif-tagged hooks VerifField*): every operation of the fork's GF(2^255-19)
// arithmetic against math/big, on operands chosen by the implementation's 51-bit limbs - each limb one of
// {0, 1, 19, 2^50, 2^51-19, 2^51-2, 2^51-1} - on non-canonical encodings (p .. 2^255-1, bit 255 set) and on seeded
// values; single operations, expressions whose intermediate results are not brought to canonical form, and the
// square-root-of-ratio used by point decoding.

var fieldP = ref.EdP

func feInt(b []byte) *big.Int {
	c := clone(b)
	c[31] &= 0x7f // SetBytes ignores bit 255
	x := ref.EdScalarInt(c)
	return x.Mod(x, fieldP)
}

func feEnc(x *big.Int) []byte {
	v := new(big.Int).Mod(x, fieldP)
	out := make([]byte, 32)
	for i, b := range v.Bytes() {
		out[len(v.Bytes())-1-i] = b
	}
	return out
}

func feFromLimbs(l [5]uint64) []byte {
	x := new(big.Int)
	for i := 4; i >= 0; i-- {
		x.Lsh(x, 51)
		x.Add(x, new(big.Int).SetUint64(l[i]))
	}
	// the 255-bit integer as is (may be >= p: a non-canonical encoding)
	out := make([]byte, 32)
	bs := x.Bytes()
	for i, b := range bs {
		out[len(bs)-1-i] = b
	}
	return out
}

var feLimbVals = []uint64{0, 1, 19, 1 << 50, 1<<51 - 19, 1<<51 - 2, 1<<51 - 1}

// feModel computes the expected results of VerifFieldOps.
func feSqrtRatio(u, v *big.Int) (*big.Int, int) {
	p := fieldP
	even := func(r *big.Int) *big.Int {
		if r.Bit(0) == 1 {
			return new(big.Int).Sub(p, r)
		}
		return r
	}
	if u.Sign() == 0 {
		return new(big.Int), 1
	}
	if v.Sign() == 0 {
		return new(big.Int), 0
	}
	w := new(big.Int).Mul(u, new(big.Int).ModInverse(v, p))
	w.Mod(w, p)
	if r := new(big.Int).ModSqrt(w, p); r != nil {
		return even(r), 1
	}
	i := new(big.Int).Exp(big.NewInt(2), new(big.Int).Rsh(new(big.Int).Sub(p, big.NewInt(1)), 2), p)
	w.Mul(w, i).Mod(w, p)
	r := new(big.Int).ModSqrt(w, p)
	if r == nil {
		return nil, 0
	}
	return even(r), 0
}

func (m *c14) fieldPair(a, b []byte, tag string) bool {
	c := m.c
	p := fieldP
	x, y := feInt(a), feInt(b)
	c.Eval(1)
	d := map[string]any{"a": core.Hex(a), "b": core.Hex(b), "pattern": tag}
	bad := func(op string, got []byte, want *big.Int) bool {
		d["got"], d["want"] = core.Hex(got), core.Hex(feEnc(want))
		c.Violation("hook:field:"+op, "field "+op+" differs from arithmetic modulo 2^255-19", d)
		return false
	}
	ok := true
	pan, pv, _ := core.Guard(func() {
		add, sub, neg, mul, sq, inv, abs, p22523, isNeg, eq := ed25519.VerifFieldOps(a, b)
		mod := func(z *big.Int) *big.Int { return z.Mod(z, p) }
		chk := func(op string, got []byte, want *big.Int) {
			if ok && !bytes.Equal(got, feEnc(want)) {
				ok = bad(op, got, want)
			}
		}
		chk("Add", add, mod(new(big.Int).Add(x, y)))
		chk("Subtract", sub, mod(new(big.Int).Sub(x, y)))
		chk("Negate", neg, mod(new(big.Int).Neg(x)))
		chk("Multiply", mul, mod(new(big.Int).Mul(x, y)))
		chk("Square", sq, mod(new(big.Int).Mul(x, x)))
		wantInv := new(big.Int)
		if x.Sign() != 0 {
			wantInv.ModInverse(x, p)
		}
		chk("Invert", inv, wantInv)
		wantAbs := new(big.Int).Set(x)
		if x.Bit(0) == 1 {
			wantAbs.Sub(p, x)
		}
		chk("Absolute", abs, wantAbs)
		e := new(big.Int).Rsh(new(big.Int).Sub(p, big.NewInt(5)), 3)
		chk("Pow22523", p22523, new(big.Int).Exp(x, e, p))
		if ok && (isNeg != int(x.Bit(0)) || (eq == 1) != (x.Cmp(y) == 0)) {
			d["is_negative"], d["equal"] = isNeg, eq
			c.Violation("hook:field:IsNegative/Equal", "IsNegative or Equal differ from arithmetic modulo 2^255-19", d)
			ok = false
		}
		if !ok {
			return
		}
		// expressions
		ch := ed25519.VerifFieldChain(a, b)
		s, df := new(big.Int).Add(x, y), new(big.Int).Sub(x, y)
		t := new(big.Int).Add(new(big.Int).Lsh(x, 1), new(big.Int).Lsh(y, 1))
		w := new(big.Int).Mul(x, y)
		w.Add(w, x).Mul(w, y).Sub(w, df)
		wants := []*big.Int{
			new(big.Int).Mul(s, df), new(big.Int).Mul(t, t), new(big.Int), w,
			new(big.Int).Mul(new(big.Int).Lsh(x, 4), y), new(big.Int).Mul(x, y), new(big.Int).Mul(x, y), new(big.Int).Mul(x, y), new(big.Int).Mul(x, x),
		}
		names := []string{"(a+b)*(a-b)", "(2a+2b)^2", "(a-b)^2-(b-a)^2", "((a*b)+a)*b-(a-b)", "16a*b", "(-a)*(-b)", "a*b into a", "a*b into b", "a^2 into a"}
		for i := range wants {
			if i < len(ch) {
				chk("chain:"+names[i], ch[i], mod(wants[i]))
			}
		}
		if !ok {
			return
		}
		r, was := ed25519.VerifFieldSqrtRatio(a, b)
		wr, wwas := feSqrtRatio(x, y)
		if wr != nil && (!bytes.Equal(r, feEnc(wr)) || was != wwas) {
			d["was_square"], d["want_was_square"] = was, wwas
			ok = bad("SqrtRatio", r, wr)
			return
		}
		y32 := uint32(y.Uint64())
		chk("Mult32", ed25519.VerifFieldMult32(a, y32), mod(new(big.Int).Mul(x, new(big.Int).SetUint64(uint64(y32)))))
		for cond := 0; cond <= 1; cond++ {
			sel, sa, sb := ed25519.VerifFieldSelectSwap(a, b, cond)
			ws, wa, wb := y, x, y
			if cond == 1 {
				ws, wa, wb = x, y, x
			}
			chk("Select", sel, ws)
			chk("Swap", sa, wa)
			chk("Swap", sb, wb)
		}
	})
	if pan {
		c.Violation("hook:field:panic", "field operation panicked: "+pv, d)
		return false
	}
	return ok
}

func (m *c14) fieldOps() {
	c := m.c
	// partner operands: a few fixed ones per a
	partners := func(r *core.Rand) [][]byte {
		two255m1 := bytes.Repeat([]byte{0xff}, 32)
		two255m1[31] = 0x7f
		pm1 := feEnc(new(big.Int).Sub(fieldP, big.NewInt(1)))
		return [][]byte{make([]byte, 32), feEnc(big.NewInt(1)), pm1, two255m1, feFromLimbs([5]uint64{1<<51 - 1, 1<<51 - 1, 1<<51 - 1, 1<<51 - 1, 1<<51 - 1}),
			feFromLimbs([5]uint64{1<<51 - 19, 0, 1<<51 - 1, 0, 1 << 50}), r.Bytes(32), r.Bytes(32)}
	}
	// every limb pattern (7^5 = 16807) as a; in the quick tier the patterns whose index is congruent to the shard's
	// cases are spread by c.Next(), 64 patterns per case
	var pats [][]byte
	var idx [5]int
	for {
		var l [5]uint64
		for i := range l {
			l[i] = feLimbVals[idx[i]]
		}
		pats = append(pats, feFromLimbs(l))
		k := 0
		for k < 5 {
			idx[k]++
			if idx[k] < len(feLimbVals) {
				break
			}
			idx[k] = 0
			k++
		}
		if k == 5 {
			break
		}
	}
	step := c.Pick(7, 1) // quick: every 7th pattern (offset rotates with the case), thorough: all
	const chunk = 64
	for lo := 0; lo < len(pats); lo += chunk {
		if !c.Next() {
			continue
		}
		r := c.CaseRng()
		ps := partners(r)
		for i := lo + (lo/chunk)%step; i < lo+chunk && i < len(pats); i += step {
			a := pats[i]
			for pi, b := range ps {
				if c.Thorough() || pi == i%len(ps) || pi == (i+3)%len(ps) {
					if !m.fieldPair(a, b, fmt.Sprintf("limbs#%d", i)) || !m.fieldPair(b, a, fmt.Sprintf("limbs#%d(swapped)", i)) {
						return
					}
				}
			}
			c.Class("hook_field_limb_patterns")
		}
		c.Distinctf("field:limbs:%d", lo)
	}
	// non-canonical encodings p+k and bit 255 set
	if c.Next() {
		r := c.CaseRng()
		for k := int64(0); k < 19; k++ {
			a := make([]byte, 32)
			v := new(big.Int).Add(fieldP, big.NewInt(k))
			for i, b := range v.Bytes() {
				a[len(v.Bytes())-1-i] = b
			}
			for _, top := range []byte{0, 0x80} {
				a2 := clone(a)
				a2[31] |= top
				if !m.fieldPair(a2, r.Bytes(32), fmt.Sprintf("p+%d", k)) || !m.fieldPair(r.Bytes(32), a2, fmt.Sprintf("p+%d(swapped)", k)) {
					return
				}
			}
			c.Class("hook_field_noncanonical")
		}
	}
	// seeded pairs
	n := c.Pick(400, 200000)
	for i := 0; i < n; i += 16 {
		if !c.Next() {
			continue
		}
		r := c.CaseRng()
		for j := 0; j < 16; j++ {
			if !m.fieldPair(r.Bytes(32), r.Bytes(32), "seeded") {
				return
			}
		}
		c.Class("hook_field_seeded")
	}
}
