package props

import (
	"bytes"
	"crypto/elliptic"
	"fmt"

	"github.com/cloudflare/circl/oprf"

	"github.com/cloudflare/pat-go/tokens"
	"github.com/cloudflare/pat-go/tokens/type1"
	"github.com/cloudflare/pat-go/tokens/type2"
	"github.com/cloudflare/pat-go/tokens/type3"
	"github.com/cloudflare/pat-go/tokens/type5"

	"verifharness/internal/core"
	"verifharness/internal/ref"
)

// Requests created with arguments of the WRONG SHAPE - nonces and key ids that are not 32 bytes, also in pairs whose
// lengths add up to 64 so that the token input keeps its length: creation may refuse them; if it does not, the
// honest issuer's response is fed to the finalizer, and the universal oracle applies as everywhere else: a nil error
// means a token that verifies under the issuer key and carries the request's nonce, challenge digest and key id.
func c02HostileCreationArguments(c *core.Ctx) {
	setup := c.Rng("hostile-args")
	k1 := VOPRFKey(oprf.SuiteP384, setup.Bytes(32))
	k5 := VOPRFKey(oprf.SuiteRistretto255, setup.Bytes(32))
	rk := RSAKeys()[1]
	curve := elliptic.P384()
	type shape struct{ nonce, kid int }
	shapes := []shape{{33, 32}, {31, 32}, {64, 32}, {0, 32}, {32, 33}, {32, 31}, {32, 0}, {31, 33}, {33, 31}, {30, 34}, {16, 48}, {48, 16}, {32, 64}}
	for si, sh := range shapes {
		for typ := range []int{0, 1, 2, 3} {
			if !c.Next() {
				continue
			}
			r := c.CaseRng()
			chal := r.Bytes(20)
			nonce := r.Bytes(sh.nonce)
			c.Eval(1)
			var st *c02State
			var resp []byte
			var cerr, eerr error
			mkKid := func(real []byte) []byte {
				// the caller's key id argument: the real id cut or extended to the wanted length (the truncated id that
				// goes on the wire stays the real one's last byte where possible)
				k := make([]byte, sh.kid)
				copy(k, real)
				if sh.kid > 0 {
					k[sh.kid-1] = real[31]
				}
				return k
			}
			pan, pv, where := core.Guard(func() {
				switch typ {
				case 0:
					iss := type1.NewBasicPrivateIssuer(k1)
					kid := mkKid(iss.TokenKeyID())
					s, err := type1.NewBasicPrivateClient().CreateTokenRequest(chal, nonce, kid, iss.TokenKey())
					if cerr = err; err != nil {
						return
					}
					resp, eerr = iss.Evaluate(s.Request())
					st = &c02State{typ: 1, label: "t1", nonces: [][]byte{nonce}, challenge: chal, keyID: kid, authLen: 48,
						finalize: func(b []byte) ([]tokens.Token, error) { t, err := s.FinalizeToken(b); return []tokens.Token{t}, err },
						verifyTok: func(t tokens.Token) error {
							if !bytes.Equal(t.Authenticator, RefVOPRF(oprf.SuiteP384, k1, t.AuthenticatorInput())) {
								return fmt.Errorf("authenticator != VOPRF(key, token input)")
							}
							return iss.Verify(t)
						}}
				case 1:
					iss := type5.NewBatchedPrivateIssuer(k5)
					kid := mkKid(iss.TokenKeyID())
					nonces := [][]byte{r.Bytes(32), nonce}
					s, err := type5.NewBatchedPrivateClient().CreateTokenRequest(chal, nonces, kid, iss.TokenKey())
					if cerr = err; err != nil {
						return
					}
					resp, eerr = iss.Evaluate(s.Request())
					st = &c02State{typ: 5, label: "t5", nonces: nonces, challenge: chal, keyID: kid, authLen: 64, finalize: s.FinalizeTokens,
						verifyTok: func(t tokens.Token) error {
							if !bytes.Equal(t.Authenticator, RefVOPRF(oprf.SuiteRistretto255, k5, t.AuthenticatorInput())) {
								return fmt.Errorf("authenticator != VOPRF(key, token input)")
							}
							return iss.Verify(t)
						}}
				case 2:
					iss := type2.NewBasicPublicIssuer(rk)
					kid := mkKid(iss.TokenKeyID())
					s, err := type2.NewBasicPublicClient().CreateTokenRequest(chal, nonce, kid, iss.TokenKey())
					if cerr = err; err != nil {
						return
					}
					resp, eerr = iss.Evaluate(s.Request())
					st = &c02State{typ: 2, label: "t2", nonces: [][]byte{nonce}, challenge: chal, keyID: kid, authLen: 256,
						finalize: func(b []byte) ([]tokens.Token, error) { t, err := s.FinalizeToken(b); return []tokens.Token{t}, err },
						verifyTok: func(t tokens.Token) error {
							return ref.VerifyRSAToken(&rk.PublicKey, t.AuthenticatorInput(), t.Authenticator)
						}}
				case 3:
					iss := type3.NewRateLimitedIssuer(rk)
					iss.AddOrigin("origin.example")
					kid := mkKid(iss.TokenKeyID())
					s, err := type3.NewRateLimitedClientFromSecret(ScalarBytes(r, curve.Params().N, 48)).CreateTokenRequest(chal, nonce, ScalarBytes(r, curve.Params().N, 48), kid, iss.TokenKey(), "origin.example", iss.NameKey())
					if cerr = err; err != nil {
						return
					}
					resp, _, eerr = iss.Evaluate(s.Request().Marshal())
					st = &c02State{typ: 3, label: "t3", nonces: [][]byte{nonce}, challenge: chal, keyID: kid, authLen: 256,
						finalize: func(b []byte) ([]tokens.Token, error) { t, err := s.FinalizeToken(b); return []tokens.Token{t}, err },
						verifyTok: func(t tokens.Token) error {
							return ref.VerifyRSAToken(&rk.PublicKey, t.AuthenticatorInput(), t.Authenticator)
						}}
				}
			})
			d := map[string]any{"type_index": typ, "nonce_len": sh.nonce, "key_id_len": sh.kid}
			switch {
			case pan:
				c.Violation("hostile-creation-arguments:panic:"+where, "request creation or evaluation panicked on a nonce / key id of unusual length: "+pv, d)
			case cerr != nil:
				c.Class("misshapen_arguments_refused_at_creation")
			case eerr != nil || st == nil:
				c.Class("misshapen_request_refused_by_issuer")
			default:
				st.label = fmt.Sprintf("%s(nonce %d bytes, key id %d bytes)", st.label, sh.nonce, sh.kid)
				c02Call(c, st, resp, fmt.Sprintf("request-created-with-%d-byte-nonce-and-%d-byte-key-id", sh.nonce, sh.kid), false)
				c.Class("misshapen_request_finalized_under_universal_oracle")
			}
			c.Distinctf("hostile-args:%d:%d", si, typ)
		}
	}
}
