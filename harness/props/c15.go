package props

import (
	"bytes"
	stded "crypto/ed25519"
	"crypto/sha512"
	"encoding/json"
	"fmt"
	"math/big"
	"os"
	"path/filepath"
	"strings"

	"github.com/cloudflare/pat-go/ed25519"

	"verifharness/internal/core"
	"verifharness/internal/ref"
)

func init() {
	core.Register(&core.Prop{
		ID:    "C15",
		Level: "exploration",
		Rule: "seeded (seed, 32-byte blind incl. all-zero and all-0xff, context in {nil, empty, 1 byte, 200 bytes}, message) and all pairs from a pool of 6 blinds. Oracle: blinded key bytes == encode(k*A) with k = int_le(SHA-512(blind||0x00||ctx)[0:32]) mod L computed with crypto/sha512 and the math/big Edwards model; " +
			"BlindKeySignWithContext is deterministic, its signature verifies under the blinded key with crypto/ed25519.Verify and with this package's Verify and not under the original key; Unblind(Blind(A)) == A == Blind(Unblind(A)); two blindings commute; another blind or another context gives another key. Histories of 14 consecutive calls over related inputs (two keys, one-bit neighbours, repeats, nil/empty context) with key, blind and context in buffers refilled in place, each compared with the stateless reference. " +
			"distinct_nontrivial = distinct (blind class, context length, message length) keys",
		Floors:      []string{"blinded_key_equals_reference", "signature_verifies_std_and_fork", "signature_deterministic", "unblind_inverts", "commutes", "blind_separation", "context_separation", "signature_fails_under_original", "arguments_share_one_buffer", "history_calls_agree_with_reference", "long_contexts", "rare_blinding_factors", "extreme_public_key_encodings"},
		Assumptions: []string{"honest public keys lie in the prime-order subgroup", "crypto/ed25519 is the standard verifier"},
		Run:         runC15,
	})
}

func c15Scalar(blind, ctx []byte) *big.Int {
	h := sha512.New()
	h.Write(blind)
	h.Write([]byte{0})
	h.Write(ctx)
	d := h.Sum(nil)
	k := ref.EdScalarInt(d[:32])
	return k.Mod(k, ref.EdL)
}

// c15History: consecutive blinding calls over related inputs - two keys, a key and its one-bit neighbour's valid key,
// (blind, context) pairs with the boundary between them shifted by one byte, exact repeats - with the key, blind and
// context handed over in buffers the caller refills in place. Every result is compared with the stateless reference.
func c15History(c *core.Ctx, r *core.Rand, tag string) {
	type inp struct {
		name             string
		seed, blind, ctx []byte
	}
	seeds := [][]byte{r.Bytes(32), r.Bytes(32)}
	b := r.Bytes(32)
	cx := []byte("ctx-for-history")
	pool := []inp{
		{"key0/blind/ctx", seeds[0], b, cx}, {"key1/blind/ctx", seeds[1], b, cx}, {"key0/blind/ctx-again", seeds[0], b, cx},
		{"key0/blind-bit-flipped/ctx", seeds[0], flipBit(b, 77), cx}, {"key0/blind/ctx+0", seeds[0], b, append(clone(cx), 0)},
		{"key0/blind/nil-ctx", seeds[0], b, nil}, {"key1/blind/empty-ctx", seeds[1], b, []byte{}},
		{"key0/blind/ctx-bit-flipped", seeds[0], b, flipBit(cx, 5)}, {"key1/other-blind/ctx", seeds[1], r.Bytes(32), cx},
	}
	for k := 0; k < 3; k++ {
		pool = append(pool, inp{"key0/blind/protocol-string-as-ctx", seeds[0], b, []byte(SpecialStrings[r.IntN(len(SpecialStrings))])})
	}
	pubBuf, privBuf, blindBuf, ctxBuf := make([]byte, 32), make([]byte, 64), make([]byte, 32), make([]byte, 0, 64)
	var trace []string
	onlyBlind := len(tag)%2 == 1 || strings.HasSuffix(tag, "1") || strings.HasSuffix(tag, "5")
	for step := 0; step < 14; step++ {
		p := pool[r.IntN(len(pool))]
		if step < 4 {
			p = pool[step]
		}
		trace = append(trace, p.name)
		spriv := stded.NewKeyFromSeed(p.seed)
		pub := []byte(spriv[32:])
		A, _ := ref.EdDecode(pub)
		k := c15Scalar(p.blind, p.ctx)
		want := ref.EdEncode(ref.EdMul(k, A))
		copy(pubBuf, pub)
		copy(privBuf, spriv)
		copy(blindBuf, p.blind)
		var ctx []byte
		if p.ctx != nil {
			ctxBuf = append(ctxBuf[:0], p.ctx...)
			ctx = ctxBuf
		}
		msg := r.Bytes(r.IntN(30))
		c.Eval(1)
		d := map[string]any{"calls_in_order": clone2(trace), "seed": core.Hex(p.seed), "blind": core.Hex(p.blind), "context": core.Hex(p.ctx), "tag": tag}
		bad := func(cls, what string) {
			c.Violation("history:"+cls, "Ed25519 key blinding (consecutive related calls, argument buffers refilled in place): "+what, d)
		}
		stop := true
		pan, pv, where := core.Guard(func() {
			bp, err := ed25519.BlindPublicKeyWithContext(ed25519.PublicKey(pubBuf), blindBuf, ctx)
			if err != nil || !bytes.Equal(bp, want) {
				bad("blinded-key-differs", "the blinded public key is not the public key multiplied by SHA-512(blind||0x00||ctx)[0:32] mod L after the calls made before it")
				return
			}
			if onlyBlind {
				// nothing else between two blinding calls that read the key from the same buffer
				stop = !bytes.Equal(pubBuf, pub)
				return
			}
			up, err := ed25519.UnblindPublicKeyWithContext(bp, blindBuf, ctx)
			if err != nil || !bytes.Equal(up, pub) {
				bad("unblind-does-not-invert", "Unblind(Blind(A)) != A after the calls made before it")
				return
			}
			sig := ed25519.BlindKeySignWithContext(ed25519.PrivateKey(privBuf), msg, blindBuf, ctx)
			if !stded.Verify(stded.PublicKey(want), msg, sig) || !ed25519.Verify(ed25519.PublicKey(want), msg, sig) {
				bad("signature-does-not-verify", "a blinded-key signature does not verify under the reference's blinded key after the calls made before it")
				return
			}
			if !bytes.Equal(pubBuf, pub) || !bytes.Equal(blindBuf, p.blind) || !bytes.Equal(privBuf, spriv) || (p.ctx != nil && !bytes.Equal(ctxBuf, p.ctx)) {
				bad("argument-written", "an argument buffer was modified")
				return
			}
			stop = false
		})
		if pan {
			bad("panic:"+where, pv)
			return
		}
		if stop {
			return
		}
		c.Class("history_calls_agree_with_reference")
	}
	c.Distinctf("history:%s", tag)
}

// c15RareFactors: (blind, context) pairs whose blinding factor is rare (divisible by 2^32, below 2^224, ...; found once by
// cmd/mkfactors, recomputed here), and public keys with extreme encodings (y just below p, y with its top bytes
// saturated, both signs of x), each through blind / unblind / blinded signing against the reference.
func c15RareFactors(c *core.Ctx) {
	var fx []struct {
		Kind, Blind, Context string
	}
	b, err := os.ReadFile(filepath.Join(core.VerifDir(), "fixtures", "ed25519-rare-factors.json"))
	must(err)
	must(json.Unmarshal(b, &fx))
	two := big.NewInt(2)
	for fi, f := range fx {
		if !c.Next() {
			continue
		}
		r := c.CaseRng()
		blind, ctx := unhexs(f.Blind), unhexs(f.Context)
		k := c15Scalar(blind, ctx)
		ok := false
		switch f.Kind {
		case "divisible-by-2^32":
			ok = k.Sign() != 0 && new(big.Int).Mod(k, new(big.Int).Exp(two, big.NewInt(32), nil)).Sign() == 0
		case "below-2^224":
			ok = k.BitLen() <= 224
		default:
			ok = k.Sign() != 0 && new(big.Int).Mod(k, big.NewInt(65536)).Sign() == 0
		}
		if !ok {
			c.Class("info_rare_factor_fixture_stale")
			continue
		}
		for t := 0; t < 3; t++ {
			seed := r.Bytes(32)
			spriv := stded.NewKeyFromSeed(seed)
			pub := []byte(spriv[32:])
			A, _ := ref.EdDecode(pub)
			want := ref.EdEncode(ref.EdMul(k, A))
			msg := r.Bytes(20)
			c.Eval(1)
			d := map[string]any{"factor_kind": f.Kind, "blind": f.Blind, "context": f.Context, "seed": core.Hex(seed)}
			bad := func(cls, what string) {
				c.Violation("rare-factor:"+cls, "Ed25519 key blinding with a blinding factor that is "+f.Kind+": "+what, d)
			}
			pan, pv, where := core.Guard(func() {
				bp, err := ed25519.BlindPublicKeyWithContext(ed25519.PublicKey(pub), blind, ctx)
				if err != nil || !bytes.Equal(bp, want) {
					bad("blinded-key-differs", fmt.Sprintf("the blinded public key is not the reference's (err=%v)", err))
					return
				}
				up, err := ed25519.UnblindPublicKeyWithContext(bp, blind, ctx)
				if err != nil || !bytes.Equal(up, pub) {
					bad("unblind-does-not-invert", fmt.Sprintf("Unblind(Blind(A)) != A (err=%v)", err))
					return
				}
				ub, err := ed25519.UnblindPublicKeyWithContext(ed25519.PublicKey(pub), blind, ctx)
				if err == nil {
					if bb, err := ed25519.BlindPublicKeyWithContext(ub, blind, ctx); err != nil || !bytes.Equal(bb, pub) {
						bad("blind-does-not-invert-unblind", "Blind(Unblind(A)) != A")
						return
					}
				} else {
					bad("unblind-error", "Unblind refused an ordinary key: "+err.Error())
					return
				}
				sig := ed25519.BlindKeySignWithContext(ed25519.PrivateKey(append([]byte{}, spriv...)), msg, blind, ctx)
				if !stded.Verify(stded.PublicKey(want), msg, sig) {
					bad("signature-does-not-verify", "a blinded-key signature does not verify under the reference's blinded key")
					return
				}
				c.Class("rare_blinding_factors")
			})
			if pan {
				bad("panic:"+where, pv)
			}
		}
		c.Distinctf("rare-factor:%d", fi)
	}
	// public keys with extreme encodings
	if c.Next() {
		r := c.CaseRng()
		var ys []*big.Int
		p := ref.EdP
		for t := int64(1); t < 60; t++ {
			ys = append(ys, new(big.Int).Sub(p, big.NewInt(t)), new(big.Int).Add(new(big.Int).Sub(new(big.Int).Lsh(big.NewInt(1), 255), new(big.Int).Lsh(big.NewInt(1), 231)), big.NewInt(t)), big.NewInt(t+1))
		}
		n := 0
		for _, y := range ys {
			for _, sign := range []byte{0, 0x80} {
				enc := le32(y)
				enc[31] |= sign
				A, ok := ref.EdDecode(enc)
				if !ok || !bytes.Equal(ref.EdEncode(A), enc) {
					continue
				}
				blind, ctx := r.Bytes(32), r.Bytes(r.IntN(12))
				want := ref.EdEncode(ref.EdMul(c15Scalar(blind, ctx), A))
				c.Eval(1)
				d := map[string]any{"public_key": core.Hex(enc), "blind": core.Hex(blind), "context": core.Hex(ctx)}
				pan, pv, _ := core.Guard(func() {
					bp, err := ed25519.BlindPublicKeyWithContext(ed25519.PublicKey(enc), blind, ctx)
					if err != nil || !bytes.Equal(bp, want) {
						c.Violation("extreme-key:blinded-key-differs", fmt.Sprintf("blinding a public key with an extreme (canonical) encoding does not give the reference's key (err=%v)", err), d)
						return
					}
					// unblinding inverts blinding on the prime-order subgroup only (a point with a torsion component is multiplied by
					// k*k^-1 = 1 mod L, which is not 1 mod 8L); the statement is about ordinary keys, so the inverse is checked there
					if bytes.Equal(ref.EdEncode(ref.EdMul(ref.EdL, A)), ref.EdEncode(ref.EdIdentity())) {
						up, err := ed25519.UnblindPublicKeyWithContext(bp, blind, ctx)
						if err != nil || !bytes.Equal(up, enc) {
							c.Violation("extreme-key:unblind-does-not-invert", fmt.Sprintf("Unblind(Blind(A)) != A for a prime-order public key with an extreme encoding (err=%v)", err), d)
							return
						}
						c.Class("extreme_prime_order_keys_unblinded")
					}
					n++
				})
				if pan {
					c.Violation("extreme-key:panic", pv, d)
				}
			}
		}
		c.ClassN("extreme_public_key_encodings", int64(n))
	}
}

func runC15(c *core.Ctx) {
	c15RareFactors(c)
	for h := 0; h < c.Pick(24, 1500); h++ {
		if c.Next() {
			c15History(c, c.CaseRng(), fmt.Sprint(h))
		}
	}
	n := c.Pick(600, 60000)
	pool := make([][]byte, 6)
	pr := c.Rng("pool")
	for i := range pool {
		pool[i] = pr.Bytes(32)
	}
	pool[0] = make([]byte, 32)
	pool[1] = bytes.Repeat([]byte{0xff}, 32)
	for i := 0; i < n; i++ {
		if !c.Next() {
			continue
		}
		r := c.CaseRng()
		seed := r.Bytes(32)
		blind := r.Bytes(32)
		bclass := "seeded"
		if i%5 == 0 {
			blind, bclass = pool[(i/5)%6], fmt.Sprintf("pool%d", (i/5)%6)
		}
		blind2 := pool[(i/5+1+i%4)%6]
		if i%9 == 4 {
			// arguments in a special relation: the blind is the public key's own encoding, or the seed
			spk := stded.NewKeyFromSeed(seed)
			if i%2 == 0 {
				blind, bclass = clone(spk[32:]), "blind=public-key"
			} else {
				blind, bclass = clone(seed), "blind=seed"
			}
			c.Class("blind_in_special_relation_to_key")
		}
		var ctx []byte
		switch i % 4 {
		case 1:
			ctx = []byte{}
		case 2:
			ctx = r.Bytes(1)
		case 3:
			ctx = r.Bytes(200)
		}
		if i%16 == 11 {
			// long contexts: around the sizes at which an implementation might switch from one buffer to streaming
			lens := []int{30, 31, 32, 63, 64, 94, 95, 96, 127, 128, 222, 223, 224, 255, 256, 478, 479, 480, 991, 1023, 1024, 2015, 2016, 2017, 2047, 2048, 4096, 65503, 65536, 1 << 20}
			ctx = r.Bytes(lens[(i/16)%len(lens)]) // 32-byte blind || 0x00 || context: 64, 128, 256, 512, 1024, 2048 bytes in total, and their neighbours
			c.Class("long_contexts")
		}
		msg := r.Bytes(r.IntN(r.Of(1, 40, 300)))
		c.Eval(1)
		d := map[string]any{"seed": core.Hex(seed), "blind": core.Hex(blind), "context": core.Hex(ctx), "message": core.Hex(msg)}
		bad := func(cls, what string) { c.Violation("ed25519-blinding:"+cls, "Ed25519 key blinding: "+what, d) }
		pan, pv, where := core.Guard(func() {
			priv := ed25519.NewKeyFromSeed(seed)
			pub := []byte(priv[32:])
			A, ok := ref.EdDecode(pub)
			if !ok {
				bad("reference", "public key does not decode in the model")
				return
			}
			k := c15Scalar(blind, ctx)
			want := ref.EdEncode(ref.EdMul(k, A))
			// arguments: private copies, or (every fourth case) neighbouring sub-slices of one caller buffer,
			// public key | blind | context | second blind, each with the rest of the buffer as spare capacity
			argPub, argBlind, argCtx := clone(pub), clone(blind), clone(ctx)
			var shared, sharedSnap []byte
			if i%4 == 3 {
				shared = append(append(append(append([]byte{}, pub...), blind...), ctx...), blind2...)
				sharedSnap = clone(shared)
				argPub, argBlind, argCtx = shared[0:32], shared[32:64], shared[64:64+len(ctx)]
				c.Class("arguments_share_one_buffer")
			}
			// (a)
			bpk, err := ed25519.BlindPublicKeyWithContext(ed25519.PublicKey(argPub), argBlind, argCtx)
			if err != nil {
				bad("blind-error", err.Error())
				return
			}
			if !bytes.Equal(bpk, want) {
				d["got"], d["want"] = core.Hex(bpk), core.Hex(want)
				bad("blinded-key-differs-from-reference", "the blinded public key is not the public key multiplied by SHA-512(blind||0x00||context)[0:32] mod L")
				return
			}
			c.Class("blinded_key_equals_reference")
			if ctx == nil {
				b0, err := ed25519.BlindPublicKey(ed25519.PublicKey(clone(pub)), clone(blind))
				if err != nil || !bytes.Equal(b0, want) {
					bad("no-context-entry-point-differs", "BlindPublicKey differs from BlindPublicKeyWithContext(nil)")
					return
				}
				s0 := ed25519.BlindKeySign(priv, clone(msg), clone(blind))
				if !stded.Verify(stded.PublicKey(want), msg, s0) {
					bad("no-context-sign-differs", "BlindKeySign does not verify under BlindPublicKey")
					return
				}
				u0, err := ed25519.UnblindPublicKey(b0, clone(blind))
				if err != nil || !bytes.Equal(u0, pub) {
					bad("no-context-unblind-differs", "UnblindPublicKey does not invert BlindPublicKey")
					return
				}
			}
			// (b)
			sig := ed25519.BlindKeySignWithContext(priv, clone(msg), argBlind, argCtx)
			_ = sharedSnap // writes into the caller's buffer are C16's business; here only the results are judged
			sig2 := ed25519.BlindKeySignWithContext(priv, clone(msg), clone(blind), clone(ctx))
			if !bytes.Equal(sig, sig2) {
				bad("signature-not-deterministic", "two calls with equal arguments give different signatures")
				return
			}
			c.Class("signature_deterministic")
			d["signature"] = core.Hex(sig)
			okStd := stded.Verify(stded.PublicKey(want), msg, sig)
			okFork := ed25519.Verify(ed25519.PublicKey(want), msg, sig)
			if !okStd || !okFork {
				bad("signature-does-not-verify", fmt.Sprintf("a blinded-key signature does not verify under the blinded key (crypto/ed25519: %v, this package: %v)", okStd, okFork))
				return
			}
			c.Class("signature_verifies_std_and_fork")
			if k.Cmp(big.NewInt(1)) != 0 {
				if stded.Verify(stded.PublicKey(pub), msg, sig) || ed25519.Verify(ed25519.PublicKey(pub), msg, sig) {
					bad("signature-verifies-under-original-key", "a blinded-key signature verifies under the original public key")
					return
				}
				c.Class("signature_fails_under_original")
			}
			// (c)
			u, err := ed25519.UnblindPublicKeyWithContext(bpk, clone(blind), clone(ctx))
			if err != nil || !bytes.Equal(u, pub) {
				bad("unblind-does-not-invert", "Unblind(Blind(A)) != A")
				return
			}
			u2, err := ed25519.UnblindPublicKeyWithContext(ed25519.PublicKey(clone(pub)), clone(blind), clone(ctx))
			if err != nil {
				bad("unblind-error", err.Error())
				return
			}
			b2, err := ed25519.BlindPublicKeyWithContext(u2, clone(blind), clone(ctx))
			if err != nil || !bytes.Equal(b2, pub) {
				bad("blind-does-not-invert-unblind", "Blind(Unblind(A)) != A")
				return
			}
			c.Class("unblind_inverts")
			// (d)
			ab, err1 := ed25519.BlindPublicKeyWithContext(bpk, clone(blind2), clone(ctx))
			t, err2 := ed25519.BlindPublicKeyWithContext(ed25519.PublicKey(clone(pub)), clone(blind2), clone(ctx))
			if err1 != nil || err2 != nil {
				bad("blind-error", "second blinding failed")
				return
			}
			ba, err := ed25519.BlindPublicKeyWithContext(t, clone(blind), clone(ctx))
			if err != nil || !bytes.Equal(ab, ba) {
				bad("does-not-commute", "two blindings depend on the order")
				return
			}
			c.Class("commutes")
			// (e)
			if !bytes.Equal(blind, blind2) {
				if bytes.Equal(t, bpk) {
					bad("blind-ignored", "two different blinds give the same blinded key")
					return
				}
				c.Class("blind_separation")
			}
			for _, ctx2 := range [][]byte{append(clone(ctx), 0), append(clone(ctx), 'x'), {0xff}} {
				if bytes.Equal(ctx2, ctx) {
					continue
				}
				o, err := ed25519.BlindPublicKeyWithContext(ed25519.PublicKey(clone(pub)), clone(blind), ctx2)
				if err != nil || bytes.Equal(o, bpk) {
					d["other_context"] = core.Hex(ctx2)
					bad("context-ignored", "two different contexts give the same blinded key")
					return
				}
				if stded.Verify(stded.PublicKey(o), msg, sig) {
					bad("context-ignored-in-signing", "a signature made under one context verifies under the key blinded with another")
					return
				}
			}
			c.Class("context_separation")
			c.Distinctf("%s:ctx%d:m%d", bclass, len(ctx), len(msg))
			if i < 2 {
				c.Sample("blinding case", map[string]any{"blind": core.Hex(blind), "context_len": len(ctx), "blinded_key": core.Hex(bpk)})
			}
		})
		if pan {
			d["panic"] = pv
			bad("panic:"+where, "panic: "+pv)
		}
	}
}
