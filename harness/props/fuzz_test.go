//go:build verif

package props

import (
	"testing"

	"verifharness/internal/core"
)

// FuzzC03 is the coverage-guided stage of the C03 monitor: Go's native fuzzer mutates (target index, input)
// pairs starting from the honest encodings of every byte-consuming entry point; the oracle is the same as
// in the enumerated stage - the call returns (a panic fails the fuzz run) and allocates within the
// calibrated bound. Run by the driver in the thorough tier:
//
//	go test -tags verif -run '^$' -fuzz '^FuzzC03$' -fuzztime <N>x ./props
func FuzzC03(f *testing.F) {
	c := core.NewCtx(core.Lookup("C03"), "quick", 1, 0, 1)
	w := &c03World{c: c}
	w.build()
	var maxHonest, maxRatio uint64
	for ti, t := range w.targets {
		for _, s := range t.seeds {
			f.Add(uint16(ti), s)
			buf := append([]byte{}, s...)
			before := allocBytes()
			core.Guard(func() { t.call(buf) })
			d := allocBytes() - before
			if d > maxHonest {
				maxHonest = d
			}
			if len(s) > 0 && d/uint64(len(s)) > maxRatio {
				maxRatio = d / uint64(len(s))
			}
		}
		if t.rebuild != nil {
			for i, b := range t.rebuild(c.Rng("fuzzseed")) {
				if i%5 == 0 && len(b) < 2000 {
					f.Add(uint16(ti), b)
				}
			}
		}
	}
	allocC := 8 * maxHonest
	if allocC < 8<<20 {
		allocC = 8 << 20 // coverage instrumentation and the fuzz worker's own bookkeeping allocate too
	}
	slope := 8 * maxRatio
	if slope < 4096 {
		slope = 4096
	}
	f.Fuzz(func(t *testing.T, ti uint16, data []byte) {
		tg := w.targets[int(ti)%len(w.targets)]
		buf := make([]byte, len(data))
		copy(buf, data)
		before := allocBytes()
		tg.call(buf) // a panic here fails the fuzz run and the input is written to testdata/fuzz
		delta := allocBytes() - before
		if bound := allocC + slope*uint64(len(data)); delta > bound {
			t.Fatalf("%s allocated %d bytes for a %d-byte input (bound %d)", tg.name, delta, len(data), bound)
		}
	})
}

// FuzzC04 is the coverage-guided stage of the C04 monitor: arbitrary byte strings are offered to every
// decoder; whenever one accepts, the accepted-bytes oracle of the enumerated stage applies (canonical
// re-encoding no longer than the input, decodes to the same value, equals Marshal).
func FuzzC04(f *testing.F) {
	c := core.NewCtx(core.Lookup("C04"), "quick", 1, 0, 1)
	c.Next() // a current case for the recorder
	m := c04{c}
	rcs := reqCodecs()
	r := c.Rng("fuzzseed")
	nCodecs := len(rcs) + 3 + len(tokenCodecs)
	for i, rc := range rcs {
		for k := 0; k < 4; k++ {
			f.Add(uint8(i), rc.gen(r, k))
		}
	}
	f.Add(uint8(len(rcs)), encChallenge(2, "issuer.example", r.Bytes(32), []string{"a.example", "b.example"}))
	f.Add(uint8(len(rcs)), encChallenge(1, "i", nil, []string{""}))
	f.Add(uint8(len(rcs)+1), encBatch([]refReq{{1, 1, r.Bytes(49)}, {2, 2, r.Bytes(256)}}))
	f.Add(uint8(len(rcs)+1), []byte{0})
	f.Add(uint8(len(rcs)+2), encRespList([]refEntry{{true, 1, r.Bytes(145)}, {}, {true, 2, r.Bytes(256)}}))
	f.Add(uint8(len(rcs)+2), []byte{0})
	for i, tc := range tokenCodecs {
		f.Add(uint8(len(rcs)+3+i), r.Bytes(98+tc.nk))
	}
	f.Fuzz(func(t *testing.T, which uint8, data []byte) {
		before := c.ViolationCount()
		w := int(which) % nCodecs
		in := clone(data)
		if in == nil {
			in = []byte{}
		}
		switch {
		case w < len(rcs):
			rc := rcs[w]
			o, canon := rc.mk()
			if o.Unmarshal(clone(in)) {
				m.acceptedReq(rc, o, canon, in, "fuzz")
			}
		case w == len(rcs):
			m.challengeAccepted(in, "fuzz")
		case w == len(rcs)+1:
			m.batchAccepted(in, "fuzz", false)
		case w == len(rcs)+2:
			m.respAccepted(nil, in, "fuzz", false)
		default:
			tc := tokenCodecs[w-len(rcs)-3]
			if tok, err := tc.dec(clone(in)); err == nil {
				cenc := encToken(tok)
				if len(cenc) > len(in) || string(cenc) != string(in[:len(cenc)]) || string(tok.Marshal()) != string(cenc) {
					t.Fatalf("%s token decoder: canonical encoding of an accepted token is not a prefix of the accepted bytes", tc.name)
				}
			}
		}
		if c.ViolationCount() > before {
			t.Fatalf("accepted-bytes oracle: %s", c.LastViolation())
		}
	})
}
