package props

import (
	"crypto/elliptic"
	"crypto/sha256"
	"crypto/sha512"
	"fmt"
	"io"
	"math/big"

	hpke "github.com/cisco/go-hpke"

	"verifharness/internal/ref"
)

// Own encoders for the rate-limited (type 3) messages, written from the draft's
// TLS-presentation structs. They share no code with pat-go's Marshal methods.

// t3Request: token_type(2) || request_key(49) || name_key_id(32) || u16 len || ciphertext || signature(96)
func t3Request(requestKey, nameKeyID, ct, sig []byte) []byte {
	out := []byte{0, 3}
	out = append(out, requestKey...)
	out = append(out, nameKeyID...)
	out = append(out, byte(len(ct)>>8), byte(len(ct)))
	out = append(out, ct...)
	return append(out, sig...)
}

// t3SignedMessage is what the request signature covers (everything but the signature).
func t3SignedMessage(requestKey, nameKeyID, ct []byte) []byte {
	return t3Request(requestKey, nameKeyID, ct, nil)
}

// t3Inner: token_key_id(1) || blinded_msg(256) || u16 len || padded_origin
func t3Inner(tokenKeyID byte, blindedMsg, paddedOrigin []byte) []byte {
	out := []byte{tokenKeyID}
	out = append(out, blindedMsg...)
	out = append(out, byte(len(paddedOrigin)>>8), byte(len(paddedOrigin)))
	return append(out, paddedOrigin...)
}

// refPadOrigin pads with zeros to the next multiple of 32 (one full block for the empty name).
func refPadOrigin(name string) []byte {
	n := len(name)
	blocks := (n + 31) / 32
	if blocks == 0 {
		blocks = 1
	}
	out := make([]byte, 32*blocks)
	copy(out, name)
	return out
}

// t3ParsedRequest is the result of the harness's own fixed-offset parser.
type t3ParsedRequest struct {
	RequestKey, NameKeyID, Ciphertext, Signature []byte
}

func t3ParseRequest(b []byte) (*t3ParsedRequest, bool) {
	if len(b) < 2+49+32+2 || b[0] != 0 || b[1] != 3 {
		return nil, false
	}
	l := int(b[83])<<8 | int(b[84])
	if l == 0 || len(b) != 85+l+96 {
		return nil, false
	}
	return &t3ParsedRequest{b[2:51], b[51:83], b[85 : 85+l], b[85+l:]}, true
}

// nameKeyInfo decodes an EncapKey encoding with fixed offsets (X25519 only: 1+2+32+2+2).
type nameKeyInfo struct {
	enc   []byte
	id    byte
	suite hpke.CipherSuite
	pk    hpke.KEMPublicKey
}

func parseNameKey(enc []byte) (*nameKeyInfo, error) {
	if len(enc) != 39 {
		return nil, fmt.Errorf("unexpected EncapKey length %d", len(enc))
	}
	kem := hpke.KEMID(uint16(enc[1])<<8 | uint16(enc[2]))
	kdf := hpke.KDFID(uint16(enc[35])<<8 | uint16(enc[36]))
	aead := hpke.AEADID(uint16(enc[37])<<8 | uint16(enc[38]))
	suite, err := hpke.AssembleCipherSuite(kem, kdf, aead)
	if err != nil {
		return nil, err
	}
	pk, err := suite.KEM.DeserializePublicKey(enc[3:35])
	if err != nil {
		return nil, err
	}
	return &nameKeyInfo{enc: append([]byte{}, enc...), id: enc[0], suite: suite, pk: pk}, nil
}

// aad = key id || kem || kdf || aead || 0x0003 || request key || SHA-256(EncapKey)
func (k *nameKeyInfo) aad(requestKey []byte, nameKeyID []byte) []byte {
	out := []byte{k.id, k.enc[1], k.enc[2], k.enc[35], k.enc[36], k.enc[37], k.enc[38], 0, 3}
	out = append(out, requestKey...)
	return append(out, nameKeyID...)
}

func (k *nameKeyInfo) keyID() []byte {
	h := sha256.Sum256(k.enc)
	return h[:]
}

// seal produces enc || ct for an inner plaintext, bound to requestKey; it also
// returns the exported response secret.
func (k *nameKeyInfo) seal(rnd io.Reader, requestKey, plaintext []byte) (encCt []byte, secret []byte, err error) {
	return k.sealRaw(rnd, k.aad(requestKey, k.keyID()), plaintext)
}

// sealRaw seals with an explicit AAD.
func (k *nameKeyInfo) sealRaw(rnd io.Reader, aad, plaintext []byte) (encCt []byte, secret []byte, err error) {
	enc, ctx, err := hpke.SetupBaseS(k.suite, rnd, k.pk, []byte("TokenRequest"))
	if err != nil {
		return nil, nil, err
	}
	ct := ctx.Seal(aad, plaintext)
	secret = ctx.Export([]byte("TokenResponse"), k.suite.AEAD.KeySize())
	return append(append([]byte{}, enc...), ct...), secret, nil
}

// t3Signer signs rate-limited requests with a key-blinded ECDSA key, computed
// by the reference (own hash_to_field, std curve arithmetic and std ECDSA).
type t3Signer struct {
	curve         elliptic.Curve
	secret        *big.Int // client secret
	blindD        *big.Int // per-request blind key (as integer)
	ClientKeyEnc  []byte
	RequestKeyEnc []byte
	signD         *big.Int
}

func t3Ctx(label string) []byte { return append([]byte{0, 3}, label...) }

func newT3Signer(secret, blind []byte) *t3Signer {
	curve := elliptic.P384()
	s := &t3Signer{curve: curve, secret: new(big.Int).SetBytes(secret), blindD: new(big.Int).SetBytes(blind)}
	cx, cy := ref.ECBaseMul(curve, s.secret)
	s.ClientKeyEnc = ref.ECCompress(curve, cx, cy)
	k := ref.ECDSABlindScalar(curve, s.blindD, t3Ctx("ClientBlind"))
	bx, by := ref.ECMul(curve, cx, cy, k)
	s.RequestKeyEnc = ref.ECCompress(curve, bx, by)
	s.signD = new(big.Int).Mul(s.secret, k)
	s.signD.Mod(s.signD, curve.Params().N)
	return s
}

// sign returns the 96-byte r||s signature over the request prefix, made with
// the standard library's ECDSA under the blinded signing key.
func (s *t3Signer) sign(rnd io.Reader, message []byte) []byte {
	return stdECDSASign(rnd, s.curve, s.signD, sha512Sum384(message))
}

func sha512Sum384(b []byte) []byte {
	h := sha512.Sum384(b)
	return h[:]
}
