package props

import (
	"bytes"
	"fmt"

	"github.com/cloudflare/circl/oprf"

	"github.com/cloudflare/pat-go/tokens"
	"github.com/cloudflare/pat-go/tokens/type1"
	"github.com/cloudflare/pat-go/tokens/type5"

	"verifharness/internal/core"
	"verifharness/internal/ref"
)

func init() {
	core.Register(&core.Prop{
		ID:    "C10",
		Level: "exploration",
		Rule: "tokens.Token values handed to BasicPrivateIssuer.Verify / BatchedPrivateIssuer.Verify: honestly issued tokens, every single-bit flip of every field of each, authenticator truncated/extended/empty, every token against every other key and against the issuer of the other type, " +
			"type changed with the authenticator recomputed by the reference (must be accepted), hostile field lengths, shifted field boundaries. Oracle: Verify returns nil iff authenticator == circl FullEvaluate(key, be16(type)||nonce||context||keyid) computed by the harness from the fields as carried. " +
			"distinct_nontrivial = distinct (issuer type, case class, field, bit or length) keys",
		Floors:      []string{"cancelling_differences_rejected", "accepted_agree", "rejected_agree", "bitflip_rejected", "other_key_rejected", "other_type_rejected", "recomputed_accepted", "related_derivation_rejected", "issuer_consistent_after_key_object_reuse"},
		Assumptions: []string{"circl VOPRF FullEvaluate is the trusted reference"},
		Run:         runC10,
	})
}

type c10Issuer struct {
	name   string
	suite  oprf.Suite
	key    *oprf.PrivateKey
	verify func(tokens.Token) error
	typ    uint16
	nk     int
	bufs   [4][]byte
}

func c10Check(c *core.Ctx, is *c10Issuer, tok tokens.Token, class string, mustReject bool) {
	input := ref.TokenInput(tok.TokenType, tok.Nonce, tok.Context, tok.KeyID)
	want := RefVOPRF(is.suite, is.key, input)
	acceptRef := want != nil && bytes.Equal(want, tok.Authenticator)
	var err error
	c.Eval(1)
	c.Note("Verify " + is.name + " " + class)
	// the verifier reads every token out of the same four buffers, refilled in place (a server parsing each presented
	// token into one receive buffer); the reference above judged private copies
	fill := func(i int, v []byte) []byte {
		if v == nil {
			return nil
		}
		is.bufs[i] = append(is.bufs[i][:0], v...)
		return is.bufs[i]
	}
	shared := tokens.Token{TokenType: tok.TokenType, Nonce: fill(0, tok.Nonce), Context: fill(1, tok.Context), KeyID: fill(2, tok.KeyID), Authenticator: fill(3, tok.Authenticator)}
	pan, pv, where := core.Guard(func() { err = is.verify(shared) })
	if !pan && (!bytes.Equal(shared.Nonce, tok.Nonce) || !bytes.Equal(shared.Context, tok.Context) || !bytes.Equal(shared.KeyID, tok.KeyID) || !bytes.Equal(shared.Authenticator, tok.Authenticator)) {
		c.Violation("verify:token-written:"+is.name, "Verify modified the token it was given", map[string]any{"issuer": is.name, "class": class})
		return
	}
	detail := map[string]any{"issuer": is.name, "class": class, "token_type": tok.TokenType, "nonce": core.Hex(tok.Nonce), "context": core.Hex(tok.Context), "key_id": core.Hex(tok.KeyID), "authenticator": core.Hex(tok.Authenticator)}
	if pan {
		detail["panic"] = pv
		c.Violation("verify:panic:"+is.name+":"+where, "Verify panicked: "+pv+" at "+where, detail)
		return
	}
	got := err == nil
	if got != acceptRef {
		if got {
			c.Violation("verify:accepted-invalid:"+is.name+":"+classKey(class), "Verify accepted a token whose authenticator is not the VOPRF evaluation of its fields ("+class+")", detail)
		} else {
			c.Violation("verify:rejected-valid:"+is.name+":"+classKey(class), "Verify rejected a token whose authenticator is the VOPRF evaluation of its fields ("+class+"): "+err.Error(), detail)
		}
		return
	}
	if mustReject && acceptRef {
		// the reference itself says accept: the case generator is wrong, not the code
		c.Class("generator_case_not_rejecting")
	}
	if got {
		c.Class("accepted_agree")
	} else {
		c.Class("rejected_agree")
	}
}

func classKey(class string) string {
	// strip positions so that the key names the class, not the bit
	for i := 0; i < len(class); i++ {
		if class[i] == '#' {
			return class[:i]
		}
	}
	return class
}

func runC10(c *core.Ctx) {
	setup := c.Rng("setup")
	nkeys := 3
	var iss1, iss5 []*c10Issuer
	for i := 0; i < nkeys; i++ {
		k1 := VOPRFKey(oprf.SuiteP384, setup.Bytes(32))
		i1 := type1.NewBasicPrivateIssuer(k1)
		iss1 = append(iss1, &c10Issuer{fmt.Sprintf("type1#%d", i), oprf.SuiteP384, k1, i1.Verify, 1, 48, [4][]byte{}})
		k5 := VOPRFKey(oprf.SuiteRistretto255, setup.Bytes(32))
		i5 := type5.NewBatchedPrivateIssuer(k5)
		iss5 = append(iss5, &c10Issuer{fmt.Sprintf("type5#%d", i), oprf.SuiteRistretto255, k5, i5.Verify, 5, 64, [4][]byte{}})
	}
	all := append(append([]*c10Issuer{}, iss1...), iss5...)

	// the caller REUSES the key object it built an issuer from (loads another key into it). What the issuer then does is
	// not laid down by any statement (type 1 works on a snapshot, type 5 on the caller's object, whose cached public key
	// circl does not refresh: an honest run through such a type-5 issuer does not complete, on the unchanged tree too).
	// Judged is only this: IF an honest run through that issuer completes, the issuer's own Verify accepts the token it has
	// just issued, and the token is the VOPRF evaluation under the key the issuer advertises.
	for rep := 0; rep < 4; rep++ {
		if !c.Next() {
			continue
		}
		r := c.CaseRng()
		for _, suite := range []oprf.Suite{oprf.SuiteP384, oprf.SuiteRistretto255} {
			ka, kb := VOPRFKey(suite, r.Bytes(32)), VOPRFKey(suite, r.Bytes(32))
			obj := FreshVOPRFKey(suite, ka)
			kbBytes, _ := kb.MarshalBinary()
			chal, nonce := r.Bytes(12), r.Bytes(32)
			var tok tokens.Token
			var adv []byte
			var verr error
			completed := false
			pan, pv, where := core.Guard(func() {
				if suite == oprf.SuiteP384 {
					is := type1.NewBasicPrivateIssuer(obj)
					if rep%2 == 1 {
						is.TokenKeyID()
					}
					if obj.UnmarshalBinary(suite, kbBytes) != nil {
						return
					}
					adv, _ = is.TokenKey().MarshalBinary()
					st, err := type1.NewBasicPrivateClient().CreateTokenRequest(chal, nonce, is.TokenKeyID(), is.TokenKey())
					if err != nil {
						return
					}
					resp, err := is.Evaluate(st.Request())
					if err != nil {
						return
					}
					if tok, err = st.FinalizeToken(resp); err != nil {
						return
					}
					completed, verr = true, is.Verify(tok)
				} else {
					is := type5.NewBatchedPrivateIssuer(obj)
					if rep%2 == 1 {
						is.TokenKeyID()
					}
					if obj.UnmarshalBinary(suite, kbBytes) != nil {
						return
					}
					adv, _ = is.TokenKey().MarshalBinary()
					st, err := type5.NewBatchedPrivateClient().CreateTokenRequest(chal, [][]byte{nonce}, is.TokenKeyID(), is.TokenKey())
					if err != nil {
						return
					}
					resp, err := is.Evaluate(st.Request())
					if err != nil {
						return
					}
					toks, err := st.FinalizeTokens(resp)
					if err != nil || len(toks) != 1 {
						return
					}
					tok = toks[0]
					completed, verr = true, is.Verify(tok)
				}
			})
			c.Eval(1)
			d := map[string]any{"suite": suite.Identifier(), "issuer_used_before_the_reuse": rep%2 == 1}
			if pan {
				c.Violation("verify:key-object-reused:panic:"+where, "panic after the caller reused its key object: "+pv, d)
				continue
			}
			if !completed {
				c.Class("info_run_does_not_complete_after_key_object_reuse")
				continue
			}
			paBytes, _ := ka.Public().MarshalBinary()
			cur := kb
			if bytes.Equal(adv, paBytes) {
				cur = ka
			}
			want := RefVOPRF(suite, cur, tok.AuthenticatorInput())
			if verr != nil || !bytes.Equal(want, tok.Authenticator) {
				c.Violation("verify:key-object-reused:own-token-rejected", fmt.Sprintf("after the caller loaded another key into the object it had built the issuer from, an honest run through the issuer completes, but the issuer's Verify rejects the token it has just issued, or the token is not the evaluation under the advertised key (Verify: %v)", verr), d)
				continue
			}
			c.Class("issuer_consistent_after_key_object_reuse")
		}
	}

	// honest tokens: made by the reference (nonce, context, keyid as the client would)
	mk := func(is *c10Issuer, r *core.Rand) tokens.Token {
		t := tokens.Token{TokenType: is.typ, Nonce: r.Bytes(32), Context: r.Bytes(32), KeyID: RefVOPRFKeyID(is.key)}
		t.Authenticator = RefVOPRF(is.suite, is.key, ref.TokenInput(t.TokenType, t.Nonce, t.Context, t.KeyID))
		return t
	}
	ntok := c.Pick(1, 24)
	for _, is := range all {
		for ti := 0; ti < ntok; ti++ {
			r := c.IdxRng("tok:"+is.name, int64(ti))
			base := mk(is, r)
			// also one honestly *issued* token through the client/issuer flow
			if c.Next() {
				c10Check(c, is, base, "honest", false)
				c.Distinctf("%s:honest:%d", is.name, ti)
				c.Sample("honest token", map[string]any{"issuer": is.name, "token": core.Hex(base.Marshal())})
			}
			// exhaustive single-bit flips of every field
			fields := []struct {
				name string
				get  func(*tokens.Token) *[]byte
			}{
				{"nonce", func(t *tokens.Token) *[]byte { return &t.Nonce }},
				{"context", func(t *tokens.Token) *[]byte { return &t.Context }},
				{"keyid", func(t *tokens.Token) *[]byte { return &t.KeyID }},
				{"authenticator", func(t *tokens.Token) *[]byte { return &t.Authenticator }},
			}
			for _, f := range fields {
				if !c.Next() {
					continue
				}
				n := len(*f.get(&base))
				for bit := 0; bit < n*8; bit++ {
					t := cloneToken(base)
					(*f.get(&t))[bit/8] ^= 1 << uint(bit%8)
					c10Check(c, is, t, fmt.Sprintf("bitflip:%s#%d", f.name, bit), true)
					c.Class("bitflip_rejected")
				}
				c.Distinctf("%s:bitflip:%s:%d", is.name, f.name, ti)
			}
			if c.Next() {
				for bit := 0; bit < 16; bit++ {
					t := cloneToken(base)
					t.TokenType ^= 1 << uint(bit)
					c10Check(c, is, t, fmt.Sprintf("bitflip:type#%d", bit), true)
					c.Class("bitflip_rejected")
				}
				c.Distinctf("%s:bitflip:type:%d", is.name, ti)
				c.Exhaustive("single-bit flips of every field of each honest token")
			}
			// differences that cancel in a comparison which ADDS up per-word differences instead of OR-ing them: the top bit
			// flipped in two bytes (every pair: whatever the word size and byte order, two top bits sum to zero), and word
			// pairs whose XOR differences d, -d sum to zero (8-, 16-, 32- and 64-bit words, both byte orders)
			if c.Next() {
				auth := base.Authenticator
				for i := 0; i < len(auth); i++ {
					for j := i + 1; j < len(auth); j++ {
						t := cloneToken(base)
						t.Authenticator[i] ^= 0x80
						t.Authenticator[j] ^= 0x80
						c10Check(c, is, t, fmt.Sprintf("cancelling-difference:top-bits#%d,%d", i, j), true)
					}
				}
				for _, w := range []int{1, 2, 4, 8} {
					for _, be := range []bool{false, true} {
						for _, dv := range []uint64{1, 3, 0x0101010101010101, 0x7fffffffffffffff} {
							for a := 0; a+2*w <= len(auth) && a < 3*w; a += w {
								t := cloneToken(base)
								mask := uint64(1)<<(8*uint(w)) - 1
								if w == 8 {
									mask = ^uint64(0)
								}
								d1 := dv & mask
								d2 := (-dv) & mask
								for k := 0; k < w; k++ {
									sh := uint(8 * k)
									if be {
										sh = uint(8 * (w - 1 - k))
									}
									t.Authenticator[a+k] ^= byte(d1 >> sh)
									t.Authenticator[a+w+k] ^= byte(d2 >> sh)
								}
								c10Check(c, is, t, fmt.Sprintf("cancelling-difference:words-%d-be=%v", w*8, be), true)
							}
						}
					}
				}
				c.Class("cancelling_differences_rejected")
				c.Distinctf("%s:cancelling:%d", is.name, ti)
			}
			// authenticator length changes
			if c.Next() {
				for _, cls := range []string{"auth-truncated", "auth-extended", "auth-empty", "auth-nil", "auth-prefix-only"} {
					t := cloneToken(base)
					switch cls {
					case "auth-truncated":
						t.Authenticator = t.Authenticator[:len(t.Authenticator)-1]
					case "auth-extended":
						t.Authenticator = append(t.Authenticator, 0)
					case "auth-empty":
						t.Authenticator = []byte{}
					case "auth-nil":
						t.Authenticator = nil
					case "auth-prefix-only":
						t.Authenticator = t.Authenticator[:8]
					}
					c10Check(c, is, t, cls, true)
					c.Distinctf("%s:%s", is.name, cls)
				}
			}
			// each token against every other issuer (other key / other type)
			if c.Next() {
				for _, other := range all {
					if other == is {
						continue
					}
					cls := "other-key"
					if other.typ != is.typ {
						cls = "other-type-issuer"
						c.Class("other_type_rejected")
					} else {
						c.Class("other_key_rejected")
					}
					c10Check(c, other, base, cls, true)
					c.Distinctf("%s:%s:%s", is.name, cls, other.name)
				}
			}
			// type changed and authenticator recomputed for the changed input: must be accepted
			if c.Next() {
				for _, ty := range []uint16{0, 1, 2, 3, 5, 0xffff} {
					t := cloneToken(base)
					t.TokenType = ty
					t.Authenticator = RefVOPRF(is.suite, is.key, ref.TokenInput(ty, t.Nonce, t.Context, t.KeyID))
					c10Check(c, is, t, "type-changed-recomputed", false)
					c.Class("recomputed_accepted")
				}
				// shifted field boundaries, same concatenation: accepted by the statement
				t := cloneToken(base)
				t.Nonce, t.Context = base.Nonce[:20], append(clone(base.Nonce[20:]), base.Context...)
				c10Check(c, is, t, "shifted-boundaries", false)
				c.Class("recomputed_accepted")
				c.Distinctf("%s:recomputed:%d", is.name, ti)
			}
			// authenticators from RELATED derivations under the same key: the non-verifiable (base) OPRF mode, the
			// partially oblivious mode with empty and non-empty info, the other suite's hash over the same key bytes where the
			// key decodes there, the evaluation of a prefix/suffix of the input, of the input with the authenticator appended.
			// None of them is the VOPRF evaluation of the fields as carried, so each must be rejected.
			if c.Next() {
				input := ref.TokenInput(base.TokenType, base.Nonce, base.Context, base.KeyID)
				rel := map[string][]byte{}
				if o, err := oprf.NewServer(is.suite, is.key).FullEvaluate(input); err == nil {
					rel["base-mode-oprf"] = o
				}
				for iname, info := range map[string][]byte{"poprf-empty-info": {}, "poprf-info": []byte("legacy")} {
					if o, err := oprf.NewPartialObliviousServer(is.suite, is.key).FullEvaluate(input, info); err == nil {
						rel[iname] = o
					}
				}
				rel["voprf-of-input-prefix"] = RefVOPRF(is.suite, is.key, input[:len(input)-1])
				rel["voprf-of-input-without-type"] = RefVOPRF(is.suite, is.key, input[2:])
				rel["voprf-of-empty-input"] = RefVOPRF(is.suite, is.key, nil)
				rel["voprf-of-nonce-only"] = RefVOPRF(is.suite, is.key, base.Nonce)
				rel["voprf-of-input-and-authenticator"] = RefVOPRF(is.suite, is.key, append(clone(input), base.Authenticator...))
				for cls, a := range rel {
					if a == nil || bytes.Equal(a, base.Authenticator) {
						continue
					}
					t := cloneToken(base)
					t.Authenticator = a
					c10Check(c, is, t, "related-derivation:"+cls, true)
					c.Class("related_derivation_rejected")
				}
				c.Distinctf("%s:related:%d", is.name, ti)
			}
			// hostile field lengths
			if c.Next() {
				for _, l := range []int{0, 1, 31, 33, 64, 65536} {
					for fi, f := range fields[:3] {
						t := cloneToken(base)
						*f.get(&t) = r.Bytes(l)
						c10Check(c, is, t, fmt.Sprintf("hostile-length:%s#%d", f.name, l), false)
						// and with a matching authenticator for the hostile shape
						t.Authenticator = RefVOPRF(is.suite, is.key, ref.TokenInput(t.TokenType, t.Nonce, t.Context, t.KeyID))
						c10Check(c, is, t, fmt.Sprintf("hostile-length-recomputed:%s#%d", f.name, l), false)
						c.Distinctf("%s:hostile:%d:%d", is.name, fi, l)
					}
				}
			}
		}
	}
	// honestly issued tokens through the real client flow
	n := c.Pick(20, 3000)
	for i := 0; i < n; i++ {
		if !c.Next() {
			continue
		}
		r := c.CaseRng()
		is := iss1[i%len(iss1)]
		issuer := type1.NewBasicPrivateIssuer(is.key)
		st, err := type1.NewBasicPrivateClient().CreateTokenRequest(r.Bytes(r.IntN(80)), r.Bytes(32), issuer.TokenKeyID(), issuer.TokenKey())
		if err != nil {
			continue
		}
		resp, err := issuer.Evaluate(st.Request())
		if err != nil {
			continue
		}
		tok, err := st.FinalizeToken(resp)
		if err != nil {
			continue
		}
		c10Check(c, is, tok, "issued", false)
		bit := r.IntN(len(tok.Authenticator) * 8)
		t2 := cloneToken(tok)
		t2.Authenticator[bit/8] ^= 1 << uint(bit%8)
		c10Check(c, is, t2, "issued-bitflip", true)
		c.Distinctf("issued:%d", i)
	}
}

func cloneToken(t tokens.Token) tokens.Token {
	return tokens.Token{TokenType: t.TokenType, Nonce: clone(t.Nonce), Context: clone(t.Context), KeyID: clone(t.KeyID), Authenticator: clone(t.Authenticator)}
}
