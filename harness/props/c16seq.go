package props

import (
	"bytes"
	"crypto/rand"
	"fmt"
	"io"
	"reflect"
	"strings"
	"sync/atomic"

	"github.com/cloudflare/circl/group"
	"github.com/cloudflare/circl/oprf"

	"github.com/cloudflare/pat-go/tokens"
	"github.com/cloudflare/pat-go/tokens/batched"
	"github.com/cloudflare/pat-go/tokens/type1"
	"github.com/cloudflare/pat-go/tokens/type2"
	"github.com/cloudflare/pat-go/tokens/type3"
	"github.com/cloudflare/pat-go/tokens/type5"

	"verifharness/internal/core"
)

func oprfGroup(s oprf.Suite) group.Group { return s.Group() }

func setupReader() io.Reader { return rand.Reader }

// registry remembers every byte slice an object handed out (or was given) and
// checks after each later call that its contents are still the same.
type tracked struct {
	name string
	ptr  []byte
	snap []byte
}

type registry struct{ items []tracked }

func (g *registry) track(name string, b []byte) {
	if len(b) == 0 {
		return
	}
	g.items = append(g.items, tracked{name, b, clone(b)})
}

func (g *registry) trackToken(name string, t tokens.Token) {
	g.track(name+".Nonce", t.Nonce)
	g.track(name+".Context", t.Context)
	g.track(name+".KeyID", t.KeyID)
	g.track(name+".Authenticator", t.Authenticator)
}

// callerOverwrites models the caller reusing a value it was handed (its own token): the newest tracked slice
// whose name ends in suffix is overwritten by the caller, and from then on that is its expected content.
func (g *registry) callerOverwrites(suffix string) {
	for i := len(g.items) - 1; i >= 0; i-- {
		if strings.HasSuffix(g.items[i].name, suffix) {
			for k := range g.items[i].ptr {
				g.items[i].ptr[k] ^= 0x5a
			}
			// only the caller wrote just now: whatever other tracked values alias this memory changed by the
			// caller's own hand, so their expected content moves with it
			for j := range g.items {
				g.items[j].snap = clone(g.items[j].ptr)
			}
			return
		}
	}
}

func (g *registry) changed() (string, []byte, []byte, bool) {
	for _, it := range g.items {
		if !bytes.Equal(it.ptr, it.snap) {
			return it.name, it.snap, clone(it.ptr), true
		}
	}
	return "", nil, nil, false
}

// setupFailure carries what a world builder saw when an honest setup step failed.
type setupFailure struct {
	typ, step, changed string
	before, after      []byte
}

var lastSetup atomic.Value

// setupStep runs one honest setup call of a world builder: afterwards every value tracked so far must be
// unchanged; an error is fatal for the builder.
func (w *seqWorld) setupStep(step string, err error) {
	if name, before, after, ch := w.reg.changed(); ch {
		lastSetup.Store(&setupFailure{typ: w.typ, step: step, changed: name, before: before, after: after})
		panic("setup: tracked value changed after " + step)
	}
	if err != nil {
		lastSetup.Store(&setupFailure{typ: w.typ, step: step})
		panic("setup: " + step + ": " + err.Error())
	}
}

type seqOp struct {
	name string
	run  func()
}

type seqWorld struct {
	typ string
	reg *registry
	ops []seqOp
	// intact, if set, names a caller-owned object (not a byte slice) that no longer is what the caller left, or ""
	intact func() string
}

// sameObject reports whether two interface values hold the very same object (pointer identity for pointers).
func sameObject(a, b any) (same bool) {
	defer func() {
		if recover() != nil {
			same = reflect.DeepEqual(a, b)
		}
	}()
	return a == b
}

func (m *c16) runSequence(mk func(r *core.Rand) *seqWorld, idx []int, r *core.Rand) {
	c := m.c
	var w *seqWorld
	pan, pv, where := core.Guard(func() { w = mk(r) })
	if pan || w == nil {
		m.reportSetupFailure(pv, where)
		return
	}
	var names []string
	for step, i := range idx {
		op := w.ops[i%len(w.ops)]
		names = append(names, op.name)
		c.Eval(1)
		c.Note(fmt.Sprintf("%s sequence %v", w.typ, names))
		pan, pv, where := core.Guard(op.run)
		d := map[string]any{"type": w.typ, "sequence": names, "step": step}
		if pan {
			d["panic"] = pv
			c.Violation("sequence:panic:"+w.typ+":"+where, w.typ+": "+op.name+" panicked: "+pv, d)
			return
		}
		if name, before, after, ch := w.reg.changed(); ch {
			d["value"], d["before"], d["after"] = name, core.Hex(before), core.Hex(after)
			c.Violation("sequence:earlier-value-changed:"+w.typ+":"+stripIndex(name), fmt.Sprintf("%s: %q, handed out earlier, changed after %s", w.typ, name, op.name), d)
			return
		}
		if w.intact != nil {
			if what := w.intact(); what != "" {
				d["object"] = what
				c.Violation("sequence:caller-object-changed:"+w.typ, fmt.Sprintf("%s: %s changed after %s", w.typ, what, op.name), d)
				return
			}
		}
		c.Class("earlier_results_checked")
	}
	if len(idx) == 2 {
		c.Class("call_pairs")
	}
	c.Distinctf("seq:%s:%v", w.typ, idx)
}

// reportSetupFailure: building the honest world failed. If a tracked value changed on the way, that is the
// violation; otherwise the failure belongs to another property and the sequence is skipped.
func (m *c16) reportSetupFailure(pv, where string) {
	c := m.c
	if se, ok := lastSetup.Load().(*setupFailure); ok && se != nil && se.changed != "" {
		c.Violation("sequence:earlier-value-changed:"+se.typ+":"+stripIndex(se.changed), fmt.Sprintf("%s: %q changed while the honest setup ran (%s)", se.typ, se.changed, se.step),
			map[string]any{"type": se.typ, "step": se.step, "before": core.Hex(se.before), "after": core.Hex(se.after)})
		lastSetup.Store((*setupFailure)(nil))
		return
	}
	c.Class("setup_failed_sequence_skipped")
	c.Info("setup_failure_example", pv+" at "+where)
}

func stripIndex(s string) string {
	for i := 0; i < len(s); i++ {
		if s[i] == '#' {
			return s[:i]
		}
	}
	return s
}

func (m *c16) worlds() []func(r *core.Rand) *seqWorld {
	rk := RSAKeys()
	setup := m.c.Rng("seqsetup")
	k1 := VOPRFKey(oprf.SuiteP384, setup.Bytes(32))
	k5 := VOPRFKey(oprf.SuiteRistretto255, setup.Bytes(32))
	N := m.curve.Params().N

	t1 := func(r *core.Rand) *seqWorld {
		w := &seqWorld{typ: "type1", reg: &registry{}}
		iss := type1.NewBasicPrivateIssuer(k1)
		chal, nonce, kid := r.Bytes(20), r.Bytes(32), iss.TokenKeyID()
		st, err := type1.NewBasicPrivateClient().CreateTokenRequest(chal, nonce, kid, iss.TokenKey())
		must(err)
		w.reg.track("challenge argument", chal)
		w.reg.track("nonce argument", nonce)
		w.reg.track("tokenKeyID argument", kid)
		w.reg.track("Request().BlindedReq", st.Request().BlindedReq)
		respA, err := iss.Evaluate(st.Request())
		w.setupStep("first Issuer.Evaluate", err)
		w.reg.track("response A", respA)
		respB, err := iss.Evaluate(st.Request())
		w.setupStep("second Issuer.Evaluate", err)
		w.reg.track("response B", respB)
		n := 0
		var last tokens.Token
		fin := func(resp []byte, label string) func() {
			return func() {
				n++
				t, err := st.FinalizeToken(resp)
				if err == nil {
					w.reg.trackToken(fmt.Sprintf("token#%d(%s)", n, label), t)
					last = t
				}
			}
		}
		w.ops = []seqOp{
			{"Request().Marshal()", func() { n++; w.reg.track(fmt.Sprintf("Request().Marshal()#%d", n), st.Request().Marshal()) }},
			{"FinalizeToken(response A)", fin(respA, "A")},
			{"FinalizeToken(response B)", fin(respB, "B")},
			{"FinalizeToken(corrupted)", fin(flipBit(respA, 700), "bad")},
			{"FinalizeToken(short)", fin(respA[:60], "short")},
			{"Issuer.Evaluate(request)", func() {
				n++
				resp, err := iss.Evaluate(st.Request())
				if err == nil {
					w.reg.track(fmt.Sprintf("response#%d", n), resp)
				}
			}},
			{"Issuer.Verify(last token)", func() {
				if last.Nonce != nil {
					iss.Verify(last)
				}
			}},
			{"caller overwrites the nonce of the token it was given", func() { w.reg.callerOverwrites(".Nonce") }},
			{"Issuer.TokenKeyID()", func() { n++; w.reg.track(fmt.Sprintf("TokenKeyID()#%d", n), iss.TokenKeyID()) }},
		}
		return w
	}
	t2 := func(r *core.Rand) *seqWorld {
		w := &seqWorld{typ: "type2", reg: &registry{}}
		iss := type2.NewBasicPublicIssuer(rk[0])
		chal, nonce, kid := r.Bytes(20), r.Bytes(32), iss.TokenKeyID()
		st, err := type2.NewBasicPublicClient().CreateTokenRequest(chal, nonce, kid, iss.TokenKey())
		must(err)
		w.reg.track("challenge argument", chal)
		w.reg.track("nonce argument", nonce)
		w.reg.track("tokenKeyID argument", kid)
		w.reg.track("Request().BlindedReq", st.Request().BlindedReq)
		respA, err := iss.Evaluate(st.Request())
		must(err)
		w.reg.track("response A", respA)
		n := 0
		fin := func(resp []byte, label string) func() {
			return func() {
				n++
				t, err := st.FinalizeToken(resp)
				if err == nil {
					w.reg.trackToken(fmt.Sprintf("token#%d(%s)", n, label), t)
				}
			}
		}
		w.ops = []seqOp{
			{"Request().Marshal()", func() { n++; w.reg.track(fmt.Sprintf("Request().Marshal()#%d", n), st.Request().Marshal()) }},
			{"FinalizeToken(response A)", fin(respA, "A")},
			{"FinalizeToken(copy of response A)", fin(clone(respA), "A'")},
			{"FinalizeToken(corrupted)", fin(flipBit(respA, 700), "bad")},
			{"FinalizeToken(short)", fin(respA[:60], "short")},
			{"Issuer.Evaluate(request)", func() {
				n++
				resp, err := iss.Evaluate(st.Request())
				if err == nil {
					w.reg.track(fmt.Sprintf("response#%d", n), resp)
				}
			}},
			{"caller overwrites the nonce of the token it was given", func() { w.reg.callerOverwrites(".Nonce") }},
			{"Issuer.TokenKeyID()", func() { n++; w.reg.track(fmt.Sprintf("TokenKeyID()#%d", n), iss.TokenKeyID()) }},
		}
		return w
	}
	t5 := func(r *core.Rand) *seqWorld {
		w := &seqWorld{typ: "type5", reg: &registry{}}
		iss := type5.NewBatchedPrivateIssuer(k5)
		chal, kid := r.Bytes(20), iss.TokenKeyID()
		nonces := [][]byte{r.Bytes(32), r.Bytes(32), r.Bytes(32)}
		st, err := type5.NewBatchedPrivateClient().CreateTokenRequest(chal, nonces, kid, iss.TokenKey())
		must(err)
		w.reg.track("challenge argument", chal)
		for i, nn := range nonces {
			w.reg.track(fmt.Sprintf("nonce argument#%d", i), nn)
		}
		for i, b := range st.Request().BlindedReq {
			w.reg.track(fmt.Sprintf("Request().BlindedReq#%d", i), b)
		}
		respA, err := iss.Evaluate(st.Request())
		must(err)
		respB, err := iss.Evaluate(st.Request())
		must(err)
		w.reg.track("response A", respA)
		w.reg.track("response B", respB)
		n := 0
		var last tokens.Token
		fin := func(resp []byte, label string) func() {
			return func() {
				n++
				ts, err := st.FinalizeTokens(resp)
				if err == nil {
					for j, t := range ts {
						w.reg.trackToken(fmt.Sprintf("token#%d.%d(%s)", n, j, label), t)
						last = t
					}
				}
			}
		}
		w.ops = []seqOp{
			{"Request().Marshal()", func() { n++; w.reg.track(fmt.Sprintf("Request().Marshal()#%d", n), st.Request().Marshal()) }},
			{"FinalizeTokens(response A)", fin(respA, "A")},
			{"FinalizeTokens(response B)", fin(respB, "B")},
			{"FinalizeTokens(corrupted)", fin(flipBit(respA, 400), "bad")},
			{"FinalizeTokens(short)", fin(respA[:40], "short")},
			{"Issuer.Evaluate(request)", func() {
				n++
				resp, err := iss.Evaluate(st.Request())
				if err == nil {
					w.reg.track(fmt.Sprintf("response#%d", n), resp)
				}
			}},
			{"Issuer.Verify(last token)", func() {
				if last.Nonce != nil {
					iss.Verify(last)
				}
			}},
			{"caller overwrites the nonce of the token it was given", func() { w.reg.callerOverwrites(".Nonce") }},
			{"Issuer.TokenKeyID()", func() { n++; w.reg.track(fmt.Sprintf("TokenKeyID()#%d", n), iss.TokenKeyID()) }},
		}
		return w
	}
	t3 := func(r *core.Rand) *seqWorld {
		w := &seqWorld{typ: "type3", reg: &registry{}}
		iss := type3.NewRateLimitedIssuer(rk[1])
		iss.AddOrigin("origin.example")
		chal, nonce, kid, blind := r.Bytes(20), r.Bytes(32), iss.TokenKeyID(), ScalarBytes(r, N, 48)
		cl := type3.NewRateLimitedClientFromSecret(ScalarBytes(r, N, 48))
		st, err := cl.CreateTokenRequest(chal, nonce, blind, kid, iss.TokenKey(), "origin.example", iss.NameKey())
		must(err)
		w.reg.track("challenge argument", chal)
		w.reg.track("nonce argument", nonce)
		w.reg.track("blindKeyEnc argument", blind)
		w.reg.track("Request().RequestKey", st.Request().RequestKey)
		w.reg.track("Request().NameKeyID", st.Request().NameKeyID)
		w.reg.track("Request().EncryptedTokenRequest", st.Request().EncryptedTokenRequest)
		w.reg.track("Request().Signature", st.Request().Signature)
		w.reg.track("RequestKey()", st.RequestKey())
		w.reg.track("ClientKey()", st.ClientKey())
		enc := clone(st.Request().Marshal())
		w.reg.track("request bytes given to the issuer", enc)
		w.reg.track("Request().Marshal() at creation", st.Request().Marshal())
		respA, _, err := iss.Evaluate(enc)
		w.setupStep("first Issuer.Evaluate(request bytes)", err)
		w.reg.track("response A", respA)
		respB, _, err := iss.Evaluate(enc)
		w.setupStep("second Issuer.Evaluate(request bytes)", err)
		w.reg.track("response B", respB)
		att := type3.NewRateLimitedAttester(newMemCache())
		n := 0
		fin := func(resp []byte, label string) func() {
			return func() {
				n++
				t, err := st.FinalizeToken(resp)
				if err == nil {
					w.reg.trackToken(fmt.Sprintf("token#%d(%s)", n, label), t)
				}
			}
		}
		w.ops = []seqOp{
			{"Request().Marshal()", func() { n++; w.reg.track(fmt.Sprintf("Request().Marshal()#%d", n), st.Request().Marshal()) }},
			{"FinalizeToken(response A)", fin(respA, "A")},
			{"FinalizeToken(response B)", fin(respB, "B")},
			{"FinalizeToken(corrupted)", fin(flipBit(respA, 300), "bad")},
			{"FinalizeToken(short)", fin(respA[:20], "short")},
			{"Issuer.Evaluate(request bytes)", func() {
				n++
				resp, brk, err := iss.Evaluate(enc)
				if err == nil {
					w.reg.track(fmt.Sprintf("response#%d", n), resp)
					w.reg.track(fmt.Sprintf("blinded request key#%d", n), brk)
				}
			}},
			{"Attester.VerifyRequest+FinalizeIndex", func() {
				n++
				if att.VerifyRequest(*st.Request(), blind, st.ClientKey(), []byte("anon")) == nil {
					_, brk, err := iss.Evaluate(enc)
					if err == nil {
						idx, err := att.FinalizeIndex(st.ClientKey(), blind, brk, []byte("anon"))
						if err == nil {
							w.reg.track(fmt.Sprintf("index#%d", n), idx)
						}
					}
				}
			}},
			{"caller overwrites the nonce of the token it was given", func() { w.reg.callerOverwrites(".Nonce") }},
			{"Issuer.NameKey().Marshal()", func() { n++; w.reg.track(fmt.Sprintf("NameKey().Marshal()#%d", n), iss.NameKey().Marshal()) }},
		}
		return w
	}
	tb := func(r *core.Rand) *seqWorld {
		w := &seqWorld{typ: "batched", reg: &registry{}}
		iss1 := type1.NewBasicPrivateIssuer(k1)
		iss2 := type2.NewBasicPublicIssuer(rk[0])
		s1, err := type1.NewBasicPrivateClient().CreateTokenRequest(r.Bytes(9), r.Bytes(32), iss1.TokenKeyID(), iss1.TokenKey())
		must(err)
		s2, err := type2.NewBasicPublicClient().CreateTokenRequest(r.Bytes(9), r.Bytes(32), iss2.TokenKeyID(), iss2.TokenKey())
		must(err)
		bad := &type1.BasicPrivateTokenRequest{TokenKeyID: s1.Request().TokenKeyID, BlindedReq: bytes.Repeat([]byte{0xff}, 49)}
		// the caller's own list of requests, kept by the caller after the batch was made from it
		callerList := []tokens.TokenRequestWithDetails{s1.Request(), bad, s2.Request()}
		callerSaved := append([]tokens.TokenRequestWithDetails{}, callerList...)
		br, err := batched.NewBasicClient().CreateTokenRequest(callerList)
		must(err)
		w.intact = func() string {
			for i := range callerList {
				if !sameObject(callerList[i], callerSaved[i]) {
					return fmt.Sprintf("slot %d of the request list the caller handed to CreateTokenRequest", i)
				}
			}
			return ""
		}
		wire := clone(br.Marshal())
		w.reg.track("batch request bytes", wire)
		br2, err := batched.NewBasicClient().CreateTokenRequest([]tokens.TokenRequestWithDetails{s2.Request(), s1.Request()})
		must(err)
		wire2 := clone(br2.Marshal())
		w.reg.track("other batch request bytes", wire2)
		// the issuers are handed over as a caller-owned slice (type 2 first, so any sorting would show) that the
		// caller clears afterwards
		list := []batched.Issuer{batchIssuer2{iss2}, batchIssuer1{iss1}}
		bi := batched.NewBasicBatchedIssuer(list...)
		if _, ok := list[0].(batchIssuer2); !ok {
			lastSetup.Store(&setupFailure{typ: w.typ, step: "NewBasicBatchedIssuer(list...)", changed: "the caller's issuer slice (reordered by the constructor)"})
			panic("setup: constructor reordered the caller's slice")
		}
		list[0], list[1] = nil, nil
		dec := new(batched.BatchedTokenRequest)
		if !dec.Unmarshal(wire) {
			panic("batch rejected")
		}
		n := 0
		var lastEntries [][]byte
		w.ops = []seqOp{
			{"BatchedTokenRequest.Marshal()", func() { n++; w.reg.track(fmt.Sprintf("Marshal()#%d", n), dec.Marshal()) }},
			{"EvaluateBatch", func() {
				n++
				out, err := bi.EvaluateBatch(dec)
				if err == nil {
					w.reg.track(fmt.Sprintf("batch response#%d", n), out)
					es, err := batched.UnmarshalBatchedTokenResponses(out)
					if err == nil {
						lastEntries = es
						for j, e := range es {
							w.reg.track(fmt.Sprintf("entry#%d.%d", n, j), e)
						}
					}
				}
			}},
			{"FinalizeToken(entries)", func() {
				n++
				if len(lastEntries) == 3 {
					if t, err := s1.FinalizeToken(lastEntries[0]); err == nil {
						w.reg.trackToken(fmt.Sprintf("token1#%d", n), t)
					}
					if t, err := s2.FinalizeToken(lastEntries[2]); err == nil {
						w.reg.trackToken(fmt.Sprintf("token2#%d", n), t)
					}
				}
			}},
			{"client's batch object: Unmarshal(other batch bytes)", func() { br.Unmarshal(wire2) }},
			{"client's batch object: Marshal()", func() { n++; w.reg.track(fmt.Sprintf("client batch Marshal()#%d", n), br.Marshal()) }},
			{"Unmarshal(batch bytes) again", func() { dec.Unmarshal(wire) }},
			{"Unmarshal(other batch bytes)", func() { dec.Unmarshal(wire2) }},
			{"Unmarshal(empty list)", func() { dec.Unmarshal([]byte{0}) }},
			{"UnmarshalBatchedTokenResponses(garbage)", func() { batched.UnmarshalBatchedTokenResponses(wire) }},
		}
		return w
	}
	out := []func(r *core.Rand) *seqWorld{t1, t2, t5, t3, tb}
	// request objects reused for several decodes: encodings handed out earlier must keep their contents
	for _, rc := range reqCodecs() {
		rc := rc
		out = append(out, func(r *core.Rand) *seqWorld {
			w := &seqWorld{typ: "reuse:" + rc.name, reg: &registry{}}
			obj, _ := rc.mk()
			wires := [][]byte{rc.gen(r, 0), rc.gen(r, 1), rc.gen(r, 9)}
			for i, b := range wires {
				w.reg.track(fmt.Sprintf("wire bytes %c", 'A'+i), b)
			}
			garbage := r.Bytes(40)
			w.reg.track("garbage bytes", garbage)
			n := 0
			dec := func(b []byte) func() { return func() { obj.Unmarshal(b) } }
			w.ops = []seqOp{
				{"Unmarshal(wire A)", dec(wires[0])},
				{"Unmarshal(wire B)", dec(wires[1])},
				{"Unmarshal(wire C)", dec(wires[2])},
				{"Unmarshal(garbage)", dec(garbage)},
				{"Marshal()", func() { n++; w.reg.track(fmt.Sprintf("Marshal()#%d", n), obj.Marshal()) }},
			}
			return w
		})
	}
	return out
}

func (m *c16) sequences() {
	c := m.c
	for wi, mk := range m.worlds() {
		var probe *seqWorld
		if pan, pv, where := core.Guard(func() { probe = mk(c.Rng("probe")) }); pan || probe == nil {
			if c.Next() {
				m.reportSetupFailure(pv, where)
			}
			continue
		}
		nops := len(probe.ops)
		// all ordered pairs, each preceded by nothing
		for a := 0; a < nops; a++ {
			for b := 0; b < nops; b++ {
				if c.Next() {
					m.runSequence(mk, []int{a, b}, c.CaseRng())
				}
			}
		}
		c.Exhaustive(fmt.Sprintf("%s: all ordered pairs of %d operations", probe.typ, nops))
		// every sequence of three operations as well (finalize, the caller writes into its token, finalize again is the
		// shortest history in which a token assembled inside the state's buffer shows), and of four in the cheap
		// decode/encode-reuse worlds and in the thorough tier (decode A, encode, decode B, encode - the shortest history in
		// which a recycled encoding buffer shows)
		maxL := 3
		if strings.HasPrefix(probe.typ, "reuse:") || c.Thorough() {
			maxL = 4
		}
		{
			for l := 3; l <= maxL; l++ {
				total := 1
				for i := 0; i < l; i++ {
					total *= nops
				}
				for x := 0; x < total; x++ {
					if !c.Next() {
						continue
					}
					idx := make([]int, l)
					y := x
					for i := range idx {
						idx[i] = y % nops
						y /= nops
					}
					m.runSequence(mk, idx, c.CaseRng())
				}
			}
			c.Exhaustive(fmt.Sprintf("%s: all sequences of 3..%d of its %d operations", probe.typ, maxL, nops))
		}
		// seeded triples and longer
		n := c.Pick(40, 5000)
		for i := 0; i < n; i++ {
			if !c.Next() {
				continue
			}
			r := c.CaseRng()
			l := 3 + r.IntN(4)
			idx := make([]int, l)
			for j := range idx {
				idx[j] = r.IntN(nops)
			}
			m.runSequence(mk, idx, r)
		}
		_ = wi
	}
	c.Class("batched_ops")
}
