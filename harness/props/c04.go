package props

import (
	"bytes"
	"fmt"
	"strings"

	"github.com/cloudflare/pat-go/tokens"
	"github.com/cloudflare/pat-go/tokens/batched"
	"github.com/cloudflare/pat-go/tokens/type1"
	"github.com/cloudflare/pat-go/tokens/type2"
	"github.com/cloudflare/pat-go/tokens/type3"
	"github.com/cloudflare/pat-go/tokens/type5"

	"verifharness/internal/core"
)

func init() {
	core.Register(&core.Prop{
		ID:    "C04",
		Level: "exploration",
		Rule: "three monitors judged against the harness's own encoders/parsers (written from the TLS-presentation structs, Ne=49, Nk=48/256/64): " +
			"(1) value round trip: seeded well-formed values of TokenChallenge, Token x4, TokenRequest types 1,2,3,5, InnerTokenRequest, EncapKey, generic batch request and response lists: Marshal == reference encoding and Unmarshal(Marshal(v)) == v field by field; " +
			"(2) accepted bytes: honest encodings with trailing bytes, over-long varints, content mutations and the Rust interop vectors: whenever a decoder accepts b, the reference encoding c of the decoded value has len(c) <= len(b), decodes to the same value and equals obj.Marshal(), also on an object that previously held and had marshalled another value; " +
			"(3) type separation: every 16-bit tag x body of each type x each of the four request decoders (exhaustive), and generic batches with a foreign-typed element at each position. " +
			"A coverage-guided stage (Go native fuzzing, FuzzC04) offers arbitrary byte strings to every decoder and applies the accepted-bytes oracle whenever one accepts (40 000 / 4 000 000 executions). distinct_nontrivial = distinct (message type, monitor, field-length vector or mutation class) keys",
		Floors:            []string{"value_roundtrip_ok", "accepted_bytes_checked", "accepted_noncanonical", "reuse_checked", "tag_rejected", "tag_accepted_own", "batch_foreign_type_rejected", "rust_vector_decoded", "decode_again_after_caller_edit_ok", "mixed_batches_with_stride_friendly_length"},
		Assumptions:       []string{"well-formed value domain as stated in DESIGN.md C04 (origin names without ',', [\"\"] for the empty origin list, field widths of the structs)"},
		FuzzTarget:        "FuzzC04",
		FuzzExecsQuick:    40000,
		FuzzExecsThorough: 4000000,
		Run:               runC04,
	})
}

// ------------------------------------------------------------ reference encoders

func encChallenge(t uint16, issuer string, nonce []byte, origins []string) []byte {
	out := []byte{byte(t >> 8), byte(t)}
	out = append(out, byte(len(issuer)>>8), byte(len(issuer)))
	out = append(out, issuer...)
	out = append(out, byte(len(nonce)))
	out = append(out, nonce...)
	j := strings.Join(origins, ",")
	out = append(out, byte(len(j)>>8), byte(len(j)))
	return append(out, j...)
}

func encToken(t tokens.Token) []byte {
	out := []byte{byte(t.TokenType >> 8), byte(t.TokenType)}
	out = append(out, t.Nonce...)
	out = append(out, t.Context...)
	out = append(out, t.KeyID...)
	return append(out, t.Authenticator...)
}

func encReq12(typ uint16, keyID byte, blinded []byte) []byte {
	return append([]byte{byte(typ >> 8), byte(typ), keyID}, blinded...)
}

func encReq5(keyID byte, elems [][]byte) []byte {
	body := bytes.Join(elems, nil)
	out := []byte{0, 5, keyID}
	out = append(out, refVarintEnc(uint64(len(body)))...)
	return append(out, body...)
}

type refEntry struct {
	present bool
	typ     uint16
	data    []byte
}

func encRespList(es []refEntry) []byte {
	var body []byte
	for _, e := range es {
		if !e.present {
			body = append(body, 0)
			continue
		}
		body = append(body, 1, byte(e.typ>>8), byte(e.typ))
		body = append(body, e.data...)
	}
	return append(refVarintEnc(uint64(len(body))), body...)
}

type refReq struct {
	typ     uint16
	keyID   byte
	blinded []byte
}

func (q refReq) enc() []byte { return encReq12(q.typ, q.keyID, q.blinded) }

func encBatch(rs []refReq) []byte {
	var body []byte
	for _, q := range rs {
		body = append(body, q.enc()...)
	}
	return append(refVarintEnc(uint64(len(body))), body...)
}

// parseBatch: the reference parser of a generic batch request (any varint form,
// elements must tile the declared list exactly).
func parseBatch(b []byte) ([]refReq, bool) {
	l, n := refVarintDec(b)
	if n < 0 || l > uint64(len(b)-n) {
		return nil, false
	}
	body := b[n : n+int(l)]
	var out []refReq
	for len(body) > 0 {
		if len(body) < 3 {
			return nil, false
		}
		t := uint16(body[0])<<8 | uint16(body[1])
		w := 0
		switch t {
		case 1:
			w = 49
		case 2:
			w = 256
		default:
			return nil, false
		}
		if len(body) < 3+w {
			return nil, false
		}
		out = append(out, refReq{t, body[2], body[3 : 3+w]})
		body = body[3+w:]
	}
	return out, true
}

// ------------------------------------------------------------ monitors

type c04 struct{ c *core.Ctx }

func (m c04) bad(key, what string, d map[string]any) { m.c.Violation(key, what, d) }

func eqStrs(a, b []string) bool {
	if len(a) != len(b) {
		return false
	}
	for i := range a {
		if a[i] != b[i] {
			return false
		}
	}
	return true
}

func (m c04) challengeValue(r *core.Rand, i int) {
	c := m.c
	il := []int{1, 2, 255, 256, 65535}[i%5]
	if i >= 5 {
		il = 1 + r.IntN(r.Of(20, 300, 65535))
	}
	nl := []int{0, 32, 1, 255, 31, 33}[i%6]
	if i >= 12 && i%3 == 0 {
		nl = r.IntN(256)
	}
	var origins []string
	switch i % 4 {
	case 0:
		origins = []string{""}
	case 1:
		origins = []string{string(alnum(r, 1+r.IntN(40)))}
	case 2:
		for k := 0; k < 1+r.IntN(5); k++ {
			origins = append(origins, string(alnum(r, r.IntN(30))))
		}
	case 3:
		origins = []string{string(alnum(r, r.Of(1000, 65535)))}
	}
	if i%8 == 5 {
		// origin names are separated by commas and are otherwise arbitrary: leading and trailing blanks and tabs, empty names
		// at either end and in the middle, quotes, NULs, bytes that are not UTF-8 - anything but a comma
		fixed := []string{" b.example", "b.example ", "\tb.example", "  ", " ", "", "\"quoted\"", "a b", "\x00", "a\x00", "\xff\xfe", "[::1]", "a;b", "a\nb", "\r\n", "%2C", "a.example", "*"}
		origins = nil
		for k := 0; k < 2+r.IntN(4); k++ {
			if r.IntN(3) == 0 {
				b := r.Bytes(1 + r.IntN(12))
				for j := range b {
					if b[j] == ',' {
						b[j] = '.'
					}
				}
				origins = append(origins, string(b))
			} else {
				origins = append(origins, fixed[r.IntN(len(fixed))])
			}
		}
		c.Class("challenges_with_arbitrary_origin_name_bytes")
	}
	if i%16 == 7 {
		// many origin names (the field is one comma-separated string of up to 65535 bytes)
		origins = nil
		for k := 0; k < r.Of(1023, 1024, 1025, 4000, 16000); k++ {
			origins = append(origins, string(alnum(r, 1+r.IntN(2))))
		}
	}
	v := tokens.TokenChallenge{TokenType: uint16(r.Of(0, 1, 2, 3, 5, 0xffff, r.IntN(65536))), IssuerName: string(r.Bytes(il)), RedemptionNonce: r.Bytes(nl), OriginInfo: origins}
	if strings.Contains(v.IssuerName, "\x00") && false {
		return
	}
	want := encChallenge(v.TokenType, v.IssuerName, v.RedemptionNonce, v.OriginInfo)
	c.Eval(1)
	var got []byte
	var dec tokens.TokenChallenge
	var err error
	pan, pv, where := core.Guard(func() {
		got = v.Marshal()
		dec, err = tokens.UnmarshalTokenChallenge(clone(got))
	})
	d := map[string]any{"issuer_len": il, "nonce_len": nl, "origins": len(origins), "encoding": core.Hex(want)}
	if pan {
		m.bad("TokenChallenge:panic:"+where, "TokenChallenge codec panicked: "+pv, d)
		return
	}
	if !bytes.Equal(got, want) {
		d["got"] = core.Hex(got)
		m.bad("TokenChallenge:marshal-differs", "TokenChallenge.Marshal differs from the reference encoding", d)
		return
	}
	if err != nil {
		m.bad("TokenChallenge:roundtrip-rejected", "UnmarshalTokenChallenge rejects the encoding of a well-formed value: "+err.Error(), d)
		return
	}
	if dec.TokenType != v.TokenType || dec.IssuerName != v.IssuerName || !bytes.Equal(dec.RedemptionNonce, v.RedemptionNonce) || !eqStrs(dec.OriginInfo, v.OriginInfo) || !dec.Equals(v) {
		m.bad("TokenChallenge:roundtrip-differs", "UnmarshalTokenChallenge(Marshal(v)) != v", d)
		return
	}
	// the decoded value belongs to the caller: after it was edited in place, decoding the same bytes again returns the
	// encoded value again; and a receive buffer refilled in place with another challenge decodes to that other one
	{
		for k := range dec.RedemptionNonce {
			dec.RedemptionNonce[k] ^= 0xff
		}
		for k := range dec.OriginInfo {
			dec.OriginInfo[k] = "edited-by-the-caller"
		}
		var dec2, dec3 tokens.TokenChallenge
		var err2, err3 error
		v3 := v
		v3.RedemptionNonce = clone(v.RedemptionNonce)
		if len(v3.RedemptionNonce) > 0 {
			v3.RedemptionNonce[len(v3.RedemptionNonce)-1] ^= 1
		} else {
			v3.TokenType ^= 1
		}
		pan, pv, where := core.Guard(func() {
			dec2, err2 = tokens.UnmarshalTokenChallenge(clone(got))
			buf := clone(got)
			tokens.UnmarshalTokenChallenge(buf)
			copy(buf, encChallenge(v3.TokenType, v3.IssuerName, v3.RedemptionNonce, v3.OriginInfo))
			dec3, err3 = tokens.UnmarshalTokenChallenge(buf)
		})
		if pan {
			m.bad("TokenChallenge:panic:"+where, "TokenChallenge codec panicked: "+pv, d)
			return
		}
		if err2 != nil || dec2.TokenType != v.TokenType || dec2.IssuerName != v.IssuerName || !bytes.Equal(dec2.RedemptionNonce, v.RedemptionNonce) || !eqStrs(dec2.OriginInfo, v.OriginInfo) {
			m.bad("TokenChallenge:roundtrip-differs:after-caller-edit", "decoding the same bytes again, after the caller edited the first result in place, does not return the encoded value", d)
			return
		}
		if err3 != nil || dec3.TokenType != v3.TokenType || !bytes.Equal(dec3.RedemptionNonce, v3.RedemptionNonce) || dec3.IssuerName != v3.IssuerName || !eqStrs(dec3.OriginInfo, v3.OriginInfo) {
			m.bad("TokenChallenge:roundtrip-differs:buffer-refilled", "a receive buffer refilled in place with another challenge does not decode to that challenge", d)
			return
		}
		c.Class("decode_again_after_caller_edit_ok")
	}
	c.Class("value_roundtrip_ok")
	c.Distinctf("challenge:value:%d:%d:%d", il, nl, len(origins))
	c.Sample("TokenChallenge value", map[string]any{"issuer_len": il, "nonce_len": nl, "origins": origins[:1], "encoded_len": len(want)})
	// accepted bytes: trailing data and content mutations
	for k := 0; k < 6; k++ {
		b := clone(want)
		switch k {
		case 0:
			b = append(b, r.Bytes(1+r.IntN(9))...)
		case 1:
			b[r.IntN(len(b))] ^= byte(1 << uint(r.IntN(8)))
		case 2:
			if len(b) > 6 {
				b = b[:len(b)-1-r.IntN(3)]
			}
		default:
			b[r.IntN(len(b))] = byte(r.IntN(256))
		}
		m.challengeAccepted(b, fmt.Sprintf("mut%d", k))
	}
}

func (m c04) challengeAccepted(b []byte, class string) {
	c := m.c
	c.Eval(1)
	var v tokens.TokenChallenge
	var err error
	pan, _, _ := core.Guard(func() { v, err = tokens.UnmarshalTokenChallenge(clone(b)) })
	if pan || err != nil {
		return
	}
	cenc := encChallenge(v.TokenType, v.IssuerName, v.RedemptionNonce, v.OriginInfo)
	d := map[string]any{"input": core.Hex(b), "canonical": core.Hex(cenc), "class": class}
	if len(cenc) > len(b) {
		m.bad("TokenChallenge:accepted:canonical-longer", "canonical encoding of an accepted TokenChallenge is longer than the accepted bytes", d)
		return
	}
	v2, err := tokens.UnmarshalTokenChallenge(clone(cenc))
	if err != nil || v2.TokenType != v.TokenType || v2.IssuerName != v.IssuerName || !bytes.Equal(v2.RedemptionNonce, v.RedemptionNonce) || !eqStrs(v2.OriginInfo, v.OriginInfo) {
		m.bad("TokenChallenge:accepted:canonical-decodes-differently", "canonical encoding of an accepted TokenChallenge does not decode to the same value", d)
		return
	}
	if got := v.Marshal(); !bytes.Equal(got, cenc) {
		m.bad("TokenChallenge:accepted:marshal-differs", "Marshal of a decoded TokenChallenge is not its canonical encoding", d)
		return
	}
	c.Class("accepted_bytes_checked")
	if !bytes.Equal(cenc, b) {
		c.Class("accepted_noncanonical")
	}
	c.Distinctf("challenge:accepted:%s", class)
}

type tokenCodec struct {
	name string
	typ  uint16
	nk   int
	dec  func([]byte) (tokens.Token, error)
}

var tokenCodecs = []tokenCodec{
	{"type1", 1, 48, type1.UnmarshalPrivateToken},
	{"type2", 2, 256, type2.UnmarshalToken},
	{"type3", 3, 256, type3.UnmarshalToken},
	{"type5", 5, 64, type5.UnmarshalBatchedPrivateToken},
}

func (m c04) tokenValue(r *core.Rand, tc tokenCodec, i int) {
	c := m.c
	v := tokens.Token{TokenType: tc.typ, Nonce: r.Bytes(32), Context: r.Bytes(32), KeyID: r.Bytes(32), Authenticator: r.Bytes(tc.nk)}
	if i%5 == 0 {
		v.TokenType = uint16(r.IntN(65536)) // the token decoders do not check the tag
	}
	want := encToken(v)
	c.Eval(1)
	var got []byte
	var dec tokens.Token
	var err error
	pan, pv, where := core.Guard(func() { got = v.Marshal(); dec, err = tc.dec(clone(got)) })
	d := map[string]any{"codec": tc.name, "encoding": core.Hex(want)}
	if pan {
		m.bad("Token:"+tc.name+":panic:"+where, "Token codec panicked: "+pv, d)
		return
	}
	if !bytes.Equal(got, want) || len(want) != 98+tc.nk {
		m.bad("Token:"+tc.name+":marshal-differs", "Token.Marshal differs from the reference encoding", d)
		return
	}
	if err != nil {
		m.bad("Token:"+tc.name+":roundtrip-rejected", "token decoder rejects the encoding of a well-formed token: "+err.Error(), d)
		return
	}
	if dec.TokenType != v.TokenType || !bytes.Equal(dec.Nonce, v.Nonce) || !bytes.Equal(dec.Context, v.Context) || !bytes.Equal(dec.KeyID, v.KeyID) || !bytes.Equal(dec.Authenticator, v.Authenticator) {
		m.bad("Token:"+tc.name+":roundtrip-differs", "token decoder returns a different value", d)
		return
	}
	{
		for _, f := range [][]byte{dec.Nonce, dec.Context, dec.KeyID, dec.Authenticator} {
			for k := range f {
				f[k] ^= 0xff
			}
		}
		v3 := v
		v3.Nonce = flipBit(v.Nonce, 7)
		var dec2, dec3 tokens.Token
		var err2, err3 error
		pan, pv, where := core.Guard(func() {
			dec2, err2 = tc.dec(clone(got))
			buf := clone(got)
			tc.dec(buf)
			copy(buf, encToken(v3))
			dec3, err3 = tc.dec(buf)
		})
		if pan {
			m.bad("Token:"+tc.name+":panic:"+where, "Token codec panicked: "+pv, d)
			return
		}
		if err2 != nil || !bytes.Equal(encToken(dec2), want) {
			m.bad("Token:"+tc.name+":roundtrip-differs:after-caller-edit", "decoding the same bytes again, after the caller edited the first result in place, does not return the encoded token", d)
			return
		}
		if err3 != nil || !bytes.Equal(encToken(dec3), encToken(v3)) {
			m.bad("Token:"+tc.name+":roundtrip-differs:buffer-refilled", "a receive buffer refilled in place with another token does not decode to that token", d)
			return
		}
		c.Class("decode_again_after_caller_edit_ok")
	}
	c.Class("value_roundtrip_ok")
	c.Distinctf("token:%s:value", tc.name)
	// accepted bytes: trailing data, truncation, other codec's length
	for _, b := range [][]byte{append(clone(want), r.Bytes(1+r.IntN(300))...), want[:len(want)-1], want[:98+48], append(clone(want), 0)} {
		c.Eval(1)
		t2, err := tc.dec(clone(b))
		if err != nil {
			continue
		}
		cenc := encToken(t2)
		if len(cenc) > len(b) || !bytes.Equal(cenc, b[:len(cenc)]) || len(t2.Authenticator) != tc.nk {
			m.bad("Token:"+tc.name+":accepted:canonical-differs", "canonical encoding of an accepted token is not a prefix of the accepted bytes with the type's authenticator length", map[string]any{"codec": tc.name, "input": core.Hex(b)})
			continue
		}
		t3, err := tc.dec(cenc)
		if err != nil || !bytes.Equal(encToken(t3), cenc) || !bytes.Equal(t2.Marshal(), cenc) {
			m.bad("Token:"+tc.name+":accepted:canonical-decodes-differently", "canonical encoding of an accepted token decodes differently", map[string]any{"codec": tc.name, "input": core.Hex(b)})
			continue
		}
		c.Class("accepted_bytes_checked")
		if !bytes.Equal(cenc, b) {
			c.Class("accepted_noncanonical")
		}
	}
}

// reqCodec abstracts the four request types plus the inner request for the
// round-trip, accepted-bytes and reuse monitors.
type reqObj interface {
	Marshal() []byte
	Unmarshal([]byte) bool
}

type reqCodec struct {
	name string
	// gen returns a well-formed value as (reference encoding, description)
	gen func(r *core.Rand, i int) []byte
	// mk returns a fresh object and a function giving the reference encoding of what it holds
	mk func() (reqObj, func() []byte)
	// build returns an object constructed from fields (not via Unmarshal) for the given encoding
	build func(enc []byte) reqObj
}

func reqCodecs() []reqCodec {
	return []reqCodec{
		{name: "type1.TokenRequest",
			gen: func(r *core.Rand, i int) []byte { return encReq12(1, byte(r.IntN(256)), r.Bytes(49)) },
			mk: func() (reqObj, func() []byte) {
				o := new(type1.BasicPrivateTokenRequest)
				return o, func() []byte { return encReq12(1, o.TokenKeyID, o.BlindedReq) }
			},
			build: func(e []byte) reqObj {
				return &type1.BasicPrivateTokenRequest{TokenKeyID: e[2], BlindedReq: clone(e[3:52])}
			}},
		{name: "type2.TokenRequest",
			gen: func(r *core.Rand, i int) []byte { return encReq12(2, byte(r.IntN(256)), r.Bytes(256)) },
			mk: func() (reqObj, func() []byte) {
				o := new(type2.BasicPublicTokenRequest)
				return o, func() []byte { return encReq12(2, o.TokenKeyID, o.BlindedReq) }
			},
			build: func(e []byte) reqObj {
				return &type2.BasicPublicTokenRequest{TokenKeyID: e[2], BlindedReq: clone(e[3:259])}
			}},
		{name: "type5.TokenRequest",
			gen: func(r *core.Rand, i int) []byte {
				n := []int{0, 1, 2, 3, 511, 512, 513, 600}[i%8]
				if i >= 8 {
					n = r.IntN(r.Of(4, 40, 600))
				}
				es := make([][]byte, n)
				for k := range es {
					es[k] = r.Bytes(32)
				}
				return encReq5(byte(r.IntN(256)), es)
			},
			mk: func() (reqObj, func() []byte) {
				o := new(type5.BatchedPrivateTokenRequest)
				return o, func() []byte { return encReq5(o.TokenKeyID, o.BlindedReq) }
			},
			build: func(e []byte) reqObj {
				l, n := refVarintDec(e[3:])
				body := e[3+n : 3+n+int(l)]
				o := &type5.BatchedPrivateTokenRequest{TokenKeyID: e[2]}
				for k := 0; k+32 <= len(body); k += 32 {
					o.BlindedReq = append(o.BlindedReq, clone(body[k:k+32]))
				}
				return o
			}},
		{name: "type3.TokenRequest",
			gen: func(r *core.Rand, i int) []byte {
				l := []int{1, 2, 48, 291, 60000, 65535}[i%6]
				if i >= 6 {
					l = 1 + r.IntN(r.Of(400, 60000))
				}
				return t3Request(r.Bytes(49), r.Bytes(32), r.Bytes(l), r.Bytes(96))
			},
			mk: func() (reqObj, func() []byte) {
				o := new(type3.RateLimitedTokenRequest)
				return o, func() []byte { return t3Request(o.RequestKey, o.NameKeyID, o.EncryptedTokenRequest, o.Signature) }
			},
			build: func(e []byte) reqObj {
				p, _ := t3ParseRequest(e)
				return &type3.RateLimitedTokenRequest{RequestKey: clone(p.RequestKey), NameKeyID: clone(p.NameKeyID), EncryptedTokenRequest: clone(p.Ciphertext), Signature: clone(p.Signature)}
			}},
		{name: "type3.InnerTokenRequest",
			gen: func(r *core.Rand, i int) []byte {
				l := []int{0, 32, 64, 65535, 1}[i%5]
				if i >= 5 {
					l = r.IntN(r.Of(100, 5000))
				}
				return t3Inner(byte(r.IntN(256)), r.Bytes(256), r.Bytes(l))
			},
			mk: func() (reqObj, func() []byte) {
				o := new(type3.InnerTokenRequest)
				return o, func() []byte { k, b, p := o.VerifFields(); return t3Inner(k, b, p) }
			},
			build: func(e []byte) reqObj {
				l := int(e[257])<<8 | int(e[258])
				return type3.VerifInnerTokenRequest(e[0], clone(e[1:257]), clone(e[259:259+l]))
			}},
	}
}

// acceptedReq applies the accepted-bytes oracle to obj after obj.Unmarshal(b) returned true.
func (m c04) acceptedReq(rc reqCodec, obj reqObj, canon func() []byte, b []byte, class string) bool {
	c := m.c
	cenc := canon()
	d := map[string]any{"codec": rc.name, "class": class, "input": core.Hex(b), "canonical": core.Hex(cenc)}
	if len(cenc) > len(b) {
		m.bad(rc.name+":accepted:canonical-longer:"+classKey(class), "canonical encoding of an accepted request is longer than the accepted bytes", d)
		return false
	}
	got := obj.Marshal()
	if !bytes.Equal(got, cenc) {
		d["marshal"] = core.Hex(got)
		m.bad(rc.name+":accepted:marshal-differs:"+classKey(class), "Marshal after Unmarshal does not return the canonical encoding of the decoded value", d)
		return false
	}
	o2, canon2 := rc.mk()
	if !o2.Unmarshal(clone(cenc)) || !bytes.Equal(canon2(), cenc) {
		m.bad(rc.name+":accepted:canonical-decodes-differently:"+classKey(class), "canonical encoding of an accepted request is rejected or decodes to another value", d)
		return false
	}
	c.Class("accepted_bytes_checked")
	if !bytes.Equal(cenc, b) {
		c.Class("accepted_noncanonical")
	}
	return true
}

func (m c04) requestCase(rc reqCodec, r *core.Rand, i int) {
	c := m.c
	enc := rc.gen(r, i)
	if i%5 == 3 && len(enc) >= 40 && (rc.name != "type3.InnerTokenRequest" || len(enc) >= 259+4) {
		// a value whose last data bytes look like text framing (line ends, blanks, NULs, base64 padding): they are data
		tail := [][]byte{[]byte("\r\n"), []byte("\n"), []byte(" "), {0, 0}, []byte("=="), []byte("\r\n\r\n"), {0}, []byte("\t")}[(i/5)%8]
		copy(enc[len(enc)-len(tail):], tail)
		c.Class("values_ending_in_text_framing_bytes")
	}
	d := map[string]any{"codec": rc.name, "encoding": core.Hex(enc)}
	c.Eval(1)
	pan, pv, where := core.Guard(func() {
		// (1) value built from fields marshals to the reference encoding
		v := rc.build(enc)
		if got := v.Marshal(); !bytes.Equal(got, enc) {
			d["got"] = core.Hex(got)
			m.bad(rc.name+":marshal-differs", "Marshal of a well-formed value differs from the reference encoding", d)
			return
		}
		if got := v.Marshal(); !bytes.Equal(got, enc) {
			m.bad(rc.name+":marshal-unstable", "second Marshal differs", d)
			return
		}
		// decode(encode(v)) == v
		o, canon := rc.mk()
		if !o.Unmarshal(clone(enc)) {
			m.bad(rc.name+":roundtrip-rejected", "decoder rejects the encoding of a well-formed value", d)
			return
		}
		if !bytes.Equal(canon(), enc) {
			d["decoded_as"] = core.Hex(canon())
			m.bad(rc.name+":roundtrip-differs", "decoder returns a different value than was encoded", d)
			return
		}
		if !m.acceptedReq(rc, o, canon, enc, "canonical") {
			return
		}
		c.Class("value_roundtrip_ok")
		c.Distinctf("%s:value:%d", rc.name, len(enc))
		// (2) accepted bytes with non-canonical forms
		variants := map[string][]byte{
			"trailing":     append(clone(enc), r.Bytes(1+r.IntN(40))...),
			"trailing-own": append(clone(enc), enc...),
			"bitflip":      flipBit(enc, r.IntN(len(enc)*8)),
			"truncated":    enc[:len(enc)-1],
		}
		if rc.name == "type3.TokenRequest" && len(enc) > 100 {
			// bytes inserted in front of the signature, which stays the last 96 bytes
			variants["inserted-before-signature"] = append(append(clone(enc[:len(enc)-96]), r.Bytes(1+r.IntN(8))...), enc[len(enc)-96:]...)
			variants["inserted-before-signature-96"] = append(append(clone(enc[:len(enc)-96]), enc[len(enc)-96:]...), enc[len(enc)-96:]...)
		}
		if rc.name == "type5.TokenRequest" {
			l, n := refVarintDec(enc[3:])
			for _, form := range []int{2, 4, 8} {
				if f := varintForm(l, form); f != nil && form != n {
					variants[fmt.Sprintf("overlong-varint#%d", form)] = splice(enc, 3, n, f)
				}
			}
			// a list whose LAST element is one, two or 31 bytes short, with the length prefix saying so consistently and
			// nothing after it (a decoder that pads a short last element accepts bytes whose canonical form is longer)
			for _, short := range []int{1, 2, 31} {
				if int(l) >= 32 && len(enc) == 3+n+int(l) {
					variants[fmt.Sprintf("last-element-%d-short", short)] = append(append(clone(enc[:3]), refVarintEnc(l-uint64(short))...), enc[3+n:len(enc)-short]...)
				}
			}
			variants["length+32"] = splice(enc, 3, n, refVarintEnc(l+32))
			if l >= 32 {
				variants["length-32"] = splice(enc, 3, n, refVarintEnc(l-32))
			}
		}
		for cls, b := range variants {
			c.Eval(1)
			o, canon := rc.mk()
			if o.Unmarshal(clone(b)) {
				m.acceptedReq(rc, o, canon, b, cls)
				c.Distinctf("%s:accepted:%s", rc.name, classKey(cls))
			}
		}
		// (3) reuse: the object held (and marshalled) another value before
		prev := rc.gen(r, i+1000)
		for _, how := range []string{"unmarshal-then-marshal", "built-then-marshal"} {
			var o reqObj
			var canon func() []byte
			if how == "built-then-marshal" {
				// an object built from fields cannot be handed to mk(); decode prev instead and touch Marshal twice
				o, canon = rc.mk()
				o.Unmarshal(clone(prev))
				o.Marshal()
				o.Marshal()
			} else {
				o, canon = rc.mk()
				if !o.Unmarshal(clone(prev)) {
					continue
				}
				o.Marshal()
			}
			if !o.Unmarshal(clone(enc)) {
				m.bad(rc.name+":reuse:rejected", "a reused object rejects bytes a fresh object accepts", d)
				continue
			}
			if got := o.Marshal(); !bytes.Equal(got, enc) || !bytes.Equal(canon(), enc) {
				m.bad(rc.name+":reuse:stale-encoding", "Marshal on a reused object does not return the encoding of the value just decoded ("+how+")",
					map[string]any{"codec": rc.name, "previous": core.Hex(prev), "decoded": core.Hex(enc), "marshal": core.Hex(got)})
				continue
			}
			c.Class("reuse_checked")
		}
		// (4) a receive buffer decoded once, refilled in place with another well-formed value of the same length and
		// decoded again (fresh object and the same object): the value is the one now in the buffer
		if enc2 := rc.gen(r, i); len(enc2) == len(enc) && !bytes.Equal(enc2, enc) {
			buf := clone(enc)
			o1, _ := rc.mk()
			o1.Unmarshal(buf)
			copy(buf, enc2)
			o2, canon2 := rc.mk()
			if !o2.Unmarshal(buf) || !bytes.Equal(canon2(), enc2) || !bytes.Equal(o2.Marshal(), enc2) {
				m.bad(rc.name+":roundtrip-differs:buffer-refilled", "a receive buffer refilled in place with another request does not decode to that request", map[string]any{"codec": rc.name, "first": core.Hex(enc), "second": core.Hex(enc2)})
			} else {
				c.Class("decode_again_after_caller_edit_ok")
			}
			// the SAME object, with and without a Marshal between the two decodes of the one buffer, and the buffer
			// restored and decoded a third time
			for _, marshalBetween := range []bool{true, false} {
				buf := clone(enc)
				o, canon := rc.mk()
				o.Unmarshal(buf)
				if marshalBetween {
					o.Marshal()
				}
				copy(buf, enc2)
				ok2 := o.Unmarshal(buf) && bytes.Equal(canon(), enc2) && bytes.Equal(o.Marshal(), enc2)
				copy(buf, enc)
				ok3 := o.Unmarshal(buf) && bytes.Equal(canon(), enc) && bytes.Equal(o.Marshal(), enc)
				if !ok2 || !ok3 {
					m.bad(rc.name+":roundtrip-differs:buffer-refilled-same-object", "an object that decodes its receive buffer again after the buffer was refilled in place does not hold the value now in the buffer",
						map[string]any{"codec": rc.name, "first": core.Hex(enc), "second": core.Hex(enc2), "marshal_between": marshalBetween, "second_ok": ok2, "third_ok": ok3})
					break
				}
				c.Class("same_object_decodes_refilled_buffer_ok")
			}
			// a retransmission: the object decoded enc from the receive buffer and forwarded it (Marshal); the buffer was
			// reused for enc2; enc arrives again in other storage and is decoded by the same object
			{
				buf := clone(enc)
				o, canon := rc.mk()
				o.Unmarshal(buf)
				o.Marshal()
				copy(buf, enc2)
				if !o.Unmarshal(clone(enc)) || !bytes.Equal(canon(), enc) || !bytes.Equal(o.Marshal(), enc) {
					m.bad(rc.name+":roundtrip-differs:retransmission-after-buffer-reuse", "an object that decodes a message again, after the buffer it first decoded it from was reused, does not hold that message",
						map[string]any{"codec": rc.name, "message": core.Hex(enc), "buffer_reused_for": core.Hex(enc2)})
				} else {
					c.Class("retransmission_after_buffer_reuse_ok")
				}
			}
		}
		// (4b) a decoded request whose exported fields the caller then replaces (fresh slices; for type 5 a middle element,
		// the first and last left alone) encodes, on its first Marshal, what the fields now hold
		{
			o, canon := rc.mk()
			if o.Unmarshal(clone(enc)) && c04EditFields(o, r) {
				want := canon()
				if got := o.Marshal(); !bytes.Equal(got, want) {
					m.bad(rc.name+":marshal-differs:fields-replaced-after-decode", "Marshal of a decoded request whose fields the caller replaced does not encode the fields",
						map[string]any{"codec": rc.name, "decoded": core.Hex(enc), "want": core.Hex(want), "got": core.Hex(got)})
				} else {
					c.Class("fields_replaced_after_decode_ok")
				}
			}
		}
		// (5) the object held a value, then REJECTED some bytes (truncated / garbage), then decodes enc: the value is enc's
		for _, junk := range [][]byte{prev[:len(prev)/2], r.Bytes(7), {}, append(clone(prev), 1, 2, 3)} {
			o, canon := rc.mk()
			o.Unmarshal(clone(prev))
			o.Marshal()
			if o.Unmarshal(clone(junk)) {
				continue // not rejected: nothing to check here
			}
			if !o.Unmarshal(clone(enc)) || !bytes.Equal(canon(), enc) || !bytes.Equal(o.Marshal(), enc) {
				m.bad(rc.name+":reuse:after-rejected-bytes", "an object that rejected some bytes does not decode the next well-formed message to its value",
					map[string]any{"codec": rc.name, "previous": core.Hex(prev), "rejected": core.Hex(junk), "decoded": core.Hex(enc)})
				break
			}
			c.Class("reuse_after_rejected_bytes_checked")
		}
		// a rejected Unmarshal followed by Marshal is not constrained by the property; not judged.
	})
	if pan {
		m.bad(rc.name+":panic:"+where, rc.name+" codec panicked: "+pv, d)
	}
	if i < 2 {
		c.Sample(rc.name+" value", map[string]any{"encoded_len": len(enc), "head": core.Hex(enc[:min(len(enc), 24)])})
	}
}

func flipBit(b []byte, bit int) []byte {
	o := clone(b)
	o[bit/8] ^= 1 << uint(bit%8)
	return o
}

// ------------------------------------------------------------ type separation

func (m c04) tagSeparation() {
	c := m.c
	r := c.Rng("tags")
	bodies := map[string][]byte{
		"type1": encReq12(1, 9, r.Bytes(49)),
		"type2": encReq12(2, 9, r.Bytes(256)),
		"type3": t3Request(r.Bytes(49), r.Bytes(32), r.Bytes(291), r.Bytes(96)),
		"type5": encReq5(9, [][]byte{r.Bytes(32), r.Bytes(32)}),
	}
	names := []string{"type1", "type2", "type3", "type5"}
	decs := map[string]func() reqObj{
		"type1": func() reqObj { return new(type1.BasicPrivateTokenRequest) },
		"type2": func() reqObj { return new(type2.BasicPublicTokenRequest) },
		"type3": func() reqObj { return new(type3.RateLimitedTokenRequest) },
		"type5": func() reqObj { return new(type5.BatchedPrivateTokenRequest) },
	}
	own := map[string]uint16{"type1": 1, "type2": 2, "type3": 3, "type5": 5}
	for lo := 0; lo < 65536; lo += 2048 {
		if !c.Next() {
			continue
		}
		for tag := lo; tag < lo+2048; tag++ {
			for _, bn := range names {
				b := clone(bodies[bn])
				b[0], b[1] = byte(tag>>8), byte(tag)
				for _, dn := range names {
					c.Eval(1)
					var ok bool
					pan, pv, _ := core.Guard(func() { ok = decs[dn]().Unmarshal(b) })
					if pan {
						m.bad(dn+".TokenRequest:tag:panic", "decoder panicked: "+pv, map[string]any{"tag": tag, "body": bn})
						continue
					}
					if uint16(tag) != own[dn] {
						if ok {
							m.bad(dn+".TokenRequest:accepts-foreign-tag", fmt.Sprintf("the %s request decoder accepted a message tagged 0x%04x", dn, tag), map[string]any{"tag": tag, "body_of": bn, "input": core.Hex(b)})
						} else {
							c.Class("tag_rejected")
						}
					} else if bn == dn {
						if !ok {
							m.bad(dn+".TokenRequest:rejects-own", "decoder rejects its own message", map[string]any{"tag": tag})
						} else {
							c.Class("tag_accepted_own")
						}
					}
				}
			}
		}
		c.Distinctf("tags:%d", lo)
	}
	c.Exhaustive("every 16-bit type tag x body of each request type x each of the four request decoders")
}

func (m c04) batchSeparation(r *core.Rand, i int) {
	c := m.c
	n := 1 + r.IntN(6)
	var rs []refReq
	for k := 0; k < n; k++ {
		if r.Coin(2) {
			rs = append(rs, refReq{1, byte(r.IntN(256)), r.Bytes(49)})
		} else {
			rs = append(rs, refReq{2, byte(r.IntN(256)), r.Bytes(256)})
		}
	}
	foreign := [][]byte{
		t3Request(r.Bytes(49), r.Bytes(32), r.Bytes(40), r.Bytes(96)),
		encReq5(1, [][]byte{r.Bytes(32)}),
		append([]byte{0, 0, 1}, r.Bytes(49)...),
		append([]byte{0xff, 0xff, 1}, r.Bytes(256)...),
		append([]byte{0, 4, 1}, r.Bytes(49)...),
		append([]byte{1, 0, 1}, r.Bytes(49)...),
	}
	for pos := 0; pos <= n; pos++ {
		for fi, f := range foreign {
			var body []byte
			for k := 0; k <= n; k++ {
				if k == pos {
					body = append(body, f...)
				}
				if k < n {
					body = append(body, rs[k].enc()...)
				}
			}
			b := append(refVarintEnc(uint64(len(body))), body...)
			c.Eval(1)
			q := new(batched.BatchedTokenRequest)
			var ok bool
			pan, pv, _ := core.Guard(func() { ok = q.Unmarshal(b) })
			if pan {
				m.bad("batched.TokenRequest:foreign:panic", "batch decoder panicked: "+pv, map[string]any{"input": core.Hex(b)})
				continue
			}
			if ok {
				m.bad("batched.TokenRequest:accepts-foreign-type", "the generic batch decoder accepted a batch containing a request of a type it does not carry", map[string]any{"position": pos, "foreign": fi, "input": core.Hex(b)})
			} else {
				c.Class("batch_foreign_type_rejected")
			}
		}
	}
	c.Distinctf("batchsep:%d", n)
}

func (m c04) batchValue(r *core.Rand, i int) {
	c := m.c
	n := []int{1, 2, 12}[i%3]
	if i >= 3 {
		n = 1 + r.IntN(12)
	}
	var rs []refReq
	var reqs []tokens.TokenRequestWithDetails
	for k := 0; k < n; k++ {
		if r.Coin(2) {
			q := refReq{1, byte(r.IntN(256)), r.Bytes(49)}
			rs = append(rs, q)
			reqs = append(reqs, &type1.BasicPrivateTokenRequest{TokenKeyID: q.keyID, BlindedReq: clone(q.blinded)})
		} else {
			q := refReq{2, byte(r.IntN(256)), r.Bytes(256)}
			rs = append(rs, q)
			reqs = append(reqs, &type2.BasicPublicTokenRequest{TokenKeyID: q.keyID, BlindedReq: clone(q.blinded)})
		}
	}
	if i%8 == 5 {
		// mixed batches whose total length is a multiple of the FIRST request's length (52 = type 1, 259 = type 2):
		// one type-1 request and 52 type-2 requests; one type-2 request and 259 type-1 requests; the same reversed
		rs, reqs = nil, nil
		add := func(typ uint16, k int) {
			for j := 0; j < k; j++ {
				q := refReq{typ, byte(r.IntN(256)), r.Bytes(map[uint16]int{1: 49, 2: 256}[typ])}
				rs = append(rs, q)
				if typ == 1 {
					reqs = append(reqs, &type1.BasicPrivateTokenRequest{TokenKeyID: q.keyID, BlindedReq: clone(q.blinded)})
				} else {
					reqs = append(reqs, &type2.BasicPublicTokenRequest{TokenKeyID: q.keyID, BlindedReq: clone(q.blinded)})
				}
			}
		}
		switch (i / 8) % 4 {
		case 0:
			add(1, 1)
			add(2, 52)
		case 1:
			add(2, 1)
			add(1, 259)
		case 2:
			add(2, 52)
			add(1, 1)
		default:
			add(1, 1)
			add(2, 104)
		}
		n = len(rs)
		c.Class("mixed_batches_with_stride_friendly_length")
	}
	want := encBatch(rs)
	c.Eval(1)
	d := map[string]any{"elements": n, "encoding": core.Hex(want[:min(len(want), 600)])}
	pan, pv, where := core.Guard(func() {
		br, err := batched.NewBasicClient().CreateTokenRequest(reqs)
		if err != nil {
			m.bad("batched.TokenRequest:create-error", "CreateTokenRequest failed: "+err.Error(), d)
			return
		}
		if got := br.Marshal(); !bytes.Equal(got, want) {
			d["got"] = core.Hex(got)
			m.bad("batched.TokenRequest:marshal-differs", "BatchedTokenRequest.Marshal differs from the reference encoding", d)
			return
		}
		m.batchAccepted(want, "canonical", true)
		m.batchAccepted([]byte{0}, "empty-list", false)
		m.batchAccepted([]byte{0x40, 0}, "empty-list-2-byte-varint", false)
		c.Class("value_roundtrip_ok")
		c.Distinctf("batch:value:%d", n)
		// non-canonical forms and mutations
		l, k := refVarintDec(want)
		for _, form := range []int{2, 4, 8} {
			if f := varintForm(l, form); f != nil && form != k {
				m.batchAccepted(splice(want, 0, k, f), fmt.Sprintf("overlong-varint#%d", form), false)
			}
		}
		m.batchAccepted(append(clone(want), r.Bytes(1+r.IntN(60))...), "trailing", false)
		m.batchAccepted(flipBit(want, r.IntN(len(want)*8)), "bitflip", false)
		m.batchAccepted(splice(want, 0, k, refVarintEnc(l-1)), "length-1", false)
		m.batchAccepted(splice(want, 0, k, refVarintEnc(uint64(len(rs[0].enc())))), "length-first-only", false)
		// under-declared lists: the declared length ends inside (or before) the last request; where the true
		// length needs a wider varint than the declared one, accepting would make the canonical form longer
		for _, v := range []uint64{2, 3, 51, 52, 53, 60, 63, l - 2, l - 49, l - 52, l - 259} {
			if v < l {
				m.batchAccepted(splice(want, 0, k, refVarintEnc(v)), fmt.Sprintf("under-declared#%d", v), false)
			}
		}
	})
	if pan {
		m.bad("batched.TokenRequest:panic:"+where, "batch codec panicked: "+pv, d)
	}
}

// batchAccepted: the decoded value is not observable (private field), so the
// reference parser supplies it; where the reference parser rejects what pat-go
// accepts the check falls back to idempotence of Marshal.
func (m c04) batchAccepted(b []byte, class string, must bool) {
	c := m.c
	c.Eval(1)
	q := new(batched.BatchedTokenRequest)
	if !q.Unmarshal(clone(b)) {
		if must {
			m.bad("batched.TokenRequest:roundtrip-rejected", "batch decoder rejects the reference encoding of a well-formed batch", map[string]any{"input": core.Hex(b)})
		}
		return
	}
	got := q.Marshal()
	d := map[string]any{"input": core.Hex(b), "class": class, "marshal": core.Hex(got)}
	if rs, ok := parseBatch(b); ok {
		cenc := encBatch(rs)
		if !bytes.Equal(got, cenc) {
			d["canonical"] = core.Hex(cenc)
			m.bad("batched.TokenRequest:accepted:marshal-differs:"+classKey(class), "Marshal after Unmarshal is not the canonical encoding of the requests in the accepted bytes", d)
			return
		}
	}
	if len(got) > len(b) {
		m.bad("batched.TokenRequest:accepted:canonical-longer:"+classKey(class), "canonical encoding longer than accepted bytes", d)
		return
	}
	q2 := new(batched.BatchedTokenRequest)
	if !q2.Unmarshal(clone(got)) || !bytes.Equal(q2.Marshal(), got) {
		m.bad("batched.TokenRequest:accepted:canonical-decodes-differently:"+classKey(class), "canonical encoding of an accepted batch is rejected or decodes differently", d)
		return
	}
	// reuse: q2 now decodes the original bytes again
	if !q2.Unmarshal(clone(b)) || !bytes.Equal(q2.Marshal(), got) {
		m.bad("batched.TokenRequest:reuse", "reused batch object gives a different encoding", d)
		return
	}
	// reuse: an object that held ANOTHER batch (two type-1 requests) before
	q3 := new(batched.BatchedTokenRequest)
	other := encBatch([]refReq{{1, 7, bytes.Repeat([]byte{2}, 49)}, {1, 9, bytes.Repeat([]byte{3}, 49)}})
	if q3.Unmarshal(other) {
		q3.Marshal()
		if !q3.Unmarshal(clone(b)) || !bytes.Equal(q3.Marshal(), got) {
			d["previous"] = core.Hex(other)
			m.bad("batched.TokenRequest:reuse-after-other-value", "a batch object that held another batch before does not give the encoding of the batch just decoded", d)
			return
		}
	}
	c.Class("accepted_bytes_checked")
	c.Class("reuse_checked")
	if !bytes.Equal(got, b) {
		c.Class("accepted_noncanonical")
	}
	c.Distinctf("batch:accepted:%s", classKey(class))
}

func (m c04) respAccepted(es []refEntry, b []byte, class string, must bool) {
	c := m.c
	var got [][]byte
	var err error
	pan, pv, _ := core.Guard(func() { got, err = batched.UnmarshalBatchedTokenResponses(clone(b)) })
	d := map[string]any{"input": core.Hex(b), "class": class}
	if pan {
		m.bad("batched.TokenResponses:panic", "response list decoder panicked: "+pv, d)
		return
	}
	if err != nil {
		if must {
			m.bad("batched.TokenResponses:roundtrip-rejected", "response list decoder rejects a well-formed list: "+err.Error(), d)
		}
		return
	}
	// rebuild the value from what was returned
	var back []refEntry
	for _, g := range got {
		switch len(g) {
		case 0:
			back = append(back, refEntry{})
		case 145:
			back = append(back, refEntry{true, 1, g})
		case 256:
			back = append(back, refEntry{true, 2, g})
		default:
			m.bad("batched.TokenResponses:entry-length", fmt.Sprintf("decoded entry of %d bytes (neither absent, type 1 nor type 2)", len(g)), d)
			return
		}
	}
	cenc := encRespList(back)
	if must {
		if len(back) != len(es) {
			m.bad("batched.TokenResponses:roundtrip-count", fmt.Sprintf("%d entries decoded from a list of %d", len(back), len(es)), d)
			return
		}
		for k := range es {
			if es[k].present != back[k].present || !bytes.Equal(es[k].data, back[k].data) {
				m.bad("batched.TokenResponses:roundtrip-differs", "decoded response list differs from the encoded one", d)
				return
			}
		}
		c.Class("value_roundtrip_ok")
	}
	if len(cenc) > len(b) {
		m.bad("batched.TokenResponses:accepted:canonical-longer", "canonical encoding longer than accepted bytes", d)
		return
	}
	g2, err := batched.UnmarshalBatchedTokenResponses(cenc)
	if err != nil || len(g2) != len(got) {
		m.bad("batched.TokenResponses:accepted:canonical-decodes-differently", "canonical encoding of an accepted response list decodes differently", d)
		return
	}
	for k := range got {
		if !bytes.Equal(got[k], g2[k]) {
			m.bad("batched.TokenResponses:accepted:canonical-decodes-differently", "canonical encoding of an accepted response list decodes differently", d)
			return
		}
	}
	c.Class("accepted_bytes_checked")
	if !bytes.Equal(cenc, b) {
		c.Class("accepted_noncanonical")
	}
}

func (m c04) respListCase(r *core.Rand, i int) {
	c := m.c
	n := []int{0, 1, 2, 40}[i%4]
	if i >= 4 {
		n = r.IntN(14)
	}
	var es []refEntry
	for k := 0; k < n; k++ {
		switch r.IntN(3) {
		case 0:
			es = append(es, refEntry{})
		case 1:
			es = append(es, refEntry{true, 1, r.Bytes(145)})
		case 2:
			es = append(es, refEntry{true, 2, r.Bytes(256)})
		}
	}
	enc := encRespList(es)
	c.Eval(1)
	check := func(b []byte, class string, must bool) { m.respAccepted(es, b, class, must) }
	check(enc, "canonical", true)
	l, k := refVarintDec(enc)
	for _, form := range []int{2, 4, 8} {
		if f := varintForm(l, form); f != nil && form != k {
			check(splice(enc, 0, k, f), "overlong-varint", false)
		}
	}
	check(append(clone(enc), r.Bytes(5)...), "trailing", false)
	if len(enc) > 1 {
		check(flipBit(enc, r.IntN(len(enc)*8)), "bitflip", false)
		check(splice(enc, 0, k, refVarintEnc(l-1)), "length-1", false)
	}
	c.Distinctf("resplist:%d", n)
}

// encapKeyBulk: several thousand honest name keys (one per seed), each encoded and decoded again: a check on the key
// bytes that is wrong for one key in a few hundred shows only in bulk.
func (m c04) encapKeyBulk(lo, hi int) {
	c := m.c
	for i := lo; i < hi; i++ {
		seed := c.IdxRng("encap-bulk", int64(i)).Bytes(32)
		c.Eval(1)
		pan, pv, where := core.Guard(func() {
			pk, err := type3.CreatePrivateEncapKeyFromSeed(seed)
			if err != nil {
				m.bad("EncapKey:create-error", err.Error(), map[string]any{"seed": core.Hex(seed)})
				return
			}
			enc := pk.Public().Marshal()
			k2, err := type3.UnmarshalEncapKey(clone(enc))
			if err != nil || !bytes.Equal(k2.Marshal(), enc) {
				m.bad("EncapKey:roundtrip", fmt.Sprintf("UnmarshalEncapKey(Marshal(k)) fails or re-encodes differently for an honest name key (err=%v)", err), map[string]any{"seed": core.Hex(seed), "encoding": core.Hex(enc)})
				return
			}
			c.Class("honest_name_keys_in_bulk_roundtrip")
		})
		if pan {
			m.bad("EncapKey:panic:"+where, "EncapKey codec panicked: "+pv, map[string]any{"seed": core.Hex(seed)})
		}
	}
}

func (m c04) encapKeyCase(r *core.Rand, i int) {
	c := m.c
	c.Eval(1)
	seed := r.Bytes(32)
	pan, pv, where := core.Guard(func() {
		pk, err := type3.CreatePrivateEncapKeyFromSeed(seed)
		if err != nil {
			m.bad("EncapKey:create-error", err.Error(), nil)
			return
		}
		enc := pk.Public().Marshal()
		d := map[string]any{"encoding": core.Hex(enc)}
		if len(enc) != 39 || enc[0] != 1 || enc[1] != 0 || enc[2] != 0x20 || enc[35] != 0 || enc[36] != 1 || enc[37] != 0 || enc[38] != 1 {
			m.bad("EncapKey:layout", "EncapKey encoding is not key_id(1)||kem_id(2)||public_key(32)||kdf_id(2)||aead_id(2) with the fixed suite ids", d)
			return
		}
		k2, err := type3.UnmarshalEncapKey(clone(enc))
		if err != nil || !bytes.Equal(k2.Marshal(), enc) {
			m.bad("EncapKey:roundtrip", "UnmarshalEncapKey(Marshal(k)) does not re-encode to the same bytes", d)
			return
		}
		c.Class("value_roundtrip_ok")
		// other ids the library knows, with trailing data: re-encoding must be the canonical prefix
		for _, kem := range []struct {
			id uint16
			n  int
		}{{0x20, 32}, {0x21, 56}} {
			for kdf := uint16(1); kdf <= 3; kdf++ {
				for aead := uint16(1); aead <= 3; aead++ {
					b := []byte{byte(r.IntN(256)), byte(kem.id >> 8), byte(kem.id)}
					b = append(b, r.Bytes(kem.n)...)
					b = append(b, byte(kdf>>8), byte(kdf), byte(aead>>8), byte(aead))
					for _, trail := range []int{0, 3} {
						in := append(clone(b), r.Bytes(trail)...)
						c.Eval(1)
						k, err := type3.UnmarshalEncapKey(clone(in))
						if err != nil {
							continue
						}
						re := k.Marshal()
						if !bytes.Equal(re, b) {
							m.bad("EncapKey:accepted:reencode-differs", "an accepted EncapKey re-encodes to something other than its canonical prefix", map[string]any{"input": core.Hex(in), "reencoded": core.Hex(re)})
							continue
						}
						c.Class("accepted_bytes_checked")
						if trail > 0 {
							c.Class("accepted_noncanonical")
						}
						c.Distinctf("encapkey:%x:%d:%d", kem.id, kdf, aead)
					}
				}
			}
		}
	})
	if pan {
		m.bad("EncapKey:panic:"+where, "EncapKey codec panicked: "+pv, nil)
	}
}

func (m c04) rustVectors() {
	c := m.c
	vs, err := LoadRustVectors()
	if err != nil {
		c.Info("rust_vectors_error", err.Error())
		return
	}
	for vi, v := range vs {
		c.Eval(1)
		d := map[string]any{"vector": vi}
		pan, pv, where := core.Guard(func() {
			rs, ok := parseBatch(v.TokenRequest)
			if !ok || len(rs) != len(v.Issuance) {
				c.Info("rust_vector_reference_parse_failed", vi)
				return
			}
			q := new(batched.BatchedTokenRequest)
			if !q.Unmarshal(clone(v.TokenRequest)) {
				m.bad("rust:token_request-rejected", "the generic batch decoder rejects the Rust implementation's token_request", d)
				return
			}
			if got := q.Marshal(); !bytes.Equal(got, v.TokenRequest) {
				d["got"] = core.Hex(got)
				m.bad("rust:token_request-reencode", "the decoded Rust token_request re-marshals to different bytes", d)
				return
			}
			// each element alone through its own decoder, cut at the reference parser's offsets
			for k, e := range rs {
				var o reqObj
				if e.typ == 1 {
					o = new(type1.BasicPrivateTokenRequest)
				} else {
					o = new(type2.BasicPublicTokenRequest)
				}
				if !o.Unmarshal(e.enc()) || !bytes.Equal(o.Marshal(), e.enc()) {
					m.bad("rust:element-reencode", fmt.Sprintf("element %d of the Rust token_request does not round-trip through its type's decoder", k), d)
					return
				}
			}
			resp, err := batched.UnmarshalBatchedTokenResponses(clone(v.TokenResponse))
			if err != nil || len(resp) != len(v.Issuance) {
				m.bad("rust:token_response-rejected", "the response list decoder rejects or miscounts the Rust token_response", d)
				return
			}
			var back []refEntry
			for k, g := range resp {
				back = append(back, refEntry{true, v.Issuance[k].Type, g})
			}
			if !bytes.Equal(encRespList(back), v.TokenResponse) {
				m.bad("rust:token_response-reencode", "the decoded Rust token_response does not re-encode to the same bytes", d)
				return
			}
			c.Class("rust_vector_decoded")
			c.Distinctf("rust:%d", vi)
			// all truncations must be rejected or satisfy the accepted-bytes oracle
			for l := 0; l < len(v.TokenRequest); l++ {
				m.batchAccepted(v.TokenRequest[:l], "rust-truncated", false)
			}
		})
		if pan {
			m.bad("rust:panic:"+where, "codec panicked on a Rust vector: "+pv, d)
		}
	}
}

func runC04(c *core.Ctx) {
	m := c04{c}
	n := c.Pick(300, 6000)
	for i := 0; i < n; i++ {
		if c.Next() {
			m.challengeValue(c.CaseRng(), i)
		}
	}
	for _, tc := range tokenCodecs {
		for i := 0; i < n/2; i++ {
			if c.Next() {
				m.tokenValue(c.CaseRng(), tc, i)
			}
		}
	}
	for _, rc := range reqCodecs() {
		for i := 0; i < n; i++ {
			if c.Next() {
				m.requestCase(rc, c.CaseRng(), i)
			}
		}
	}
	for i := 0; i < n/2; i++ {
		if c.Next() {
			m.batchValue(c.CaseRng(), i)
		}
	}
	for i := 0; i < n/2; i++ {
		if c.Next() {
			m.respListCase(c.CaseRng(), i)
		}
	}
	for i := 0; i < c.Pick(20, 300); i++ {
		if c.Next() {
			m.encapKeyCase(c.CaseRng(), i)
		}
	}
	for lo, total := 0, c.Pick(6000, 200000); lo < total; lo += 500 {
		if c.Next() {
			m.encapKeyBulk(lo, lo+500)
		}
	}
	for i := 0; i < c.Pick(30, 400); i++ {
		if c.Next() {
			m.batchSeparation(c.CaseRng(), i)
		}
	}
	m.tagSeparation()
	if c.Next() {
		m.rustVectors()
	}
}

// c04EditFields replaces exported fields of a decoded request object with fresh slices; false if there is nothing to
// replace (or the type has no exported fields).
func c04EditFields(o reqObj, r *core.Rand) bool {
	switch q := o.(type) {
	case *type1.BasicPrivateTokenRequest:
		q.BlindedReq = r.Bytes(49)
		q.TokenKeyID ^= 0x55
	case *type2.BasicPublicTokenRequest:
		q.BlindedReq = r.Bytes(256)
	case *type5.BatchedPrivateTokenRequest:
		n := len(q.BlindedReq)
		if n < 3 {
			return false
		}
		switch r.IntN(3) {
		case 0:
			q.BlindedReq[1+r.IntN(n-2)] = r.Bytes(32)
		case 1:
			for j := 1; j < n-1; j++ {
				q.BlindedReq[j] = r.Bytes(32)
			}
		default:
			a, b := 1+r.IntN(n-2), 1+r.IntN(n-2)
			q.BlindedReq[a], q.BlindedReq[b] = q.BlindedReq[b], q.BlindedReq[a]
			q.BlindedReq[a] = clone(q.BlindedReq[a])
		}
	case *type3.RateLimitedTokenRequest:
		q.Signature = r.Bytes(96)
		q.NameKeyID = r.Bytes(32)
	default:
		return false
	}
	return true
}
