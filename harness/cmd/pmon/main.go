// pmon: runtime monitors for the pat-go properties (driver and worker in one binary).
package main

import (
	"verifharness/internal/core"
	_ "verifharness/props"
)

func main() { core.Main() }
