// mkextremes searches (run once; result committed under /verif/fixtures) for honest type-5 requests whose blinded
// element, or whose evaluated element under the fixture key, has an EXTREME canonical encoding: top bytes 7f ff,
// low bytes 00 00, top byte 00. Such encodings appear once per 2^15..2^16 elements; a pre-check or fast path that
// mistreats them breaks honest issuance only then. The monitor re-derives the elements at run time.
package main

import (
	"crypto/sha256"
	"encoding/binary"
	"encoding/hex"
	"encoding/json"
	"fmt"
	"math/big"
	"os"

	"github.com/cloudflare/circl/group"
	"github.com/cloudflare/circl/oprf"

	"github.com/cloudflare/pat-go/tokens/type5"

	"verifharness/props"
)

type ext struct {
	Kind    string `json:"kind"`
	Side    string `json:"side"` // "request" or "response"
	Nonce   string `json:"nonce"`
	Blind   string `json:"blind"`
	Element string `json:"element"`
}

func main() {
	out := os.Args[1]
	seed := sha256.Sum256([]byte("verif type5 collision fixture key"))
	challenge := []byte("verif collision fixture challenge")
	key := props.VOPRFKey(oprf.SuiteRistretto255, seed[:])
	iss := type5.NewBatchedPrivateIssuer(key)
	kb, _ := key.MarshalBinary()
	k := group.Ristretto255.NewScalar()
	if err := k.UnmarshalBinary(kb); err != nil {
		panic(err)
	}
	order, _ := new(big.Int).SetString("7237005577332262213973186563042994240857116359379907606001950938285454250989", 10)
	h := func(tag string, t uint64) []byte {
		var b [8]byte
		binary.BigEndian.PutUint64(b[:], t)
		n := sha256.Sum256(append([]byte(tag), b[:]...))
		return n[:]
	}
	scalar := func(t uint64) []byte {
		v := new(big.Int).SetBytes(append(h("xblind", t), h("xblind2", t)...))
		v.Mod(v, new(big.Int).Sub(order, big.NewInt(1)))
		v.Add(v, big.NewInt(1))
		be, _ := group.Ristretto255.NewScalar().SetBigInt(v).MarshalBinary()
		return be
	}
	kinds := map[string]func(e []byte) bool{
		"top-bytes-7fff": func(e []byte) bool { return e[31] == 0x7f && e[30] == 0xff },
		"low-bytes-0000": func(e []byte) bool { return e[0] == 0 && e[1] == 0 },
		"top-byte-00-00": func(e []byte) bool { return e[31] == 0 && e[30] == 0 },
	}
	need := map[string]int{}
	for kn := range kinds {
		need["request:"+kn] = 2
		need["response:"+kn] = 2
	}
	var res []ext
	left := len(need) * 2
	for t := uint64(0); left > 0; t++ {
		nonce, blind := h("xnonce", t), scalar(t)
		st, err := type5.NewBatchedPrivateClient().CreateTokenRequestWithBlinds(challenge, [][]byte{nonce}, iss.TokenKeyID(), iss.TokenKey(), [][]byte{blind})
		if err != nil {
			panic(err)
		}
		be := st.Request().BlindedReq[0]
		el := group.Ristretto255.NewElement()
		if err := el.UnmarshalBinary(be); err != nil {
			panic(err)
		}
		ev := group.Ristretto255.NewElement().Mul(el, k)
		ee, _ := ev.MarshalBinaryCompress()
		for kn, f := range kinds {
			if f(be) && need["request:"+kn] > 0 {
				need["request:"+kn]--
				left--
				res = append(res, ext{kn, "request", hex.EncodeToString(nonce), hex.EncodeToString(blind), hex.EncodeToString(be)})
				fmt.Fprintln(os.Stderr, "request", kn, "at", t)
			}
			if f(ee) && need["response:"+kn] > 0 {
				need["response:"+kn]--
				left--
				res = append(res, ext{kn, "response", hex.EncodeToString(nonce), hex.EncodeToString(blind), hex.EncodeToString(ee)})
				fmt.Fprintln(os.Stderr, "response", kn, "at", t)
			}
		}
	}
	j, _ := json.MarshalIndent(map[string]any{"key_seed": hex.EncodeToString(seed[:]), "challenge": hex.EncodeToString(challenge), "type5": res}, "", " ")
	os.WriteFile(out, j, 0o644)
}
