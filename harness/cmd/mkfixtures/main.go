// mkfixtures generates the committed RSA-2048 key fixtures (run once).
package main

import (
	"crypto/rand"
	"crypto/rsa"
	"crypto/x509"
	"encoding/pem"
	"fmt"
	"os"
)

func main() {
	dir := os.Args[1]
	for i := 0; i < 8; i++ {
		k, err := rsa.GenerateKey(rand.Reader, 2048)
		if err != nil {
			panic(err)
		}
		der, _ := x509.MarshalPKCS8PrivateKey(k)
		b := pem.EncodeToMemory(&pem.Block{Type: "PRIVATE KEY", Bytes: der})
		if err := os.WriteFile(fmt.Sprintf("%s/rsa2048-%d.pem", dir, i), b, 0o644); err != nil {
			panic(err)
		}
	}
}
