// mkcollisions searches (run once; result committed under /verif/fixtures) for pairs of honest type-5 blinded
// elements that agree in their leading 32 bits, and pairs that agree in their trailing 32 bits: the inputs a
// runtime workload needs to expose de-duplication or caching keyed by part of an element. The blinded element
// depends on (challenge, nonce, key id, blind) only, all recorded in the fixture, and is recomputed and
// re-checked by the monitor at run time.
package main

import (
	"crypto/elliptic"
	"crypto/sha256"
	"encoding/binary"
	"encoding/hex"
	"encoding/json"
	"fmt"
	"math/big"
	"os"

	"github.com/cloudflare/circl/group"
	"github.com/cloudflare/circl/oprf"

	"github.com/cloudflare/pat-go/tokens/type1"
	"github.com/cloudflare/pat-go/tokens/type2"
	"github.com/cloudflare/pat-go/tokens/type5"

	"verifharness/props"
)

type pair struct {
	Kind           string `json:"kind"`
	NonceA, BlindA string
	NonceB, BlindB string
	ElementA       string
	ElementB       string
}

func search(label string, element func(t uint64) []byte, describe func(t uint64) (string, string)) []pair {
	lead := map[uint32]uint64{}
	trail := map[uint32]uint64{}
	var found []pair
	need := map[string]int{"leading-32-bits": 2, "trailing-32-bits": 2}
	for t := uint64(0); need["leading-32-bits"] > 0 || need["trailing-32-bits"] > 0; t++ {
		e := element(t)
		rec := func(kind string, m map[uint32]uint64, k uint32) {
			if o, ok := m[k]; ok && need[kind] > 0 {
				eo := element(o)
				if hex.EncodeToString(eo) != hex.EncodeToString(e) {
					na, ba := describe(o)
					nb, bb := describe(t)
					found = append(found, pair{kind, na, ba, nb, bb, hex.EncodeToString(eo), hex.EncodeToString(e)})
					need[kind]--
					fmt.Fprintln(os.Stderr, label, kind, "after", t)
				}
			}
			m[k] = t
		}
		rec("leading-32-bits", lead, binary.BigEndian.Uint32(e[:4]))
		rec("trailing-32-bits", trail, binary.BigEndian.Uint32(e[len(e)-4:]))
	}
	return found
}

func main() {
	out := os.Args[1]
	os.Setenv("VERIF_DIR", os.Args[2])
	seed := sha256.Sum256([]byte("verif type5 collision fixture key"))
	challenge := []byte("verif collision fixture challenge")
	h := func(tag string, t uint64) []byte {
		var b [8]byte
		binary.BigEndian.PutUint64(b[:], t)
		n := sha256.Sum256(append([]byte(tag), b[:]...))
		return n[:]
	}
	scalar := func(g group.Group, order *big.Int, t uint64) []byte {
		v := new(big.Int).SetBytes(append(h("blind", t), h("blind2", t)...))
		v.Mod(v, new(big.Int).Sub(order, big.NewInt(1)))
		v.Add(v, big.NewInt(1))
		be, _ := g.NewScalar().SetBigInt(v).MarshalBinary()
		return be
	}
	hx := hex.EncodeToString
	// type 5
	key5 := props.VOPRFKey(oprf.SuiteRistretto255, seed[:])
	iss5 := type5.NewBatchedPrivateIssuer(key5)
	order5, _ := new(big.Int).SetString("7237005577332262213973186563042994240857116359379907606001950938285454250989", 10)
	p5 := search("type5", func(t uint64) []byte {
		st, err := type5.NewBatchedPrivateClient().CreateTokenRequestWithBlinds(challenge, [][]byte{h("nonce", t)}, iss5.TokenKeyID(), iss5.TokenKey(), [][]byte{scalar(group.Ristretto255, order5, t)})
		if err != nil {
			panic(err)
		}
		return st.Request().BlindedReq[0]
	}, func(t uint64) (string, string) { return hx(h("nonce", t)), hx(scalar(group.Ristretto255, order5, t)) })
	// type 1
	key1 := props.VOPRFKey(oprf.SuiteP384, seed[:])
	iss1 := type1.NewBasicPrivateIssuer(key1)
	order1 := elliptic.P384().Params().N
	p1 := search("type1", func(t uint64) []byte {
		st, err := type1.NewBasicPrivateClient().CreateTokenRequestWithBlind(challenge, h("nonce", t), iss1.TokenKeyID(), iss1.TokenKey(), scalar(group.P384, order1, t))
		if err != nil {
			panic(err)
		}
		return st.Request().BlindedReq
	}, func(t uint64) (string, string) { return hx(h("nonce", t)), hx(scalar(group.P384, order1, t)) })
	// type 2 (RSA fixture 0; blind = 256 seeded bytes below the modulus, salt = 48 seeded bytes)
	rk := props.RSAKeys()[0]
	iss2 := type2.NewBasicPublicIssuer(rk)
	blind2 := func(t uint64) []byte {
		var b []byte
		for i := 0; i < 8; i++ {
			b = append(b, h(fmt.Sprintf("rsablind%d", i), t)...)
		}
		v := new(big.Int).SetBytes(b)
		v.Mod(v, new(big.Int).Sub(rk.N, big.NewInt(2)))
		v.Add(v, big.NewInt(2))
		return v.FillBytes(make([]byte, 256))
	}
	salt2 := func(t uint64) []byte { return append(h("salt", t), h("salt2", t)[:16]...) }
	p2 := search("type2", func(t uint64) []byte {
		st, err := type2.NewBasicPublicClient().CreateTokenRequestWithBlind(challenge, h("nonce", t), iss2.TokenKeyID(), iss2.TokenKey(), blind2(t), salt2(t))
		if err != nil {
			panic(err)
		}
		return st.Request().BlindedReq
	}, func(t uint64) (string, string) { return hx(h("nonce", t)), hx(blind2(t)) + ":" + hx(salt2(t)) })
	j, _ := json.MarshalIndent(map[string]any{"key_seed": hx(seed[:]), "challenge": hx(challenge), "rsa_fixture": 0, "type5": p5, "type1": p1, "type2": p2}, "", " ")
	if err := os.WriteFile(out, j, 0o644); err != nil {
		panic(err)
	}
}
