// mkoddrsa generates the committed RSA fixtures whose modulus is 256 octets long but shorter than 2048 bits
// (2041, 2045, 2047 bits): run once, `go run ./cmd/mkoddrsa /verif/fixtures`.
package main

import (
	"crypto/rand"
	"crypto/rsa"
	"crypto/x509"
	"encoding/pem"
	"fmt"
	"os"
)

func main() {
	dir := os.Args[1]
	for _, bits := range []int{2041, 2045, 2047} {
		k, err := rsa.GenerateKey(rand.Reader, bits)
		if err != nil {
			panic(err)
		}
		if k.N.BitLen() != bits {
			panic("unexpected modulus size")
		}
		der, _ := x509.MarshalPKCS8PrivateKey(k)
		b := pem.EncodeToMemory(&pem.Block{Type: "PRIVATE KEY", Bytes: der})
		if err := os.WriteFile(fmt.Sprintf("%s/rsa-odd-%d.pem", dir, bits), b, 0o644); err != nil {
			panic(err)
		}
	}
}
