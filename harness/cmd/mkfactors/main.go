// mkfactors searches (run once; result committed under /verif/fixtures) for Ed25519 key-blinding inputs whose blinding
// factor k = int_le(SHA-512(blind || 0x00 || ctx)[0:32]) mod L is RARE in a way arithmetic code can trip over: divisible
// by 2^32 (2^-32), below 2^224 (2^-28), divisible by 2^16 with the top 12 bits zero. No structured blind reaches these;
// only a search over hash inputs does. The monitor recomputes k from (blind, ctx) and re-checks the property at run time.
package main

import (
	"crypto/sha512"
	"encoding/binary"
	"encoding/hex"
	"encoding/json"
	"fmt"
	"math/big"
	"os"
	"runtime"
	"sync"
	"sync/atomic"
)

type found struct {
	Kind   string `json:"kind"`
	Blind  string `json:"blind"`
	Ctx    string `json:"context"`
	Factor string `json:"factor_le"`
}

func main() {
	out := os.Args[1]
	L, _ := new(big.Int).SetString("7237005577332262213973186563042994240857116359379907606001950938285454250989", 10)
	ctx := []byte("verif rare factor fixture")
	var mu sync.Mutex
	var res []found
	need := map[string]int{"divisible-by-2^32": 2, "below-2^224": 2, "divisible-by-2^16-and-below-2^240": 2}
	var done atomic.Bool
	var wg sync.WaitGroup
	nw := runtime.NumCPU()
	Llow := L.Uint64()
	for w := 0; w < nw; w++ {
		wg.Add(1)
		go func(w int) {
			defer wg.Done()
			blind := make([]byte, 32)
			copy(blind, []byte("rare-factor-search"))
			buf := make([]byte, 0, 80)
			x := new(big.Int)
			rev := make([]byte, 32)
			for ctr := uint64(w); !done.Load(); ctr += uint64(nw) {
				binary.LittleEndian.PutUint64(blind[24:], ctr)
				buf = append(buf[:0], blind...)
				buf = append(buf, 0)
				buf = append(buf, ctx...)
				h := sha512.Sum512(buf)
				lo := binary.LittleEndian.Uint64(h[:8])
				top := h[31]
				// cheap pre-filters: x mod L = x - q*L with q in 0..15
				hit := top == 0 && h[30] == 0 && h[29] == 0 // candidates for "below 2^224" need x < 2^232 at least (q = 0)
				if !hit {
					for q := uint64(0); q < 16; q++ {
						if uint16(lo-q*Llow) == 0 {
							hit = true
							break
						}
					}
				}
				if !hit {
					continue
				}
				for i := 0; i < 32; i++ {
					rev[i] = h[31-i]
				}
				x.SetBytes(rev)
				x.Mod(x, L)
				kinds := []string{}
				if x.Sign() != 0 && new(big.Int).And(x, big.NewInt(0xffffffff)).Sign() == 0 {
					kinds = append(kinds, "divisible-by-2^32")
				}
				if x.BitLen() <= 224 {
					kinds = append(kinds, "below-2^224")
				}
				if x.Sign() != 0 && new(big.Int).And(x, big.NewInt(0xffff)).Sign() == 0 && x.BitLen() <= 240 {
					kinds = append(kinds, "divisible-by-2^16-and-below-2^240")
				}
				if len(kinds) == 0 {
					continue
				}
				mu.Lock()
				for _, k := range kinds {
					if need[k] > 0 {
						need[k]--
						le := make([]byte, 32)
						for i, b := range x.Bytes() {
							le[len(x.Bytes())-1-i] = b
						}
						res = append(res, found{k, hex.EncodeToString(blind), hex.EncodeToString(ctx), hex.EncodeToString(le)})
						fmt.Fprintln(os.Stderr, k, "at", ctr)
					}
				}
				all := true
				for _, v := range need {
					all = all && v == 0
				}
				if all {
					done.Store(true)
				}
				mu.Unlock()
			}
		}(w)
	}
	wg.Wait()
	j, _ := json.MarshalIndent(res, "", " ")
	os.WriteFile(out, j, 0o644)
}
