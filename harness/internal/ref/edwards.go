package ref

import (
	"crypto/sha512"
	"math/big"
)

// A deliberately simple model of edwards25519 and Ed25519 over math/big:
// affine points, the complete twisted-Edwards addition law with a modular
// inversion per operation, double-and-add. Slow (about a millisecond per
// multiplication) and easy to audit against RFC 8032.

var (
	EdP, _ = new(big.Int).SetString("7fffffffffffffffffffffffffffffffffffffffffffffffffffffffffffffed", 16)
	EdL, _ = new(big.Int).SetString("1000000000000000000000000000000014def9dea2f79cd65812631a5cf5d3ed", 16)
	edD    *big.Int
	EdB    *EdPoint
)

// EdPoint is an affine point (x, y) with -x^2 + y^2 = 1 + d x^2 y^2.
type EdPoint struct{ X, Y *big.Int }

func init() {
	// d = -121665/121666
	inv := new(big.Int).ModInverse(big.NewInt(121666), EdP)
	edD = new(big.Int).Mul(big.NewInt(-121665), inv)
	edD.Mod(edD, EdP)
	// base point: y = 4/5, x even
	y := new(big.Int).Mul(big.NewInt(4), new(big.Int).ModInverse(big.NewInt(5), EdP))
	y.Mod(y, EdP)
	x, ok := edRecoverX(y, 0)
	if !ok {
		panic("ref: base point")
	}
	EdB = &EdPoint{x, y}
}

func edMod(x *big.Int) *big.Int { return x.Mod(x, EdP) }

// edRecoverX returns the x with x^2 = (y^2-1)/(d y^2+1) whose parity is the
// non-negative (even) one, negated if sign = 1. x = 0 with sign = 1 is accepted
// (gives x = 0), as the reference implementation does.
func edRecoverX(y *big.Int, sign uint) (*big.Int, bool) {
	y2 := edMod(new(big.Int).Mul(y, y))
	u := edMod(new(big.Int).Sub(y2, big.NewInt(1)))
	v := edMod(new(big.Int).Add(new(big.Int).Mul(edD, y2), big.NewInt(1)))
	vinv := new(big.Int).ModInverse(v, EdP)
	if vinv == nil {
		return nil, false
	}
	x2 := edMod(new(big.Int).Mul(u, vinv))
	x := new(big.Int).ModSqrt(x2, EdP)
	if x == nil {
		return nil, false
	}
	if x.Bit(0) == 1 {
		x.Sub(EdP, x)
	}
	if sign == 1 {
		x.Sub(EdP, x)
		x.Mod(x, EdP)
	}
	return x, true
}

func leToInt(b []byte) *big.Int {
	r := make([]byte, len(b))
	for i := range b {
		r[len(b)-1-i] = b[i]
	}
	return new(big.Int).SetBytes(r)
}

func intToLE(x *big.Int, n int) []byte {
	be := make([]byte, n)
	x.FillBytes(be)
	for i, j := 0, n-1; i < j; i, j = i+1, j-1 {
		be[i], be[j] = be[j], be[i]
	}
	return be
}

// EdDecode decodes a 32-byte point encoding the way crypto/ed25519 does:
// the y coordinate is taken modulo p (non-canonical values are accepted).
func EdDecode(b []byte) (*EdPoint, bool) {
	if len(b) != 32 {
		return nil, false
	}
	c := append([]byte{}, b...)
	sign := uint(c[31] >> 7)
	c[31] &= 0x7f
	y := leToInt(c)
	y.Mod(y, EdP)
	x, ok := edRecoverX(y, sign)
	if !ok {
		return nil, false
	}
	return &EdPoint{x, y}, true
}

// EdEncode is the canonical encoding.
func EdEncode(p *EdPoint) []byte {
	out := intToLE(p.Y, 32)
	out[31] |= byte(p.X.Bit(0)) << 7
	return out
}

// EdAdd is the complete addition law (a = -1).
func EdAdd(p, q *EdPoint) *EdPoint {
	x1y2 := new(big.Int).Mul(p.X, q.Y)
	y1x2 := new(big.Int).Mul(p.Y, q.X)
	y1y2 := new(big.Int).Mul(p.Y, q.Y)
	x1x2 := new(big.Int).Mul(p.X, q.X)
	t := edMod(new(big.Int).Mul(edMod(new(big.Int).Mul(x1x2, y1y2)), edD))
	nx := edMod(new(big.Int).Add(x1y2, y1x2))
	ny := edMod(new(big.Int).Add(y1y2, x1x2))
	dx := new(big.Int).ModInverse(edMod(new(big.Int).Add(big.NewInt(1), t)), EdP)
	dy := new(big.Int).ModInverse(edMod(new(big.Int).Sub(big.NewInt(1), t)), EdP)
	return &EdPoint{edMod(nx.Mul(nx, dx)), edMod(ny.Mul(ny, dy))}
}

func EdNeg(p *EdPoint) *EdPoint {
	return &EdPoint{edMod(new(big.Int).Neg(p.X)), new(big.Int).Set(p.Y)}
}

func EdIdentity() *EdPoint { return &EdPoint{big.NewInt(0), big.NewInt(1)} }

// EdMul is double-and-add with a non-negative integer scalar (not reduced).
func EdMul(k *big.Int, p *EdPoint) *EdPoint {
	acc := EdIdentity()
	for i := k.BitLen() - 1; i >= 0; i-- {
		acc = EdAdd(acc, acc)
		if k.Bit(i) == 1 {
			acc = EdAdd(acc, p)
		}
	}
	return acc
}

func EdEqual(p, q *EdPoint) bool { return p.X.Cmp(q.X) == 0 && p.Y.Cmp(q.Y) == 0 }

// EdScalarLE reduces a little-endian integer modulo L and returns the canonical 32 bytes.
func EdScalarLE(le []byte) []byte {
	x := leToInt(le)
	x.Mod(x, EdL)
	return intToLE(x, 32)
}

func EdScalarInt(le []byte) *big.Int { return leToInt(le) }

func EdIntLE(x *big.Int) []byte {
	return intToLE(new(big.Int).Mod(x, EdL), 32)
}

// EdClamp is the RFC 8032 pruning of the first 32 bytes of SHA-512(seed).
func EdClamp(h []byte) *big.Int {
	c := append([]byte{}, h[:32]...)
	c[0] &= 248
	c[31] &= 63
	c[31] |= 64
	return leToInt(c)
}

// EdPublicFromSeed is RFC 8032 key derivation.
func EdPublicFromSeed(seed []byte) []byte {
	h := sha512.Sum512(seed)
	return EdEncode(EdMul(EdClamp(h[:]), EdB))
}

// EdVerifyModel is cofactorless verification as crypto/ed25519 performs it:
// S canonical (< L), A and R decoded permissively for A and compared by
// encoding for R: [S]B - [k]A re-encoded must equal the R bytes.
func EdVerifyModel(pub, msg, sig []byte) bool {
	if len(pub) != 32 || len(sig) != 64 {
		return false
	}
	if sig[63]&224 != 0 {
		return false
	}
	A, ok := EdDecode(pub)
	if !ok {
		return false
	}
	S := leToInt(sig[32:])
	if S.Cmp(EdL) >= 0 {
		return false
	}
	h := sha512.New()
	h.Write(sig[:32])
	h.Write(pub)
	h.Write(msg)
	k := leToInt(h.Sum(nil))
	k.Mod(k, EdL)
	R := EdAdd(EdMul(S, EdB), EdMul(k, EdNeg(A)))
	enc := EdEncode(R)
	for i := range enc {
		if enc[i] != sig[i] {
			return false
		}
	}
	return true
}
