// Package ref holds the independent references the monitors judge pat-go
// against. Nothing in here imports pat-go, circl's expander, x/crypto/hkdf or
// cryptobyte: every reference is written from the specification with the
// standard library only.
package ref

import (
	"crypto"
	"crypto/elliptic"
	"crypto/hmac"
	"crypto/rsa"
	"crypto/sha256"
	"crypto/sha512"
	"errors"
	"hash"
	"math/big"
)

// ---------------------------------------------------------------- RFC 9380 expand_message_xmd / hash_to_field

func ExpandMessageXMD(h func() hash.Hash, msg, dst []byte, n int) []byte {
	hh := h()
	bLen := hh.Size()
	sLen := hh.BlockSize()
	ell := (n + bLen - 1) / bLen
	if ell > 255 || n > 65535 || len(dst) > 255 {
		panic("ref: expand_message_xmd parameters out of range")
	}
	dstPrime := append(append([]byte{}, dst...), byte(len(dst)))
	hh.Write(make([]byte, sLen))
	hh.Write(msg)
	hh.Write([]byte{byte(n >> 8), byte(n)})
	hh.Write([]byte{0})
	hh.Write(dstPrime)
	b0 := hh.Sum(nil)
	out := make([]byte, 0, ell*bLen)
	prev := make([]byte, bLen) // b_0 xor b_0 = 0 for the first round: b_1 = H(b_0 || 1 || DST')
	var bi []byte
	for i := 1; i <= ell; i++ {
		hh = h()
		if i == 1 {
			hh.Write(b0)
		} else {
			x := make([]byte, bLen)
			for j := range x {
				x[j] = b0[j] ^ prev[j]
			}
			hh.Write(x)
		}
		hh.Write([]byte{byte(i)})
		hh.Write(dstPrime)
		bi = hh.Sum(nil)
		out = append(out, bi...)
		prev = bi
	}
	return out[:n]
}

// HashToFieldOne is hash_to_field(msg, 1) for a prime field (m = 1).
func HashToFieldOne(h func() hash.Hash, msg, dst []byte, modulus *big.Int, L int) *big.Int {
	u := ExpandMessageXMD(h, msg, dst, L)
	x := new(big.Int).SetBytes(u)
	return x.Mod(x, modulus)
}

// ECDSABlindParams are the per-curve (hash, L) of the ECDSA key-blinding
// derivation.
func ECDSABlindParams(curve elliptic.Curve) (func() hash.Hash, int) {
	switch curve.Params().Name {
	case "P-224":
		return sha256.New, 32
	case "P-256":
		return sha256.New, 48
	case "P-384":
		return sha512.New384, 72
	case "P-521":
		return sha512.New, 98
	}
	panic("ref: unsupported curve")
}

// ECDSABlindScalar: hash_to_field(minimal-big-endian(D) || 0x00 || ctx) with DST "ECDSA Key Blind".
func ECDSABlindScalar(curve elliptic.Curve, blindD *big.Int, ctx []byte) *big.Int {
	h, L := ECDSABlindParams(curve)
	msg := append([]byte{}, blindD.Bytes()...)
	msg = append(msg, 0)
	msg = append(msg, ctx...)
	return HashToFieldOne(h, msg, []byte("ECDSA Key Blind"), curve.Params().N, L)
}

// ECMul multiplies an affine point by a scalar with the standard library's
// curve (trusted base); the scalar is reduced mod N first.
func ECMul(curve elliptic.Curve, x, y, k *big.Int) (*big.Int, *big.Int) {
	kk := new(big.Int).Mod(k, curve.Params().N)
	if kk.Sign() == 0 {
		return new(big.Int), new(big.Int)
	}
	return curve.ScalarMult(x, y, kk.Bytes())
}

func ECBaseMul(curve elliptic.Curve, k *big.Int) (*big.Int, *big.Int) {
	p := curve.Params()
	return ECMul(curve, p.Gx, p.Gy, k)
}

// ECCompress is SEC1 compressed encoding, by hand.
func ECCompress(curve elliptic.Curve, x, y *big.Int) []byte {
	n := (curve.Params().BitSize + 7) / 8
	out := make([]byte, 1+n)
	out[0] = 2 | byte(y.Bit(0))
	x.FillBytes(out[1:])
	return out
}

// ECDecompress decodes SEC1 compressed points by hand: y^2 = x^3 - 3x + b.
func ECDecompress(curve elliptic.Curve, b []byte) (*big.Int, *big.Int, bool) {
	p := curve.Params()
	n := (p.BitSize + 7) / 8
	if len(b) != 1+n || (b[0] != 2 && b[0] != 3) {
		return nil, nil, false
	}
	x := new(big.Int).SetBytes(b[1:])
	if x.Cmp(p.P) >= 0 {
		return nil, nil, false
	}
	y2 := new(big.Int).Mul(x, x)
	y2.Mul(y2, x)
	t := new(big.Int).Lsh(x, 1)
	t.Add(t, x)
	y2.Sub(y2, t)
	y2.Add(y2, p.B)
	y2.Mod(y2, p.P)
	y := new(big.Int).ModSqrt(y2, p.P)
	if y == nil {
		return nil, nil, false
	}
	if y.Bit(0) != uint(b[0]&1) {
		y.Sub(p.P, y)
	}
	chk := new(big.Int).Mul(y, y)
	chk.Mod(chk, p.P)
	if chk.Cmp(y2) != 0 {
		return nil, nil, false
	}
	return x, y, true
}

// ECDSABlindPublic is the reference for BlindPublicKeyWithContext.
func ECDSABlindPublic(curve elliptic.Curve, x, y, blindD *big.Int, ctx []byte) (*big.Int, *big.Int) {
	return ECMul(curve, x, y, ECDSABlindScalar(curve, blindD, ctx))
}

// ---------------------------------------------------------------- RFC 5869 HKDF

func HKDF(h func() hash.Hash, ikm, salt, info []byte, n int) []byte {
	if salt == nil {
		salt = make([]byte, h().Size())
	}
	ext := hmac.New(h, salt)
	ext.Write(ikm)
	prk := ext.Sum(nil)
	var out, t []byte
	for i := byte(1); len(out) < n; i++ {
		m := hmac.New(h, prk)
		m.Write(t)
		m.Write(info)
		m.Write([]byte{i})
		t = m.Sum(nil)
		out = append(out, t...)
	}
	return out[:n]
}

// IssuerOriginAlias is the anonymous issuer origin ID of the rate-limited
// protocol: HKDF-SHA-384(salt = client key, ikm = index key, info = "IssuerOriginAlias", 48).
func IssuerOriginAlias(clientKeyEnc, indexKeyEnc []byte) []byte {
	return HKDF(sha512.New384, indexKeyEnc, clientKeyEnc, []byte("IssuerOriginAlias"), 48)
}

// ---------------------------------------------------------------- RSA-PSS token verification (types 2, 3)

// VerifyRSAToken checks authenticator as RSASSA-PSS(SHA-384, MGF1-SHA-384, salt 48) over input.
func VerifyRSAToken(pub *rsa.PublicKey, input, authenticator []byte) error {
	d := sha512.Sum384(input)
	return rsa.VerifyPSS(pub, crypto.SHA384, d[:], authenticator, &rsa.PSSOptions{Hash: crypto.SHA384, SaltLength: 48})
}

// ---------------------------------------------------------------- DER: SubjectPublicKeyInfo for Privacy Pass RSA token keys

// rsassaPSSAlgID is the AlgorithmIdentifier of RFC 9578 section 8.2.2:
// id-RSASSA-PSS with hashAlgorithm sha384 (parameters absent), mgf1 with
// sha384, saltLength 48. Written out byte by byte.
var rsassaPSSAlgID = []byte{
	0x30, 0x3d, // SEQUENCE, 61
	0x06, 0x09, 0x2a, 0x86, 0x48, 0x86, 0xf7, 0x0d, 0x01, 0x01, 0x0a, // OID 1.2.840.113549.1.1.10
	0x30, 0x30, // SEQUENCE, 48 (RSASSA-PSS-params)
	0xa0, 0x0d, 0x30, 0x0b, 0x06, 0x09, 0x60, 0x86, 0x48, 0x01, 0x65, 0x03, 0x04, 0x02, 0x02, // [0] sha384
	0xa1, 0x1a, 0x30, 0x18, 0x06, 0x09, 0x2a, 0x86, 0x48, 0x86, 0xf7, 0x0d, 0x01, 0x01, 0x08, // [1] mgf1
	0x30, 0x0b, 0x06, 0x09, 0x60, 0x86, 0x48, 0x01, 0x65, 0x03, 0x04, 0x02, 0x02, //     with sha384
	0xa2, 0x03, 0x02, 0x01, 0x30, // [2] saltLength 48
}

// rsaEncryptionAlgID: rsaEncryption with NULL parameters (the legacy form).
var rsaEncryptionAlgID = []byte{0x30, 0x0d, 0x06, 0x09, 0x2a, 0x86, 0x48, 0x86, 0xf7, 0x0d, 0x01, 0x01, 0x01, 0x05, 0x00}

func derLen(n int) []byte {
	if n < 128 {
		return []byte{byte(n)}
	}
	var b []byte
	for x := n; x > 0; x >>= 8 {
		b = append([]byte{byte(x)}, b...)
	}
	return append([]byte{0x80 | byte(len(b))}, b...)
}

func derTLV(tag byte, content []byte) []byte {
	out := []byte{tag}
	out = append(out, derLen(len(content))...)
	return append(out, content...)
}

func derUint(x *big.Int) []byte {
	b := x.Bytes()
	if len(b) == 0 {
		b = []byte{0}
	}
	if b[0]&0x80 != 0 {
		b = append([]byte{0}, b...)
	}
	return derTLV(0x02, b)
}

func spki(algID []byte, n *big.Int, e int) []byte {
	rsaPub := derTLV(0x30, append(derUint(n), derUint(big.NewInt(int64(e)))...))
	bitString := derTLV(0x03, append([]byte{0}, rsaPub...))
	return derTLV(0x30, append(append([]byte{}, algID...), bitString...))
}

// SPKIRSAPSS is the Privacy Pass token-key encoding of an RSA public key.
func SPKIRSAPSS(n *big.Int, e int) []byte { return spki(rsassaPSSAlgID, n, e) }

// SPKIRSAEncryption is the legacy rsaEncryption form.
func SPKIRSAEncryption(n *big.Int, e int) []byte { return spki(rsaEncryptionAlgID, n, e) }

// ---------------------------------------------------------------- token layout

// TokenBytes assembles type || nonce || SHA-256(challenge) || key id || authenticator.
func TokenBytes(tokenType uint16, nonce, challenge, keyID, authenticator []byte) []byte {
	ctx := sha256.Sum256(challenge)
	out := []byte{byte(tokenType >> 8), byte(tokenType)}
	out = append(out, nonce...)
	out = append(out, ctx[:]...)
	out = append(out, keyID...)
	return append(out, authenticator...)
}

// TokenInput assembles type || nonce || context || key id from explicit fields.
func TokenInput(tokenType uint16, nonce, context, keyID []byte) []byte {
	out := []byte{byte(tokenType >> 8), byte(tokenType)}
	out = append(out, nonce...)
	out = append(out, context...)
	return append(out, keyID...)
}

var ErrRef = errors.New("ref: self-check failed")
