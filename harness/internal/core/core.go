// Package core is the shared monitor framework: sharded case enumeration,
// event/verdict recording, the driver/worker process split with journaling and
// crash containment, evidence and replay files, known findings.
package core

import (
	"crypto/sha256"
	"encoding/binary"
	"encoding/hex"
	"encoding/json"
	"fmt"
	"math/rand/v2"
	"os"
	"runtime"
	"runtime/debug"
	"sort"
	"strings"
	"sync"
	"sync/atomic"
)

// Prop describes one property monitor.
type Prop struct {
	ID    string
	Level string // evidence level: exploration | fault_enumeration
	Rule  string // how cases are generated and what makes one distinct/non-trivial
	// Floors lists the observation classes that must have been seen at least
	// once; a run that missed one is inconclusive (the monitor did not see what
	// it claims to watch).
	Floors []string
	// SelfCheck lists classes that signal a broken reference (e.g. the model
	// disagreeing with the standard library); seeing one makes the run inconclusive.
	SelfCheck   []string
	Assumptions []string
	// Race marks monitors that must run in the -race build.
	Race bool
	// HostileBytes marks monitors whose workers parse attacker-chosen bytes and
	// therefore run under an address-space limit.
	HostileBytes bool
	// StallIsViolation: a worker that burns CPU without finishing a case is a
	// violation (non-termination is what the property forbids) instead of
	// inconclusive.
	StallIsViolation bool
	// FuzzTarget names a native Go fuzz function in package props that the driver runs after the enumerated
	// stage (coverage-guided mutation of the same entry points); FuzzExecs gives the execution counts.
	FuzzTarget        string
	FuzzExecsQuick    int
	FuzzExecsThorough int
	Run               func(c *Ctx)
}

var registry = map[string]*Prop{}

func Register(p *Prop) { registry[p.ID] = p }

func Lookup(id string) *Prop { return registry[id] }

func IDs() []string {
	var ids []string
	for k := range registry {
		ids = append(ids, k)
	}
	sort.Strings(ids)
	return ids
}

// Violation is one witnessed refutation.
type Violation struct {
	Case   int64          `json:"case"`
	Key    string         `json:"key"` // stable key: target + failure class + input shape
	What   string         `json:"what"`
	Detail map[string]any `json:"detail,omitempty"`
}

// Result is what a worker hands back to the driver.
type Result struct {
	Evaluations int64            `json:"evaluations"`
	Distinct    []string         `json:"distinct"`
	Classes     map[string]int64 `json:"classes"`
	Info        map[string]any   `json:"info,omitempty"`
	Samples     []any            `json:"samples"`
	Violations  []Violation      `json:"violations"`
	Exhaustive  []string         `json:"exhaustive,omitempty"`
	Cases       int64            `json:"cases"`
	LastCase    int64            `json:"last_case"`
}

// Ctx is handed to a property's Run function inside a worker.
type Ctx struct {
	Prop    *Prop
	Tier    string
	Seed    int64
	Shard   int
	NShards int
	From    int64 // handle only cases with From <= idx <= To
	To      int64
	Only    int64 // replay: handle only this case (-1 = all)

	mu         sync.Mutex
	next       int64
	cur        int64
	evals      atomic.Int64
	distinct   map[string]struct{}
	classes    map[string]int64
	info       map[string]any
	samples    []any
	sampleKeys map[string]int
	viol       []Violation
	violKeys   map[string]int
	exhaustive map[string]bool
	journal    *os.File
}

const maxDistinctKeys = 400000
const maxViolationsPerKey = 3
const maxViolations = 200

func NewCtx(p *Prop, tier string, seed int64, shard, nshards int) *Ctx {
	return &Ctx{Prop: p, Tier: tier, Seed: seed, Shard: shard, NShards: nshards, From: 0, To: 1<<62 - 1, Only: -1,
		distinct: map[string]struct{}{}, classes: map[string]int64{}, info: map[string]any{},
		sampleKeys: map[string]int{}, violKeys: map[string]int{}, exhaustive: map[string]bool{}, cur: -1}
}

func (c *Ctx) Thorough() bool { return c.Tier == "thorough" }

// Pick returns q in the quick tier and t in the thorough tier.
func (c *Ctx) Pick(q, t int) int {
	if c.Thorough() {
		return t
	}
	return q
}

// Next advances the case counter and reports whether this worker handles the
// case. Enumeration order must not depend on the shard: draw per-case
// randomness from CaseRng, never from a shared stream.
func (c *Ctx) Next() bool {
	idx := c.next
	c.next++
	if c.Only >= 0 {
		if idx != c.Only {
			return false
		}
	} else {
		if idx%int64(c.NShards) != int64(c.Shard) || idx < c.From || idx > c.To {
			return false
		}
	}
	c.cur = idx
	if c.journal != nil {
		var b [8]byte
		binary.LittleEndian.PutUint64(b[:], uint64(idx))
		c.journal.WriteAt(b[:], 0)
	}
	return true
}

// Case returns the index of the case being handled.
func (c *Ctx) Case() int64 { return c.cur }

// Cases returns the number of cases enumerated so far.
func (c *Ctx) Cases() int64 { return c.next }

// Note writes a short description of the call about to be made next to the
// case index in the journal (survives process death).
func (c *Ctx) Note(s string) {
	if c.journal == nil {
		return
	}
	if len(s) > 3000 {
		s = s[:3000]
	}
	b := make([]byte, 4+len(s))
	binary.LittleEndian.PutUint32(b, uint32(len(s)))
	copy(b[4:], s)
	c.journal.WriteAt(b, 8)
}

// Rng returns a deterministic generator for a label (independent of the case).
func (c *Ctx) Rng(label string) *Rand {
	return newRand(c.Seed, c.Prop.ID, label, -1)
}

// CaseRng returns the deterministic generator of the current case.
func (c *Ctx) CaseRng() *Rand {
	return newRand(c.Seed, c.Prop.ID, "case", c.cur)
}

// IdxRng returns a deterministic generator for a label and an index.
func (c *Ctx) IdxRng(label string, idx int64) *Rand {
	return newRand(c.Seed, c.Prop.ID, label, idx)
}

func (c *Ctx) Eval(n int64) { c.evals.Add(n) }

// Distinct records a distinct non-trivial case key.
func (c *Ctx) Distinct(key string) {
	c.mu.Lock()
	if len(c.distinct) < maxDistinctKeys {
		c.distinct[key] = struct{}{}
	}
	c.mu.Unlock()
}

// Distinctf is Distinct with formatting.
func (c *Ctx) Distinctf(f string, a ...any) { c.Distinct(fmt.Sprintf(f, a...)) }

// Class counts an observation class.
func (c *Ctx) Class(name string) { c.ClassN(name, 1) }

func (c *Ctx) ClassN(name string, n int64) {
	c.mu.Lock()
	c.classes[name] += n
	c.mu.Unlock()
}

// Info stores an informational value (never judged).
func (c *Ctx) Info(name string, v any) {
	c.mu.Lock()
	c.info[name] = v
	c.mu.Unlock()
}

// Exhaustive records that a finite sub-domain was enumerated completely.
func (c *Ctx) Exhaustive(what string) {
	c.mu.Lock()
	c.exhaustive[what] = true
	c.mu.Unlock()
}

// Sample keeps up to perKind samples per kind (actual cases, written to the evidence).
func (c *Ctx) Sample(kind string, v any) {
	c.mu.Lock()
	if c.sampleKeys[kind] < 2 && len(c.samples) < 40 {
		c.sampleKeys[kind]++
		c.samples = append(c.samples, map[string]any{"kind": kind, "case": c.cur, "value": v})
	}
	c.mu.Unlock()
}

// Violation records a refutation. key must be stable across runs for the same
// defect (target + failure class + input shape), detail holds the witness.
func (c *Ctx) Violation(key, what string, detail map[string]any) {
	c.mu.Lock()
	defer c.mu.Unlock()
	c.violKeys[key]++
	if c.violKeys[key] > maxViolationsPerKey || len(c.viol) >= maxViolations {
		return
	}
	c.viol = append(c.viol, Violation{Case: c.cur, Key: key, What: what, Detail: detail})
}

func (c *Ctx) Violationf(key string, detail map[string]any, f string, a ...any) {
	c.Violation(key, fmt.Sprintf(f, a...), detail)
}

// ViolationCount and LastViolation let a fuzz test turn recorded violations into test failures.
func (c *Ctx) ViolationCount() int {
	c.mu.Lock()
	defer c.mu.Unlock()
	n := 0
	for _, v := range c.violKeys {
		n += v
	}
	return n
}

func (c *Ctx) LastViolation() string {
	c.mu.Lock()
	defer c.mu.Unlock()
	if len(c.viol) == 0 {
		return ""
	}
	v := c.viol[len(c.viol)-1]
	return v.Key + ": " + v.What
}

func (c *Ctx) result() *Result {
	r := &Result{Evaluations: c.evals.Load(), Classes: c.classes, Info: c.info, Samples: c.samples, Violations: c.viol, Cases: c.next, LastCase: c.cur}
	for k := range c.distinct {
		r.Distinct = append(r.Distinct, k)
	}
	for k := range c.exhaustive {
		r.Exhaustive = append(r.Exhaustive, k)
	}
	sort.Strings(r.Distinct)
	sort.Strings(r.Exhaustive)
	return r
}

// Guard runs f and converts a panic into a returned description.
func Guard(f func()) (panicked bool, val string, where string) {
	defer func() {
		if r := recover(); r != nil {
			panicked = true
			val = fmt.Sprint(r)
			where = topFrame(debug.Stack())
		}
	}()
	f()
	return
}

// topFrame extracts the first pat-go frame below the panic from a stack dump.
func topFrame(stack []byte) string {
	lines := strings.Split(string(stack), "\n")
	seenPanic := false
	first := ""
	for i := 0; i < len(lines)-1; i++ {
		l := lines[i]
		if strings.HasPrefix(l, "panic(") {
			seenPanic = true
			continue
		}
		if !seenPanic {
			continue
		}
		if strings.HasPrefix(l, "\t") || strings.HasPrefix(l, "runtime.") || strings.HasPrefix(l, "runtime/") {
			continue
		}
		fn := l
		if j := strings.LastIndex(fn, "("); j > 0 {
			fn = fn[:j]
		}
		if first == "" {
			first = fn
		}
		if strings.Contains(fn, "cloudflare/pat-go") {
			return fn
		}
	}
	return first
}

// Hex is a short helper for witnesses.
func Hex(b []byte) string {
	if len(b) > 4096 {
		return hex.EncodeToString(b[:4096]) + fmt.Sprintf("...(%d bytes)", len(b))
	}
	return hex.EncodeToString(b)
}

// H returns a short hash of the arguments, for distinct-case keys.
func H(parts ...[]byte) string {
	h := sha256.New()
	for _, p := range parts {
		var l [4]byte
		binary.LittleEndian.PutUint32(l[:], uint32(len(p)))
		h.Write(l[:])
		h.Write(p)
	}
	return hex.EncodeToString(h.Sum(nil)[:8])
}

// Rand is a deterministic generator (ChaCha8 keyed by SHA-256 of the labels).
type Rand struct {
	*rand.Rand
	src *rand.ChaCha8
}

func newRand(seed int64, prop, label string, idx int64) *Rand {
	h := sha256.New()
	fmt.Fprintf(h, "verif|%d|%s|%s|%d", seed, prop, label, idx)
	var key [32]byte
	copy(key[:], h.Sum(nil))
	src := rand.NewChaCha8(key)
	return &Rand{Rand: rand.New(src), src: src}
}

// NewRand makes a generator outside a Ctx.
func NewRand(seed int64, label string) *Rand { return newRand(seed, "-", label, -1) }

// Bytes returns n generator bytes.
func (r *Rand) Bytes(n int) []byte {
	b := make([]byte, n)
	r.src.Read(b)
	return b
}

// Read implements io.Reader (never fails).
func (r *Rand) Read(p []byte) (int, error) { return r.src.Read(p) }

// Of picks one of the ints.
func (r *Rand) Of(vals ...int) int { return vals[r.IntN(len(vals))] }

// Coin is true with probability 1/n.
func (r *Rand) Coin(n int) bool { return r.IntN(n) == 0 }

// MarshalJSON helpers -----------------------------------------------------

func writeJSON(path string, v any) error {
	b, err := json.MarshalIndent(v, "", " ")
	if err != nil {
		return err
	}
	tmp := path + ".tmp"
	if err := os.WriteFile(tmp, b, 0o644); err != nil {
		return err
	}
	return os.Rename(tmp, path)
}

func goVersion() string { return runtime.Version() }
