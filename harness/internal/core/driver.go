package core

import (
	"bufio"
	"encoding/binary"
	"encoding/json"
	"flag"
	"fmt"
	"os"
	"os/exec"
	"os/signal"
	"path/filepath"
	"regexp"
	"runtime"
	"sort"
	"strconv"
	"strings"
	"syscall"
	"time"
)

// VerifDir is where MANIFEST.json, evidence/, replay/ and known_findings.txt live.
func VerifDir() string {
	if d := os.Getenv("VERIF_DIR"); d != "" {
		return d
	}
	return "/verif"
}

// Main is the entry point of the pmon binary.
func Main() {
	if len(os.Args) < 2 {
		fmt.Fprintln(os.Stderr, "usage: pmon run <ID> [--tier quick|thorough] [--replay file] | pmon worker ... | pmon list")
		os.Exit(3)
	}
	switch os.Args[1] {
	case "list":
		for _, id := range IDs() {
			fmt.Println(id)
		}
	case "worker":
		workerMain(os.Args[2:])
	case "run":
		os.Exit(driverMain(os.Args[2:]))
	default:
		fmt.Fprintln(os.Stderr, "unknown subcommand", os.Args[1])
		os.Exit(3)
	}
}

// ---------------------------------------------------------------- worker

func workerMain(args []string) {
	fs := flag.NewFlagSet("worker", flag.ExitOnError)
	id := fs.String("id", "", "")
	tier := fs.String("tier", "quick", "")
	seed := fs.Int64("seed", 1, "")
	shard := fs.Int("shard", 0, "")
	nshards := fs.Int("nshards", 1, "")
	from := fs.Int64("from", 0, "")
	to := fs.Int64("to", 1<<62-1, "")
	only := fs.Int64("only", -1, "")
	out := fs.String("out", "", "")
	journal := fs.String("journal", "", "")
	aslimit := fs.Uint64("aslimit", 0, "")
	fs.Parse(args)
	p := Lookup(*id)
	if p == nil {
		fmt.Fprintln(os.Stderr, "unknown property", *id)
		os.Exit(3)
	}
	if *aslimit > 0 {
		lim := syscall.Rlimit{Cur: *aslimit, Max: *aslimit}
		if err := syscall.Setrlimit(syscall.RLIMIT_AS, &lim); err != nil {
			fmt.Fprintln(os.Stderr, "setrlimit:", err)
		}
	}
	c := NewCtx(p, *tier, *seed, *shard, *nshards)
	c.From, c.To, c.Only = *from, *to, *only
	if *journal != "" {
		f, err := os.OpenFile(*journal, os.O_CREATE|os.O_RDWR, 0o644)
		if err == nil {
			c.journal = f
			var b [12]byte
			binary.LittleEndian.PutUint64(b[:], ^uint64(0))
			f.WriteAt(b[:], 0)
		}
	}
	p.Run(c)
	if err := writeJSON(*out, c.result()); err != nil {
		fmt.Fprintln(os.Stderr, "write result:", err)
		os.Exit(4)
	}
}

// ---------------------------------------------------------------- driver

type shardRun struct {
	shard    int
	from, to int64
	cmd      *exec.Cmd
	out      string
	journal  string
	stderr   string
	lastIdx  uint64
	cpuAtIdx float64
	started  time.Time
	deaths   int
	// blocked-call detection: CPU time at the previous tick, and since when the worker has consumed none while none
	// of its threads was runnable
	cpuPrev      float64
	blockedSince time.Time
	quitSent     bool
	stallQuit    bool
}

// spinningFrame finds, in a goroutine dump, the goroutine that is running (or runnable) and returns the first frame
// from the top of its stack that belongs to pat-go - or "" if a frame of the monitor comes first (the monitor itself is
// the one computing) or no such goroutine is found.
func spinningFrame(dump string) string {
	// a frame line is "<function>(<arguments>)" at the start of a line; pointer receivers are written "pkg.(*T).M"
	reFrame := regexp.MustCompile(`(?m)^((?:[A-Za-z0-9_/\-]+|\.|\(\*[A-Za-z0-9_]+\)|\[[^\]]*\]|·)+)\(`)
	for _, g := range strings.Split(dump, "\n\ngoroutine ") {
		head := firstLines(g, 1)
		if !(strings.Contains(head, "[running") || strings.Contains(head, "[runnable")) {
			continue
		}
		// the innermost pat-go frame on the running goroutine's stack: a call into pat-go that has not returned. Frames of
		// the monitor ABOVE it are callbacks pat-go invoked (a cache, a reader, a wrapped issuer): a loop around such a
		// callback spins inside pat-go, not inside the monitor
		for _, m := range reFrame.FindAllStringSubmatch(g, -1) {
			if fn := m[1]; strings.HasPrefix(fn, "github.com/cloudflare/pat-go/") {
				return fn
			}
		}
	}
	return ""
}

// blockedSeconds: a worker whose current case has consumed no CPU time at all for this long, with every thread
// asleep, is not slow - it is blocked (a starved process on a loaded machine is runnable, not asleep).
const blockedSeconds = 90.0

// allThreadsAsleep reports whether every thread of the process is in interruptible sleep.
func allThreadsAsleep(pid int) bool {
	ents, err := os.ReadDir(fmt.Sprintf("/proc/%d/task", pid))
	if err != nil || len(ents) == 0 {
		return false
	}
	for _, e := range ents {
		b, err := os.ReadFile(fmt.Sprintf("/proc/%d/task/%s/stat", pid, e.Name()))
		if err != nil {
			return false
		}
		t := string(b)
		i := strings.LastIndex(t, ")")
		if i < 0 || i+2 >= len(t) {
			return false
		}
		if st := t[i+2]; st != 'S' {
			return false
		}
	}
	return true
}

// blockedFrame finds, in a goroutine dump, the first pat-go function of a goroutine that is waiting.
var reBlockedFrame = regexp.MustCompile(`(?m)^(github\.com/cloudflare/pat-go/[^\s(]+)`)

func blockedFrame(dump string) string {
	for _, g := range strings.Split(dump, "\n\ngoroutine ") {
		head := firstLines(g, 1)
		if !(strings.Contains(head, "chan ") || strings.Contains(head, "select") || strings.Contains(head, "semacquire") || strings.Contains(head, "sync.") || strings.Contains(head, "Lock") || strings.Contains(head, "Wait")) {
			continue
		}
		if m := reBlockedFrame.FindStringSubmatch(g); m != nil {
			return m[1]
		}
	}
	return ""
}

// stallCPUSeconds: CPU time one case may burn before the watchdog stops the worker (quick tier: 300 s; the
// thorough tier has single cases that legitimately take a minute or two and keeps 600 s).
var stallCPUSeconds = 600.0

func driverMain(args []string) int {
	if len(args) < 1 {
		fmt.Fprintln(os.Stderr, "usage: pmon run <ID> [--tier t] [--replay f]")
		return 3
	}
	id := args[0]
	signal.Ignore(syscall.SIGPIPE)
	fs := flag.NewFlagSet("run", flag.ExitOnError)
	tierF := fs.String("tier", envOr("VERIF_TIER", "quick"), "")
	replay := fs.String("replay", "", "")
	nsh := fs.Int("shards", 0, "")
	fs.Parse(args[1:])
	p := Lookup(id)
	if p == nil {
		fmt.Fprintln(os.Stderr, "unknown property", id)
		return 3
	}
	tier := *tierF
	if tier != "quick" && tier != "thorough" {
		tier = "quick"
	}
	seed := int64(1)
	if s := os.Getenv("VERIF_SEED"); s != "" {
		if v, err := strconv.ParseInt(s, 10, 64); err == nil {
			seed = v
		}
	}
	t0 := time.Now()

	if *replay != "" {
		return replayMain(p, *replay)
	}

	nshards := *nsh
	if nshards <= 0 {
		nshards = runtime.NumCPU()
		if nshards > 16 {
			nshards = 16
		}
	}
	if v := os.Getenv("VERIF_SHARDS"); v != "" {
		if n, err := strconv.Atoi(v); err == nil && n > 0 {
			nshards = n
		}
	}
	scratch := filepath.Join(VerifDir(), ".build", "run", fmt.Sprintf("%s-%d", id, os.Getpid()))
	os.MkdirAll(scratch, 0o755)
	defer os.RemoveAll(scratch)

	merged := &Result{Classes: map[string]int64{}, Info: map[string]any{}}
	distinct := map[string]struct{}{}
	exhaustive := map[string]bool{}
	inconclusive := []string{}

	var pending []*shardRun
	for s := 0; s < nshards; s++ {
		pending = append(pending, &shardRun{shard: s, from: 0, to: 1<<62 - 1})
	}
	running := map[int]*shardRun{} // by pid
	seq := 0
	start := func(sr *shardRun) {
		seq++
		sr.out = filepath.Join(scratch, fmt.Sprintf("out.%d.%d.json", sr.shard, seq))
		sr.journal = filepath.Join(scratch, fmt.Sprintf("journal.%d.%d", sr.shard, seq))
		sr.stderr = filepath.Join(scratch, fmt.Sprintf("stderr.%d.%d", sr.shard, seq))
		wargs := []string{"worker", "-id", id, "-tier", tier, "-seed", fmt.Sprint(seed), "-shard", fmt.Sprint(sr.shard), "-nshards", fmt.Sprint(nshards),
			"-from", fmt.Sprint(sr.from), "-to", fmt.Sprint(sr.to), "-out", sr.out, "-journal", sr.journal}
		if p.HostileBytes && !p.Race {
			wargs = append(wargs, "-aslimit", fmt.Sprint(uint64(6)<<30))
		}
		cmd := exec.Command(os.Args[0], wargs...)
		ef, _ := os.Create(sr.stderr)
		cmd.Stderr = ef
		cmd.Stdout = ef
		cmd.Env = os.Environ()
		if p.Race {
			cmd.Env = append(cmd.Env, "GORACE=halt_on_error=0 exitcode=0 history_size=5 log_path="+filepath.Join(scratch, fmt.Sprintf("race.%d.%d", sr.shard, seq)))
		}
		cmd.Env = append(cmd.Env, "GOTRACEBACK=single", "GOMAXPROCS="+gomaxprocsFor(p, nshards))
		sr.cmd = cmd
		sr.lastIdx = ^uint64(0) - 1
		sr.started = time.Now()
		if err := cmd.Start(); err != nil {
			inconclusive = append(inconclusive, "cannot start worker: "+err.Error())
			return
		}
		ef.Close()
		running[cmd.Process.Pid] = sr
	}

	type exitInfo struct {
		pid int
		err error
	}
	exits := make(chan exitInfo, 64)
	launch := func(sr *shardRun) {
		start(sr)
		if sr.cmd != nil && sr.cmd.Process != nil {
			go func(cmd *exec.Cmd) {
				err := cmd.Wait()
				exits <- exitInfo{cmd.Process.Pid, err}
			}(sr.cmd)
		}
	}
	for _, sr := range pending {
		launch(sr)
	}
	wallLimit := 3 * time.Hour
	stallCPUSeconds = 300.0
	if tier == "thorough" {
		wallLimit = 10 * time.Hour
		stallCPUSeconds = 600.0
	}
	tick := time.NewTicker(2 * time.Second)
	defer tick.Stop()
	for len(running) > 0 {
		select {
		case e := <-exits:
			sr := running[e.pid]
			delete(running, e.pid)
			if sr == nil {
				continue
			}
			if e.err == nil {
				var r Result
				b, err := os.ReadFile(sr.out)
				if err == nil {
					err = json.Unmarshal(b, &r)
				}
				if err != nil {
					inconclusive = append(inconclusive, fmt.Sprintf("shard %d: unreadable result: %v", sr.shard, err))
					continue
				}
				mergeInto(merged, &r, distinct, exhaustive)
				continue
			}
			// The worker died: the journal names the case it was in.
			idx, note := readJournal(sr.journal)
			tail := tailFile(sr.stderr, 60)
			// (the marker line is followed by a goroutine dump that is longer than the tail: the flag decides)
			killedByUs := sr.stallQuit || strings.Contains(tail, "VERIF-WATCHDOG")
			what := "worker process died (" + e.err.Error() + ")"
			if sr.cmd.ProcessState != nil {
				if ws, ok := sr.cmd.ProcessState.Sys().(syscall.WaitStatus); ok && ws.Signaled() {
					what = "worker process killed by signal " + ws.Signal().String()
				}
			}
			class := classifyDeath(tail)
			if sr.stallQuit {
				full, _ := os.ReadFile(sr.stderr)
				dump := string(full)
				if len(dump) > 4<<20 {
					dump = dump[:4<<20]
				}
				if fr := spinningFrame(dump); fr != "" {
					v := Violation{Case: int64(idx), Key: "non-termination:" + fr, What: fmt.Sprintf("a call did not return: the case burned more than %.0f CPU seconds and the running goroutine is inside %s", stallCPUSeconds, fr),
						Detail: map[string]any{"journal_note": note, "running_in": fr, "goroutine_dump_head": firstLines(dump, 60)}}
					merged.Violations = append(merged.Violations, v)
					sr.deaths++
					if sr.deaths <= 2 {
						if int64(idx) > sr.from {
							launch(&shardRun{shard: sr.shard, from: sr.from, to: int64(idx) - 1, deaths: 99})
						}
						if int64(idx) < sr.to {
							launch(&shardRun{shard: sr.shard, from: int64(idx) + 1, to: sr.to, deaths: sr.deaths})
						}
					} else {
						inconclusive = append(inconclusive, fmt.Sprintf("shard %d stalled %d times; rest of its cases not run", sr.shard, sr.deaths))
					}
					continue
				}
				// no pat-go frame on top of the running goroutine: fall through to the old rules (C03: violation, others: inconclusive)
			}
			if sr.quitSent {
				full, _ := os.ReadFile(sr.stderr)
				dump := string(full)
				if len(dump) > 4<<20 {
					dump = dump[:4<<20]
				}
				if fr := blockedFrame(dump); fr != "" {
					v := Violation{Case: int64(idx), Key: "blocked:" + fr, What: fmt.Sprintf("a call did not return: the worker consumed no CPU time for %.0f s with every thread asleep, and a goroutine is waiting inside %s", blockedSeconds, fr),
						Detail: map[string]any{"journal_note": note, "waiting_in": fr, "goroutine_dump_head": firstLines(dump, 60)}}
					merged.Violations = append(merged.Violations, v)
				} else {
					inconclusive = append(inconclusive, fmt.Sprintf("shard %d blocked in case %d with no goroutine waiting inside pat-go (the monitor itself)", sr.shard, idx))
				}
				sr.deaths++
				if sr.deaths > 3 {
					inconclusive = append(inconclusive, fmt.Sprintf("shard %d blocked %d times; rest of its cases not run", sr.shard, sr.deaths))
					continue
				}
				if int64(idx) > sr.from {
					launch(&shardRun{shard: sr.shard, from: sr.from, to: int64(idx) - 1, deaths: 99})
				}
				if int64(idx) < sr.to {
					launch(&shardRun{shard: sr.shard, from: int64(idx) + 1, to: sr.to, deaths: sr.deaths})
				}
				continue
			}
			if idx == ^uint64(0) {
				inconclusive = append(inconclusive, fmt.Sprintf("shard %d died before its first case: %s: %s", sr.shard, what, firstLines(tail, 6)))
				continue
			}
			if class == "unrecovered-panic" && !strings.Contains(tail, "cloudflare/pat-go") {
				// the panicking goroutine never was inside pat-go: a bug of the monitor itself
				inconclusive = append(inconclusive, fmt.Sprintf("shard %d: the monitor itself panicked in case %d: %s", sr.shard, idx, firstLines(tail, 8)))
				continue
			}
			if killedByUs && !p.StallIsViolation {
				inconclusive = append(inconclusive, fmt.Sprintf("shard %d stalled in case %d and was stopped by the watchdog", sr.shard, idx))
			} else {
				v := Violation{Case: int64(idx), Key: "process-death:" + class + ":" + noteKey(note), What: what + ": " + class, Detail: map[string]any{"journal_note": note, "stderr_tail": firstLines(tail, 25)}}
				merged.Violations = append(merged.Violations, v)
			}
			sr.deaths++
			if sr.deaths > 6 {
				inconclusive = append(inconclusive, fmt.Sprintf("shard %d died %d times; rest of its cases not run", sr.shard, sr.deaths))
				continue
			}
			// Re-run the part before the fatal case (its results were lost) and the part after it.
			if int64(idx) > sr.from {
				launch(&shardRun{shard: sr.shard, from: sr.from, to: int64(idx) - 1, deaths: 99})
			}
			if int64(idx) < sr.to {
				launch(&shardRun{shard: sr.shard, from: int64(idx) + 1, to: sr.to, deaths: sr.deaths})
			}
		case <-tick.C:
			if time.Since(t0) > wallLimit {
				for _, sr := range running {
					sr.cmd.Process.Kill()
				}
				inconclusive = append(inconclusive, "wall-clock watchdog fired")
				// drain
				for len(running) > 0 {
					e := <-exits
					delete(running, e.pid)
				}
				break
			}
			for pid, sr := range running {
				idx, _ := readJournal(sr.journal)
				cpu := procCPUSeconds(pid)
				if idx != sr.lastIdx {
					sr.lastIdx = idx
					sr.cpuAtIdx = cpu
					sr.cpuPrev = cpu
					sr.blockedSince = time.Time{}
					continue
				}
				if cpu-sr.cpuPrev < 0.02 && idx != ^uint64(0) && allThreadsAsleep(pid) {
					if sr.blockedSince.IsZero() {
						sr.blockedSince = time.Now()
					} else if !sr.quitSent && time.Since(sr.blockedSince).Seconds() > blockedSeconds {
						if f, err := os.OpenFile(sr.stderr, os.O_APPEND|os.O_WRONLY, 0o644); err == nil {
							fmt.Fprintf(f, "\nVERIF-WATCHDOG-BLOCKED: no CPU time consumed and no runnable thread for %.0f s; goroutine dump follows\n", blockedSeconds)
							f.Close()
						}
						sr.quitSent = true
						sr.cmd.Process.Signal(syscall.SIGQUIT)
					}
				} else {
					sr.blockedSince = time.Time{}
				}
				sr.cpuPrev = cpu
				if cpu-sr.cpuAtIdx > stallCPUSeconds {
					f, err := os.OpenFile(sr.stderr, os.O_APPEND|os.O_WRONLY, 0o644)
					if err == nil {
						fmt.Fprintf(f, "\nVERIF-WATCHDOG: no case finished in %.0f CPU seconds\n", cpu-sr.cpuAtIdx)
						f.Close()
					}
					if p.StallIsViolation {
						f, err := os.OpenFile(sr.stderr, os.O_APPEND|os.O_WRONLY, 0o644)
						if err == nil {
							fmt.Fprintf(f, "fatal error: call did not return (CPU-time bound exceeded)\n")
							f.Close()
						}
					}
					sr.stallQuit = true
					sr.cmd.Process.Signal(syscall.SIGQUIT)
					go func(p *os.Process) { time.Sleep(20 * time.Second); p.Kill() }(sr.cmd.Process)
				}
			}
		}
	}

	// coverage-guided stage
	if p.FuzzTarget != "" {
		runFuzzStage(p, tier, merged, &inconclusive)
	}

	// race detector reports
	if p.Race {
		races := collectRaceReports(scratch)
		merged.Classes["race_report_blocks"] += int64(races.blocks)
		for _, rv := range races.violations {
			merged.Violations = append(merged.Violations, rv)
		}
	}

	for k := range distinct {
		merged.Distinct = append(merged.Distinct, k)
	}
	sort.Strings(merged.Distinct)

	// floors
	for _, f := range p.Floors {
		if merged.Classes[f] == 0 {
			inconclusive = append(inconclusive, "observation class never seen: "+f)
		}
	}
	for _, f := range p.SelfCheck {
		if merged.Classes[f] != 0 {
			inconclusive = append(inconclusive, "reference self-check failed: "+f)
		}
	}
	if merged.Evaluations == 0 {
		inconclusive = append(inconclusive, "no evaluations")
	}

	// known findings
	known := loadKnownFindings(id)
	var fresh []Violation
	knownSeen := map[string]bool{}
	sort.SliceStable(merged.Violations, func(i, j int) bool { return merged.Violations[i].Case < merged.Violations[j].Case })
	for _, v := range merged.Violations {
		if desc, ok := known[v.Key]; ok {
			if !knownSeen[v.Key] {
				fmt.Printf("KNOWN-FINDING: property=%s key=%s %s\n", id, v.Key, desc)
				knownSeen[v.Key] = true
			}
			continue
		}
		fresh = append(fresh, v)
	}

	// evidence first (a closed stdout must not lose it)
	wall := time.Since(t0).Seconds()
	writeEvidence(p, tier, seed, merged, exhaustive, len(fresh), len(knownSeen), inconclusive, wall, nshards)

	// replay files + VIOLATION lines
	os.MkdirAll(filepath.Join(VerifDir(), "replay"), 0o755)
	printed := map[string]bool{}
	n := 0
	for _, v := range fresh {
		if printed[v.Key] {
			continue
		}
		printed[v.Key] = true
		n++
		if n > 25 {
			continue
		}
		path := filepath.Join(VerifDir(), "replay", fmt.Sprintf("%s-%s.json", id, H([]byte(v.Key))))
		writeJSON(path, map[string]any{"property_id": id, "tier": tier, "seed": seed, "case": v.Case, "key": v.Key, "what": v.What, "detail": v.Detail,
			"replay": fmt.Sprintf("./check %s --replay %s", id, path)})
		fmt.Printf("VIOLATION property=%s replay=%s\n", id, path)
		fmt.Printf("  case=%d key=%s\n  %s\n", v.Case, v.Key, v.What)
	}
	if n > 25 {
		fmt.Printf("  (%d further distinct violation keys not listed)\n", n-25)
	}

	fmt.Printf("%s tier=%s seed=%d evaluations=%d distinct_nontrivial=%d violations=%d known=%d wall=%.1fs\n", id, tier, seed, merged.Evaluations, len(merged.Distinct), len(fresh), len(knownSeen), wall)
	keys := make([]string, 0, len(merged.Classes))
	for k := range merged.Classes {
		keys = append(keys, k)
	}
	sort.Strings(keys)
	for _, k := range keys {
		fmt.Printf("  observed %-48s %d\n", k, merged.Classes[k])
	}
	if len(fresh) > 0 {
		return 1
	}
	if len(inconclusive) > 0 {
		for _, s := range inconclusive {
			fmt.Printf("INCONCLUSIVE property=%s reason=%s\n", id, s)
		}
		return 2
	}
	return 0
}

func gomaxprocsFor(p *Prop, nshards int) string {
	if p.Race {
		n := runtime.NumCPU() / nshards
		if n < 4 {
			n = 4
		}
		return fmt.Sprint(n)
	}
	return "2"
}

func envOr(k, d string) string {
	if v := os.Getenv(k); v != "" {
		return v
	}
	return d
}

func mergeInto(m *Result, r *Result, distinct map[string]struct{}, exhaustive map[string]bool) {
	m.Evaluations += r.Evaluations
	if r.Cases > m.Cases {
		m.Cases = r.Cases
	}
	for _, k := range r.Distinct {
		distinct[k] = struct{}{}
	}
	for k, v := range r.Classes {
		m.Classes[k] += v
	}
	for k, v := range r.Info {
		if _, ok := m.Info[k]; !ok {
			m.Info[k] = v
		}
	}
	for _, s := range r.Samples {
		if len(m.Samples) < 24 {
			m.Samples = append(m.Samples, s)
		}
	}
	m.Violations = append(m.Violations, r.Violations...)
	for _, e := range r.Exhaustive {
		exhaustive[e] = true
	}
}

func readJournal(path string) (uint64, string) {
	b, err := os.ReadFile(path)
	if err != nil || len(b) < 8 {
		return ^uint64(0), ""
	}
	idx := binary.LittleEndian.Uint64(b[:8])
	note := ""
	if len(b) >= 12 {
		l := int(binary.LittleEndian.Uint32(b[8:12]))
		if l > 0 && 12+l <= len(b) {
			note = string(b[12 : 12+l])
		}
	}
	return idx, note
}

func noteKey(note string) string {
	// the stable part of a note is its first token (target name)
	f := strings.Fields(note)
	if len(f) == 0 {
		return "-"
	}
	return f[0]
}

func tailFile(path string, n int) string {
	b, err := os.ReadFile(path)
	if err != nil {
		return ""
	}
	lines := strings.Split(string(b), "\n")
	// keep the head (fatal error line) and the tail
	if len(lines) > 2*n {
		lines = append(lines[:n], lines[len(lines)-n:]...)
	}
	return strings.Join(lines, "\n")
}

func firstLines(s string, n int) string {
	l := strings.Split(s, "\n")
	if len(l) > n {
		l = l[:n]
	}
	return strings.Join(l, "\n")
}

func classifyDeath(tail string) string {
	switch {
	case strings.Contains(tail, "call did not return"):
		return "non-termination"
	case strings.Contains(tail, "out of memory") || strings.Contains(tail, "cannot allocate memory") || strings.Contains(tail, "cannot reserve"):
		return "out-of-memory"
	case strings.Contains(tail, "stack overflow") || strings.Contains(tail, "goroutine stack exceeds"):
		return "stack-overflow"
	case strings.Contains(tail, "concurrent map"):
		return "concurrent-map-access"
	case strings.Contains(tail, "checkptr"):
		return "checkptr"
	case strings.Contains(tail, "fatal error:"):
		i := strings.Index(tail, "fatal error:")
		l := tail[i:]
		if j := strings.Index(l, "\n"); j > 0 {
			l = l[:j]
		}
		return strings.ReplaceAll(strings.TrimSpace(l), " ", "-")
	case strings.Contains(tail, "panic:"):
		return "unrecovered-panic"
	}
	return "died"
}

func procCPUSeconds(pid int) float64 {
	b, err := os.ReadFile(fmt.Sprintf("/proc/%d/stat", pid))
	if err != nil {
		return 0
	}
	s := string(b)
	i := strings.LastIndex(s, ")")
	if i < 0 {
		return 0
	}
	f := strings.Fields(s[i+1:])
	if len(f) < 14 {
		return 0
	}
	ut, _ := strconv.ParseFloat(f[11], 64)
	st, _ := strconv.ParseFloat(f[12], 64)
	return (ut + st) / 100.0
}

// ---------------------------------------------------------------- known findings

func loadKnownFindings(id string) map[string]string {
	out := map[string]string{}
	f, err := os.Open(filepath.Join(VerifDir(), "known_findings.txt"))
	if err != nil {
		return out
	}
	defer f.Close()
	sc := bufio.NewScanner(f)
	re := regexp.MustCompile(`^known:\s+property=(\S+)\s+key=(\S+)\s*(.*)$`)
	for sc.Scan() {
		m := re.FindStringSubmatch(strings.TrimSpace(sc.Text()))
		if m != nil && m[1] == id {
			out[m[2]] = m[3]
		}
	}
	return out
}

// ---------------------------------------------------------------- evidence

func writeEvidence(p *Prop, tier string, seed int64, m *Result, exhaustive map[string]bool, nviol, nknown int, inconclusive []string, wall float64, nshards int) {
	cov := map[string]any{
		"evaluations":         m.Evaluations,
		"distinct_nontrivial": len(m.Distinct),
		"rule":                p.Rule,
		"samples":             m.Samples,
		"observed_classes":    m.Classes,
		"cases_enumerated":    m.Cases,
		"worker_processes":    nshards,
		"go_version":          goVersion(),
	}
	if len(m.Samples) == 0 {
		cov["samples"] = []any{}
	}
	if len(exhaustive) > 0 {
		var ex []string
		for k := range exhaustive {
			ex = append(ex, k)
		}
		sort.Strings(ex)
		cov["exhaustive_subdomains"] = ex
		cov["exhaustive"] = false
	}
	if len(m.Info) > 0 {
		cov["info"] = m.Info
	}
	if len(inconclusive) > 0 {
		cov["inconclusive"] = inconclusive
	}
	if nknown > 0 {
		cov["known_findings_seen"] = nknown
	}
	ev := map[string]any{
		"property_id": p.ID,
		"tier":        tier,
		"seed":        seed,
		"level":       p.Level,
		"coverage":    cov,
		"assumptions": p.Assumptions,
		"wall_s":      wall,
		"violations":  nviol,
	}
	os.MkdirAll(filepath.Join(VerifDir(), "evidence"), 0o755)
	if err := writeJSON(filepath.Join(VerifDir(), "evidence", p.ID+".json"), ev); err != nil {
		fmt.Fprintln(os.Stderr, "evidence:", err)
	}
}

// ---------------------------------------------------------------- replay

func replayMain(p *Prop, path string) int {
	b, err := os.ReadFile(path)
	if err != nil {
		fmt.Fprintln(os.Stderr, err)
		return 3
	}
	var rf struct {
		Tier string `json:"tier"`
		Seed int64  `json:"seed"`
		Case int64  `json:"case"`
		Key  string `json:"key"`
	}
	if err := json.Unmarshal(b, &rf); err != nil {
		fmt.Fprintln(os.Stderr, err)
		return 3
	}
	c := NewCtx(p, rf.Tier, rf.Seed, 0, 1)
	c.Only = rf.Case
	p.Run(c)
	r := c.result()
	fmt.Printf("replayed %s case %d (tier=%s seed=%d): %d evaluations, %d violations\n", p.ID, rf.Case, rf.Tier, rf.Seed, r.Evaluations, len(r.Violations))
	for _, v := range r.Violations {
		fmt.Printf("VIOLATION property=%s replay=%s\n  key=%s\n  %s\n", p.ID, path, v.Key, v.What)
		d, _ := json.MarshalIndent(v.Detail, "  ", " ")
		fmt.Printf("  %s\n", d)
	}
	if len(r.Violations) > 0 {
		return 1
	}
	return 0
}

// ---------------------------------------------------------------- race reports

type raceSummary struct {
	blocks     int
	violations []Violation
}

var reFrame = regexp.MustCompile(`^\s+(\S+)\(`)

func collectRaceReports(dir string) raceSummary {
	var rs raceSummary
	files, _ := filepath.Glob(filepath.Join(dir, "race.*"))
	seen := map[string]bool{}
	for _, f := range files {
		b, err := os.ReadFile(f)
		if err != nil {
			continue
		}
		blocks := strings.Split(string(b), "==================")
		for _, blk := range blocks {
			if !strings.Contains(blk, "WARNING: DATA RACE") {
				continue
			}
			rs.blocks++
			// split into the two access stacks
			parts := regexp.MustCompile(`(?m)^(Write at|Read at|Previous write at|Previous read at|Goroutine \d+).*$`).Split(blk, -1)
			var tops []string
			for i, part := range parts {
				if i == 0 || i > 2 {
					continue
				}
				tops = append(tops, outermostRepoFrame(part))
			}
			sort.Strings(tops)
			key := "race:" + strings.Join(tops, "|")
			if seen[key] {
				continue
			}
			seen[key] = true
			rs.violations = append(rs.violations, Violation{Case: -1, Key: key, What: "data race reported by the Go race detector", Detail: map[string]any{"report": firstLines(strings.TrimSpace(blk), 60)}})
		}
	}
	return rs
}

// outermostRepoFrame returns the outermost pat-go function in one stack
// (the entry point through which the racing access was reached), with line
// numbers stripped.
func outermostRepoFrame(stack string) string {
	last := ""
	inner := ""
	for _, l := range strings.Split(stack, "\n") {
		m := reFrame.FindStringSubmatch(l)
		if m == nil {
			continue
		}
		fn := m[1]
		if inner == "" {
			inner = fn
		}
		if strings.Contains(fn, "cloudflare/pat-go") {
			last = fn
		}
	}
	if last == "" {
		return inner
	}
	return last
}

// ---------------------------------------------------------------- native fuzzing stage

var reExecs = regexp.MustCompile(`execs: (\d+)`)
var reInteresting = regexp.MustCompile(`new interesting: (\d+) \(total: (\d+)\)`)

func runFuzzStage(p *Prop, tier string, merged *Result, inconclusive *[]string) {
	n := p.FuzzExecsQuick
	if tier == "thorough" {
		n = p.FuzzExecsThorough
	}
	hdir := os.Getenv("VERIF_HARNESS")
	if n <= 0 || hdir == "" {
		merged.Classes["fuzz_stage_skipped"]++
		return
	}
	args := []string{"test", "-tags", "verif", "-gcflags=all=-d=checkptr", "-run", "^$", "-fuzz", "^" + p.FuzzTarget + "$", "-fuzztime", fmt.Sprintf("%dx", n)}
	if mf := os.Getenv("VERIF_MODFILE"); mf != "" {
		args = append(args, "-modfile="+mf)
	}
	args = append(args, "./props")
	cmd := exec.Command("go", args...)
	cmd.Dir = hdir
	cmd.Env = append(os.Environ(), "GOFLAGS=-mod=mod", "GOPROXY=off", "GOSUMDB=off", "GOTOOLCHAIN=local")
	out, err := cmd.CombinedOutput()
	text := string(out)
	if m := reExecs.FindAllStringSubmatch(text, -1); len(m) > 0 {
		v, _ := strconv.ParseInt(m[len(m)-1][1], 10, 64)
		merged.Classes["fuzz_executions"] += v
		merged.Evaluations += v
	}
	if m := reInteresting.FindAllStringSubmatch(text, -1); len(m) > 0 {
		v, _ := strconv.ParseInt(m[len(m)-1][2], 10, 64)
		merged.Classes["fuzz_corpus_entries_with_new_coverage"] += v
	}
	// failing inputs are written next to the package: move them to the replay directory
	cdir := filepath.Join(hdir, "props", "testdata", "fuzz", p.FuzzTarget)
	files, _ := filepath.Glob(filepath.Join(cdir, "*"))
	var moved []string
	for _, f := range files {
		dst := filepath.Join(VerifDir(), "replay", p.ID+"-fuzz-"+filepath.Base(f))
		os.MkdirAll(filepath.Dir(dst), 0o755)
		if b, e := os.ReadFile(f); e == nil {
			os.WriteFile(dst, b, 0o644)
			moved = append(moved, dst)
		}
		os.Remove(f)
	}
	if err == nil {
		return
	}
	if !strings.Contains(text, "--- FAIL") {
		*inconclusive = append(*inconclusive, "fuzz stage could not run: "+firstLines(strings.TrimSpace(text), 6))
		return
	}
	where := ""
	if m := regexp.MustCompile(`(github\.com/cloudflare/pat-go/[^\s(]+(?:\([^)]*\))?[^\s(]*)\(`).FindStringSubmatch(text); m != nil {
		where = m[1]
	}
	msg := ""
	for _, l := range strings.Split(text, "\n") {
		t := strings.TrimSpace(l)
		if strings.HasPrefix(t, "panic:") || strings.Contains(t, "allocated") || strings.Contains(t, "fatal error") || strings.Contains(t, "terminated unexpectedly") {
			msg = t
			break
		}
	}
	if m := regexp.MustCompile(`fuzz_test\.go:\d+: (.*)`).FindStringSubmatch(text); m != nil {
		msg = strings.TrimSpace(m[1])
		if where == "" {
			// the oracle's own message names the violation class: "<stage>: <key>: <text>"
			parts := strings.SplitN(msg, ": ", 3)
			if len(parts) >= 2 {
				where = parts[1]
			} else {
				where = parts[0]
			}
			if len(where) > 80 {
				where = where[:80]
			}
		}
	}
	merged.Violations = append(merged.Violations, Violation{Case: -1, Key: "fuzz:" + where, What: "coverage-guided stage: " + msg,
		Detail: map[string]any{"failing_inputs": moved, "output": firstLines(text[max(0, len(text)-6000):], 80), "how_to_replay": "copy the failing input to harness/props/testdata/fuzz/" + p.FuzzTarget + "/ and run go test -tags verif -run " + p.FuzzTarget + " ./props"}})
}
