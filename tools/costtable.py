#!/usr/bin/env python3
"""Prints the DESIGN §5 cost table from the one-line summaries of a quick and a thorough sweep
(tools/sweep.sh leaves them in /tmp/sweep-<Cxx>-<tier>-<seed>.out): python3 tools/costtable.py [seed]."""
import re, sys, json
seed = sys.argv[1] if len(sys.argv) > 1 else "1"
levels = {c["property_id"]: c["level"] for c in json.load(open("/verif/MANIFEST.json"))["checks"]} if False else {}
try:
    man = json.load(open("/verif/MANIFEST.json"))
    for c in man.get("checks", man.get("properties", [])):
        levels[c.get("property_id") or c.get("id")] = (c.get("level_claimed") or {}).get("category", "")
except Exception:
    pass
def line(p, tier):
    try:
        for l in open(f"/tmp/sweep-{p}-{tier}-{seed}.out"):
            m = re.match(rf"^{p} tier={tier} seed=\d+ evaluations=(\d+) distinct_nontrivial=(\d+) violations=(\d+) known=\d+ wall=([\d.]+)s", l)
            if m:
                ev, dn, v, w = int(m[1]), int(m[2]), int(m[3]), float(m[4])
                return f"{ev:,} evaluations ({dn:,} distinct)".replace(",", " ") + f", {w:.0f} s"
    except OSError:
        pass
    return "n/a"
print("| prop | level | quick | thorough |\n|---|---|---|---|")
for i in range(1, 21):
    p = f"C{i:02d}"
    print(f"| {p} | {levels.get(p,'')} | {line(p,'quick')} | {line(p,'thorough')} |")
