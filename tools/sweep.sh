#!/bin/bash
# tools/sweep.sh <tier> [seeds...]  — runs every check at the given tier and seeds, prints one line each.
cd "$(dirname "$0")/.."
tier="${1:-quick}"; shift
seeds="${*:-1}"
for seed in $seeds; do
  for i in $(seq -w 1 20); do
    p=C$i
    s=$(date +%s.%N)
    VERIF_SEED=$seed ./check $p $tier > /tmp/sweep-$p-$tier-$seed.out 2>&1
    rc=$?
    e=$(date +%s.%N)
    printf "seed=%s %s rc=%d %.1fs %s\n" $seed $p $rc $(echo "$e - $s" | bc) "$(grep -E "^$p tier" /tmp/sweep-$p-$tier-$seed.out | cut -c1-110)"
    [ $rc -ne 0 ] && grep -E "VIOLATION|INCONCLUSIVE|key=" /tmp/sweep-$p-$tier-$seed.out | head -6
  done
done
