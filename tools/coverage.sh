#!/bin/bash
# tools/coverage.sh [tier]  — statement coverage of pat-go reached by the monitors' workloads.
# Builds the monitor binary with Go's coverage instrumentation for every pat-go package (go build -cover
# -coverpkg), runs all checks except the race-detector one, merges the counters of all worker processes and prints
# per-package percentages and every pat-go function that is not fully covered. Writes tools/coverage-<tier>.txt.
# Runtime monitoring says nothing about code the workload never drives: this is the list of that code.
set -u
cd "$(dirname "$0")/.."
VERIF=$(pwd)
tier="${1:-quick}"
export GOFLAGS=-mod=mod GOPROXY=off GOSUMDB=off GOTOOLCHAIN=local
tmp=$(mktemp -d /tmp/patgo-cov.XXXXXX)
trap 'rm -rf "$tmp"' EXIT
mkdir -p "$tmp/data" "$tmp/verif"
ln -s "$VERIF/fixtures" "$tmp/verif/fixtures"; cp "$VERIF/known_findings.txt" "$tmp/verif/"
(cd harness && go build -tags verif -cover -coverpkg=./...,github.com/cloudflare/pat-go/... -o "$tmp/pmon-cov" ./cmd/pmon) || exit 2
for i in $(seq -w 1 20); do
  id=C$i; [ $id = C17 ] && continue
  GOCOVERDIR="$tmp/data" VERIF_DIR="$tmp/verif" VERIF_HARNESS="$VERIF/harness" "$tmp/pmon-cov" run $id --tier "$tier" 2>&1 | head -1 | cut -c1-100
done
out="tools/coverage-$tier.txt"
{
  echo "# statement coverage of pat-go under the $tier workloads of C01..C20 (without C17), $(cd /repo && git rev-parse --short HEAD)"
  (cd harness && go tool covdata percent -i="$tmp/data" | grep pat-go | sed 's#github.com/cloudflare/pat-go/##')
  echo
  echo "# functions not fully covered"
  (cd harness && go tool covdata textfmt -i="$tmp/data" -o "$tmp/cov.txt" && go tool cover -func="$tmp/cov.txt" | grep pat-go | awk '$3+0 < 100' | sed 's#github.com/cloudflare/pat-go/##' | sort -k3 -n)
} > "$out"
cat "$out" | head -20
