#!/usr/bin/env python3
"""Regenerates /verif/MANIFEST.json from the table below (python3 tools/mkmanifest.py)."""
import json, subprocess, os

ENV = "GOFLAGS=-mod=mod GOPROXY=off GOSUMDB=off GOTOOLCHAIN=local"

CHECKS = {
 "C01": ("exploration", "honest issuance of types 1,2,3,5 with every message crossing the wire as bytes (also into long-lived issuer-side request objects), over keys x challenge lengths (0..65535) x nonces x batch sizes x origin-name lengths x fixed/random blinds; plus long-lived sessions (one client, issuer, request object and receive buffer for 10-16 related runs, argument buffers refilled in place), honest batches / consecutive runs whose blinded elements agree in 32 leading or trailing bits (fixture) or are equal, and type-3 responses re-encrypted for every / many values of the first two bytes of the random response nonce, type-5 batch sizes for every value of the first byte of the list length prefix, entropy faults (permanent, and transient at the k-th read) during the first use of fresh issuers and clients followed by honest runs on the same objects; validity decided by circl FullEvaluate / crypto/rsa.VerifyPSS and a byte-exact token layout assembled by the harness",
         "trusted: circl oprf/blindrsa, go-hpke, crypto/rsa; client-internal randomness covered by repetition and the WithBlind entry points",
         "runtime monitoring: independent-verifier oracle over generated honest executions"),
 "C02": ("exploration", "FinalizeToken(s) on honest, corrupted and foreign responses: every single-bit flip of each honest response (exhaustive), full state x response cross-pairing, type-5 drops/duplications/swaps/extra elements/foreign proofs (also as honest evaluations with valid proofs, by a malicious key holder, of shortened/permuted/duplicated/extended request lists, and with an undecodable element plus a proof forged with the verifier's own arithmetic), type-3 responses that decrypt but carry a wrong blind signature, requests created with nonces / key ids of other lengths than 32, interleaved lifecycles of up to 4 outstanding requests, odd salt lengths, one client object reused across keys with colliding truncated ids; universal oracle (nil error => token valid under the request's key and bound to the request) plus the rejection list of the statement",
         "trusted: circl, crypto/rsa; per-class counters (decode / proof / count / AEAD / RSA) must all be observed",
         "runtime monitoring: universal post-condition oracle + must-reject corpus (exhaustive bit flips)"),
 "C03": ("exploration", "every byte-consuming entry point under structure-aware hostile inputs (truncations, extensions, every length/count field and varint form up to 2^62-1, type tags, splices, well-framed hostile content, HPKE-sealed hostile inner requests, correctly encrypted type-3 responses with hostile plaintext (every short length, over-long, >= N), hostile key/scalar arguments); inputs malformed by construction must be refused, several hundred refusals in a row and every hostile family are followed by the honest input, which must still be served; DER elements nested 12 / 24 million deep for the DER decoders; each call journalled before it is made, run in child processes under RLIMIT_AS with a CPU-time stall watchdog, a blocked-call detector (no CPU time and no runnable thread for 90 s: goroutine dump, violation if a goroutine waits inside pat-go) and two allocation bounds measured exactly (global, and per target against the target's own honest cost; decode-only targets and batches of 600..2047 valid elements make super-linear work visible); followed by a coverage-guided stage (Go native fuzzing over the same entry points and oracle, 40 000 / 4 000 000 executions)",
         "trusted: Go runtime metrics (/gc/heap/allocs:bytes); struct-level hostility limited to shapes the wire decoders can produce",
         "runtime monitoring: crash/allocation/termination monitor with journalled child-process workers + coverage-guided fuzzing stage"),
 "C04": ("exploration", "value round trips, accepted-bytes oracle (canonical re-encoding no longer, same value, equals Marshal also on reused objects) and type separation (every 16-bit tag x body x decoder, exhaustive) against the harness's own encoders/parsers; decode-again after the caller edited the first result, receive buffers refilled in place, the same object decoding its refilled buffer and a retransmission after the buffer was reused, values whose last bytes are line ends / blanks / NULs; Rust interop vectors as independent encodings; followed by a coverage-guided stage (Go native fuzzing: arbitrary bytes to every decoder, accepted-bytes oracle on every acceptance, 40 000 / 4 000 000 executions)",
         "trusted: the reference encoders in props/c04.go and props/t3wire.go (written from the TLS-presentation structs)",
         "runtime monitoring: reference-codec differential oracle + coverage-guided fuzzing stage"),
 "C05": ("exploration", "generic batch issuance over the wire: every request-kind sequence of length 1..3/1..4 over 8 kinds under 5 issuer configurations (two with an always-refusing issuer sharing type and truncated key id) under 8 issuer configurations (also none, the same issuer twice, issuers that return bytes with their error), plus every unserved truncated key id, seeded long and large (63..128) batches, over the wire and handed over in memory, one batch in four carrying a request twice, judged by an executable model (present iff a configured issuer of that type and truncated key id evaluates the request itself), per-entry finalization under its own state and an isolation re-run",
         "trusted: circl, crypto/rsa; truncated-key-id collisions excluded by construction",
         "runtime monitoring: executable-model oracle over enumerated batch compositions"),
 "C06": ("exploration", "attester VerifyRequest on honest requests (pat-go client and harness-built), exhaustive single-bit flips of every field, forged/foreign/degenerate signatures, tampering after Marshal on decoded objects and after the original was accepted by the same attester, wrong/shifted blinds, malformed keys, each case also presented to one long-lived attester with all arguments in buffers refilled in place, an attester whose cache keeps nothing, request structures with a field beyond the 16-bit limit (never accepted); accept iff crypto/ecdsa.Verify and reference key blinding agree; recording cache + state snapshots show a rejected request changes nothing",
         "trusted: crypto/ecdsa, crypto/elliptic, the reference hash_to_field (internal/ref); verif-tagged VerifSnapshot hook",
         "runtime monitoring: independent accept/reject oracle + state-snapshot invariant at the cache hook"),
 "C07": ("exploration", "issuer Evaluate(bytes) on requests built by pat-go's client and entirely by the harness (own encoder, HPKE sealing, key-blinded signer): honest ones must be served and finalize to a valid token; exhaustive bit flips, truncations, missing signature, near-miss origins, foreign name keys, re-signing, request-key swap (AAD binding), AAD variants, truncated inner requests, and origins whose registration failed under an injected entropy fault must be refused with no response; every one- and two-byte tail; honest requests whose signature is constructed (nonce search) to end in CR LF / LF / NUL / blank must be served; asking the accessors about an unregistered name registers nothing; one receive buffer refilled in place and scribbled over after each call",
         "acceptance is fixed by construction (the HPKE private key is not observable); trusted: go-hpke, circl blindrsa, crypto/ecdsa",
         "runtime monitoring: must-serve / must-reject corpus built by an independent request constructor"),
 "C08": ("exploration", "full rate-limited flows for 4 clients x 4 origins (two sharing an index key) x repeated requests with edge blinds, on fresh and on long-lived attesters, with retained IDs re-checked, an adversarial negated-key twin, index keys replaced on a long-lived issuer and one key object shared by two origins; every index equals the reference HKDF-SHA-384 over the reference-blinded client key, Evaluate's second value equals the reference-blinded request key, distinct pairs differ, shared keys coincide",
         "trusted: crypto/elliptic, crypto/hmac, SHA-2; reference XMD/HKDF in internal/ref",
         "runtime monitoring: reference-model oracle over repeated protocol runs"),
 "C09": ("exploration", "every attester call history of length <= 4 / <= 5 over 14 operations (2 clients x 2 issuer IDs x 2 anonymous IDs; honest, bad-signature and foreign-request verify), every history of length <= 5 / <= 6 over 7 operations including finalization under never-verified client key bytes (uncompressed encoding of a verified client's point), the same with all client keys in one buffer refilled in place, long anonymous ids and their digests as other ids, one 1100/4200-binding history of one client, every history of length 4 / 5 of a client whose anonymous ids are the bytes (and the hex spelling) of its own issuer ids, plus seeded 200-step histories, replayed against an executable model with the binding map compared after every step through the snapshot hook",
         "histories are sequential; verif-tagged VerifSnapshot hook",
         "runtime monitoring: online trace checker against an executable model (exhaustive short histories)"),
 "C10": ("exploration", "issuer Verify of types 1 and 5 on honest tokens, exhaustive single-bit flips of every field, truncated/extended authenticators, every token against every other key and type, recomputed authenticators for changed types and shifted field boundaries, hostile field lengths, authenticators from related derivations under the same key (base OPRF mode, POPRF, input prefixes), all tokens read out of four buffers refilled in place, completed runs after the caller reused its key object; accept iff authenticator == circl FullEvaluate over the fields as carried",
         "trusted: circl FullEvaluate",
         "runtime monitoring: independent-recomputation oracle (exhaustive bit flips)"),
 "C11": ("exploration", "fixed-blind issuance of types 1, 2, 5 over keys x inputs x blind sets (edge and seeded): request purity with copied arguments, token bytes independent of the blind and equal to the reference evaluation, invalid RSA blinds are errors; Rust interop vectors reproduced byte for byte (request slice, own token, finalization of the Rust response)",
         "trusted: the Rust vectors shipped in the repository, circl, crypto/rsa",
         "runtime monitoring: determinism/independence oracle + interop-vector differential"),
 "C12": ("exploration", "ECDSA key blinding on P-224/256/384/521 over signing keys x blind keys (1, 2, N-1, N+1, 2N+5, all-ones, leading-zero, seeded) x contexts x digest lengths: blinded key equals the reference hash_to_field multiple, unblind inverts, blinding commutes, signatures verify under the blinded key with both verifiers and not under the original, blind and context separation; histories of 14 consecutive calls over related (blind, context) pairs (boundary shifted by one byte, repeats, one bit changed) with context buffer and key object updated in place; blind-key objects made for another curve; protocol strings as contexts",
         "trusted: crypto/elliptic, crypto/ecdsa; reference XMD in internal/ref; blind key = integer D (minimal big-endian)",
         "runtime monitoring: reference-model and algebraic-law oracle"),
 "C13": ("fault_enumeration", "differential against crypto/ecdsa over (r,s) class products, constructed wrapped-r signatures, digest lengths and DER corruptions (exhaustive bit flips/truncations of a valid DER per curve, seeded strings); the same signature in other encodings (raw r||s, P1363, hex, wrapped); constructed quadruples (equal and opposite summands in the verification equation, public keys with a zero coordinate, generator multiples); 220 000 / 4 000 000 signatures through the ASN.1-producing entry points; entropy content all-0xff / all-zero before the fault; histories of consecutive Verify/VerifyASN1 calls over a key, its negation and neighbours on one key object, one (r, s) pair and one set of buffers updated in place; producer cross-verification; GenerateKey and all signing entry points under a scripted entropy reader failing permanently at every position 0..need+1 in four chunkings",
         "trusted: crypto/ecdsa of the building toolchain; failing reads deliver no bytes and failures are permanent",
         "runtime monitoring: differential oracle + exhaustive entropy-fault enumeration"),
 "C14": ("fault_enumeration", "byte-for-byte differential against crypto/ed25519 for keys and signatures, verdict differential on small-order / non-canonical / S+kL / bit-flipped / forged / identity-key high-S inputs, a verification as the very first operation of every worker process, histories of 12-22 consecutive Verify calls over related inputs with all buffers refilled in place, all 864 scalars with 64-bit limbs in {0,1,2^64-1,2^63,2^32-1,2^63+1}, GenerateKey under identical scripted readers at every fault position; operation-level comparison of the fork's field (51-bit limb patterns, non-canonical encodings, expressions with non-canonical intermediates, SqrtRatio), scalar and point arithmetic with math/big models through verif-tagged hooks",
         "trusted: crypto/ed25519; the math/big model (internal/ref/edwards.go), itself cross-checked against crypto/ed25519 in every run",
         "runtime monitoring: differential oracle + reference-model checks at hooks + entropy-fault enumeration"),
 "C15": ("exploration", "Ed25519 key blinding over seeds x blinds (incl. all-zero/all-ones, pool pairs) x contexts x messages: blinded key equals SHA-512-derived scalar times A in the math/big model, deterministic signatures verify under crypto/ed25519 and the fork and not under the original key, unblind inverts, blindings commute, blind/context separation; histories of 14 consecutive calls (also with nothing between two blinding calls) with key, blind and context buffers refilled in place; contexts up to 1 MiB; (blind, context) pairs with rare blinding factors (divisible by 2^32, below 2^224: fixture found by search); public keys with extreme encodings; blind equal to the key bytes",
         "trusted: crypto/ed25519, crypto/sha512, the math/big Edwards model",
         "runtime monitoring: reference-model and algebraic-law oracle"),
 "C16": ("exploration", "every exported operation with byte-slice arguments called with each argument in its own canary arena (spare capacity 0/1/7/64, three fills): arenas unchanged, deterministic results independent of the fill; all ordered pairs and triples (quadruples for reused request objects and in the thorough tier) and seeded longer sequences of operations per object type, including the caller writing into a token it was given, (also error values, and the identity of the objects in a request list the caller handed to the batch client) (client states, issuers, batch issuer, reused request objects) with every earlier handed-out value re-checked after each call",
         "quicwire.Append* may write into destination spare capacity by contract; decoders may alias their input",
         "runtime monitoring: canary/snapshot monitors on argument arenas and on previously returned values"),
 "C17": ("exploration", "race-detector build: fresh issuer/key objects used by 16/32 goroutines from a barrier with per-goroutine arguments, all read operations mixed (keys on several curves at once, dense signing bursts, unknown key ids in batches, first use of package-level tables inside the goroutines, an authentic request and tampered copies of it in flight together, two Ed25519 keys at once with blinded signatures re-made sequentially, key blinding on curves without a suite, every tenth repetition with 96 goroutines), repeated per kind with kinds rotated over worker processes; zero race reports (de-duplicated by outermost pat-go frames) and per-call sequential-result oracles",
         "only schedules that ran are judged; the monitor's own oracle code shares no mutable objects between goroutines",
         "runtime monitoring: Go race detector + per-call result oracles under concurrent stress"),
 "C18": ("exploration", "RSA token-key DER for fixtures and synthetic (N,E) over every modulus byte length 1..300 and selected larger ones against a byte-by-byte reference and the Rust pkS; both forms inverted by UnmarshalTokenKey, legacy form parsed by crypto/x509; key ids of all issuer types equal SHA-256 of the reference serialization, requests carry byte 31, type-3 requests carry SHA-256 of the reference EncapKey encoding; related keys in sequence (same modulus with other exponents, coinciding hex(N)||hex(E), keys decoded from accepted non-prescribed encodings must encode to the prescribed DER, name keys decoded with trailing bytes, a modulus containing the PEM armour of another key, key ids for moduli of 2033..2056 bits, moduli with chosen leading octets (ff ff, ff 80, 80 00, ...) and moduli containing the OIDs / AlgorithmIdentifiers a decoder looks for)",
         "trusted: crypto/x509, go-hpke key derivation, the DER reference in internal/ref",
         "runtime monitoring: reference-encoder differential oracle"),
 "C19": ("exploration", "every value below 2^22 (quick) / 2^30 (thorough), boundary and seeded 62-bit values through AppendVarint/SizeVarint/ConsumeVarint; every byte string of length <= 2 and every (first byte, length) pair through the decoder; declared-length x remaining matrix up to 2^62-1 in all varint forms; strings of 2^20..2^26 (2^30 thorough) bytes; against an arithmetic RFC 9000 reference",
         "trusted: the arithmetic reference in props/c19.go; amd64",
         "runtime monitoring: reference-model oracle over exhaustive small domains and boundary sets"),
 "C20": ("exploration", "origin names of every length 0..200 / 0..4128 (interior zeros, block-border variants): served when registered, refused against six near-miss registrations, wire length equals empty-name length + 32*(blocks-1); pad/unpad round trip through the hook",
         "names ending in 0x00 are outside the statement",
         "runtime monitoring: exhaustive length enumeration with served/refused and size oracles"),
}

DESIGN_REF = {k: "DESIGN.md section 2, " + k for k in CHECKS}

def main():
    root = os.path.dirname(os.path.dirname(os.path.abspath(__file__)))
    hooks = subprocess.run(["git", "-C", "/repo", "log", "--format=%h %s"], capture_output=True, text=True).stdout.splitlines()
    hook_commits = [l.split()[0] for l in hooks if "verif hooks" in l]
    checks = []
    for pid in sorted(CHECKS):
        level, text, note, tech = CHECKS[pid]
        checks.append({
            "property_id": pid,
            "quick_cmd": f"./check {pid} quick",
            "thorough_cmd": f"./check {pid} thorough",
            "evidence_file": f"/verif/evidence/{pid}.json",
            "replay_cmd_template": f"./check {pid} --replay {{path}}",
            "engine": "pmon",
            "level_claimed": {"category": level, "text": text, "design_ref": DESIGN_REF[pid]},
            "level_note": note,
            "technique": tech,
        })
    m = {
        "version": 1,
        "setup_cmd": f"cd /verif/harness && {ENV} go build -tags verif -gcflags=all=-d=checkptr -o /verif/.build/pmon ./cmd/pmon && {ENV} go build -tags verif -race -o /verif/.build/pmon-race ./cmd/pmon && {ENV} go test -tags verif -gcflags=all=-d=checkptr -run '^$' -fuzz '^FuzzC03$' -fuzztime 200x ./props && {ENV} go test -tags verif -gcflags=all=-d=checkptr -run '^$' -fuzz '^FuzzC04$' -fuzztime 200x ./props",
        "hooks": {
            "guard": "verif",
            "enable": "Go build tag: go build -tags verif (hook files ed25519/verif_hooks.go, tokens/type3/verif_hooks.go)",
            "baseline_off_cmd": f"cd /repo && {ENV} go test -vet=off -count=1 -timeout 25m ./...",
            "source_commits": hook_commits,
            "add_only": True,
        },
        "engines": [{"name": "pmon", "path": "/verif/harness", "serves_properties": sorted(CHECKS), "kind_free_text": "Go monitor binary (driver + journalled worker processes) built against /repo's working tree with -tags verif; C17 uses the -race build"}],
        "checks": checks,
        "not_applicable": [],
        "notes": "Every check is ./check <id> <tier>; it rebuilds the monitor binary from /repo's working tree, runs sharded worker processes, writes evidence/<id>.json and replay/<id>-<hash>.json. known_findings.txt lists fixed defects (fixed: lines suppress nothing).",
    }
    with open(os.path.join(root, "MANIFEST.json"), "w") as f:
        json.dump(m, f, indent=1)
        f.write("\n")

if __name__ == "__main__":
    main()
